(* ------------------------------------------------------------------------- *)
(*  BS.Codec.ProtoCodec                                                      *)
(*                                                                           *)
(*  Executable model of the wire form of the protocol `Message`              *)
(*  (/repo/src/proto.rs: serde derive, `bincode::serialize` at every send    *)
(*  site, `bincode::deserialize` at every receive site).  Definitions only;  *)
(*  proofs are in ProtoCodecProofs.v.  Driven by the GENERATED tables of     *)
(*  BSGen.ProtoLayout: the variants of `Message` in declaration order        *)
(*  (= serde variant index; the explicit `= n` discriminants do not reach    *)
(*  the wire), their fields in order with their wire types, and the layout   *)
(*  of `SyncConnectionParameters` (lib.rs).                                  *)
(*                                                                           *)
(*  Hand-written facts about dependencies (validated by the correspondence   *)
(*  runs): `Uuid` is 16 bytes behind a u64 length, `String` is its UTF-8     *)
(*  bytes behind a u64 length (UTF-8 validity is not modelled: the model     *)
(*  decoder accepts ill-formed strings that the real one rejects), `Vec<u8>` *)
(*  is a u64 length and the bytes, `IpAddr` is a u32 variant index and the   *)
(*  4 / 16 octets.                                                           *)
(* ------------------------------------------------------------------------- *)

From Coq Require Import List NArith Bool.
From BS Require Import Codec.Schema Codec.CodecTypes.
From BSGen Require Import ProtoLayout.
Import ListNotations.
Local Open Scope N_scope.

Inductive ipaddr := IpV4 (octets : list N) | IpV6 (octets : list N).

(* mirrors `Message` (and the harness' canonical text form); uuids, strings and blobs are byte
   lists *)
Inductive wmsg :=
| W_EntitySpawn (id : list N)
| W_EntityParented (entity_id parent_id : list N)
| W_EntityDelete (id : list N)
| W_ComponentUpdated (id name data : list N)
| W_StandardMaterialUpdated (id material : list N)
| W_MeshUpdated (id url : list N)
| W_ImageUpdated (id url : list N)
| W_AudioUpdated (id url : list N)
| W_PromoteToHost
| W_NewHost (ip : ipaddr) (port web_port max_transfer : N)
| W_RequestInitialSync
| W_FinishedInitialSync.

Definition msg_kind (m : wmsg) : mvariant :=
  match m with
  | W_EntitySpawn _ => K_EntitySpawn
  | W_EntityParented _ _ => K_EntityParented
  | W_EntityDelete _ => K_EntityDelete
  | W_ComponentUpdated _ _ _ => K_ComponentUpdated
  | W_StandardMaterialUpdated _ _ => K_StandardMaterialUpdated
  | W_MeshUpdated _ _ => K_MeshUpdated
  | W_ImageUpdated _ _ => K_ImageUpdated
  | W_AudioUpdated _ _ => K_AudioUpdated
  | W_PromoteToHost => K_PromoteToHost
  | W_NewHost _ _ _ _ => K_NewHost
  | W_RequestInitialSync => K_RequestInitialSync
  | W_FinishedInitialSync => K_FinishedInitialSync
  end.

(* ---- values -------------------------------------------------------------------- *)

Definition val_of_blob (b : list N) : val := VSeq (tmap VInt b).      (* Vec<u8> *)

Definition val_of_ip (ip : ipaddr) : val :=
  match ip with
  | IpV4 o => VEnum 0 (VArr (tmap VInt o))
  | IpV6 o => VEnum 1 (VArr (tmap VInt o))
  end.

Definition sparam_val (ip : ipaddr) (port web_port max_transfer : N) (f : sfield) : val :=
  match f with
  | S_ip => val_of_ip ip
  | S_port => VInt port
  | S_web_port => VInt web_port
  | S_max_transfer => VInt max_transfer
  end.

(* `SyncConnectionParameters::Socket { .. }`: variant 0, fields in declaration order *)
Definition val_of_params (ip : ipaddr) (port web_port max_transfer : N) : val :=
  VEnum 0 (VTuple (map (fun ft => sparam_val ip port web_port max_transfer (fst ft)) sync_params_fields)).

(* the value of field [f] of message [m]; [VUnit] (which inhabits no field type) for a field
   the variant does not have *)
Definition msg_field (m : wmsg) (f : pfield) : val :=
  match m, f with
  | W_EntitySpawn id, P_id => VBytes id
  | W_EntityParented e _, P_entity_id => VBytes e
  | W_EntityParented _ p, P_parent_id => VBytes p
  | W_EntityDelete id, P_id => VBytes id
  | W_ComponentUpdated id _ _, P_id => VBytes id
  | W_ComponentUpdated _ n _, P_name => VBytes n
  | W_ComponentUpdated _ _ d, P_data => val_of_blob d
  | W_StandardMaterialUpdated id _, P_id => VBytes id
  | W_StandardMaterialUpdated _ mat, P_material => val_of_blob mat
  | W_MeshUpdated id _, P_id => VBytes id
  | W_MeshUpdated _ u, P_url => VBytes u
  | W_ImageUpdated id _, P_id => VBytes id
  | W_ImageUpdated _ u, P_url => VBytes u
  | W_AudioUpdated id _, P_id => VBytes id
  | W_AudioUpdated _ u, P_url => VBytes u
  | W_NewHost ip p w t, P_params => val_of_params ip p w t
  | _, _ => VUnit
  end.

(* serde variant index and field list of a variant: its position in the declaration *)
Fixpoint find_variant (k : mvariant) (l : list (mvariant * list (pfield * ty))) (idx : N)
  : option (N * list (pfield * ty)) :=
  match l with
  | [] => None
  | (k', fs) :: r => if mvariant_eqb k k' then Some (idx, fs) else find_variant k r (N.succ idx)
  end.

Fixpoint nth_variant (idx : N) (l : list (mvariant * list (pfield * ty)))
  : option (mvariant * list (pfield * ty)) :=
  match l with
  | [] => None
  | x :: r => if idx =? 0 then Some x else nth_variant (N.pred idx) r
  end.

Definition msg_to_val (m : wmsg) : val :=
  match find_variant (msg_kind m) message_variants 0 with
  | Some (idx, fs) =>
    VEnum idx (match fs with
               | [] => VUnit
               | _ => VTuple (map (fun ft => msg_field m (fst ft)) fs)
               end)
  | None => VUnit
  end.

(* `bincode::serialize(&message)`; [None] only for a [wmsg] that is not a Rust value *)
Definition encode (m : wmsg) : option bytes := enc message_ty (msg_to_val m).

(* ---- back ------------------------------------------------------------------------ *)

Definition blob_of_val (v : val) : option (list N) :=
  match v with
  | VSeq l => all_some (fun x => match x with VInt n => Some n | _ => None end) l
  | _ => None
  end.

Definition octets_of_val (v : val) : option (list N) :=
  match v with
  | VArr l => all_some (fun x => match x with VInt n => Some n | _ => None end) l
  | _ => None
  end.

Definition ip_of_val (v : val) : option ipaddr :=
  match v with
  | VEnum 0 a => match octets_of_val a with Some o => Some (IpV4 o) | None => None end
  | VEnum 1 a => match octets_of_val a with Some o => Some (IpV6 o) | None => None end
  | _ => None
  end.

Definition penv := list (pfield * val).
Definition pbytes (e : penv) (f : pfield) : option (list N) :=
  match assoc pfield_eqb f e with Some (VBytes b) => Some b | _ => None end.
Definition pblob (e : penv) (f : pfield) : option (list N) :=
  match assoc pfield_eqb f e with Some v => blob_of_val v | None => None end.

Definition senv := list (sfield * val).
Definition sint (e : senv) (f : sfield) : option N :=
  match assoc sfield_eqb f e with Some (VInt n) => Some n | _ => None end.

Definition params_of_val (v : val) : option wmsg :=
  match v with
  | VEnum 0 (VTuple vs) =>
    let e := combine (map fst sync_params_fields) vs in
    match assoc sfield_eqb S_ip e with
    | Some ipv =>
      match ip_of_val ipv, sint e S_port, sint e S_web_port, sint e S_max_transfer with
      | Some ip, Some p, Some w, Some t => Some (W_NewHost ip p w t)
      | _, _, _, _ => None
      end
    | None => None
    end
  | _ => None
  end.


Definition build_msg (k : mvariant) (e : penv) : option wmsg :=
  match k with
  | K_EntitySpawn => id <- pbytes e P_id ;; Some (W_EntitySpawn id)
  | K_EntityParented => a <- pbytes e P_entity_id ;; b <- pbytes e P_parent_id ;; Some (W_EntityParented a b)
  | K_EntityDelete => id <- pbytes e P_id ;; Some (W_EntityDelete id)
  | K_ComponentUpdated =>
    id <- pbytes e P_id ;; n <- pbytes e P_name ;; d <- pblob e P_data ;; Some (W_ComponentUpdated id n d)
  | K_StandardMaterialUpdated =>
    id <- pbytes e P_id ;; d <- pblob e P_material ;; Some (W_StandardMaterialUpdated id d)
  | K_MeshUpdated => id <- pbytes e P_id ;; u <- pbytes e P_url ;; Some (W_MeshUpdated id u)
  | K_ImageUpdated => id <- pbytes e P_id ;; u <- pbytes e P_url ;; Some (W_ImageUpdated id u)
  | K_AudioUpdated => id <- pbytes e P_id ;; u <- pbytes e P_url ;; Some (W_AudioUpdated id u)
  | K_PromoteToHost => Some W_PromoteToHost
  | K_NewHost => v <- assoc pfield_eqb P_params e ;; params_of_val v
  | K_RequestInitialSync => Some W_RequestInitialSync
  | K_FinishedInitialSync => Some W_FinishedInitialSync
  end.

Definition val_to_msg (v : val) : option wmsg :=
  match v with
  | VEnum idx p =>
    match nth_variant idx message_variants with
    | Some (k, fs) =>
      build_msg k (match p with VTuple vs => combine (map fst fs) vs | _ => [] end)
    | None => None
    end
  | _ => None
  end.

(* `bincode::deserialize::<Message>(bytes).ok()`: trailing bytes are ignored (the free functions
   of bincode 1.3 use `allow_trailing_bytes`).  [None] is a decode error -- and, formally, also a
   decoded value that does not have the shape of its schema, which no input produces
   (SchemaProofs.dec_wt). *)
Definition decode (bs : bytes) : option wmsg :=
  match dec message_ty bs with
  | Some (v, _) => val_to_msg v
  | None => None
  end.

(* stack-safe variants (extracted and run; equal to the above) *)
Definition encode_fast (m : wmsg) : option bytes := enc_fast message_ty (msg_to_val m).
Definition decode_fast (bs : bytes) : option wmsg :=
  match dec_fast message_ty bs with
  | Some (v, _) => val_to_msg v
  | None => None
  end.

(* ---- the messages the property speaks about ---------------------------------------------- *)

Definition uuid_ok (u : list N) : Prop := length u = 16%nat /\ Forall (fun x => x < 256) u.
Definition blob_ok (b : list N) : Prop :=
  N.of_nat (length b) < 2 ^ 64 /\ Forall (fun x => x < 256) b.
Definition ip_ok (ip : ipaddr) : Prop :=
  match ip with
  | IpV4 o => length o = 4%nat /\ Forall (fun x => x < 256) o
  | IpV6 o => length o = 16%nat /\ Forall (fun x => x < 256) o
  end.

(* [m] is a Rust value (strings: any bytes; the real type additionally guarantees UTF-8) *)
Definition wf_msg (m : wmsg) : Prop :=
  match m with
  | W_EntitySpawn id | W_EntityDelete id => uuid_ok id
  | W_EntityParented a b => uuid_ok a /\ uuid_ok b
  | W_ComponentUpdated id n d => uuid_ok id /\ blob_ok n /\ blob_ok d
  | W_StandardMaterialUpdated id d => uuid_ok id /\ blob_ok d
  | W_MeshUpdated id u | W_ImageUpdated id u | W_AudioUpdated id u => uuid_ok id /\ blob_ok u
  | W_NewHost ip p w t => ip_ok ip /\ p < 2 ^ 16 /\ w < 2 ^ 16 /\ t < 2 ^ 64
  | W_PromoteToHost | W_RequestInitialSync | W_FinishedInitialSync => True
  end.
