(** * Lz4Proofs: round trip of the lz4-compression 0.7.0 model, for all inputs

    Main results (no hypothesis on the input, no axioms)
    - [lz4_roundtrip : forall bs, decompress (compress bs) = inr bs]
      ([lz4_roundtrip_ok] for [decompress_ok]).
    - [compress_fuel_sufficient], [decompress_fuel_sufficient]: the out-of-fuel
      branches of [compress] and [decompress] are never taken; the second one
      holds for every input of the decoder, well formed or not.
    - [compress_bytes]: the compressed stream of a byte string is a byte string.
    - [hash_fast_eq] / [slot_eq]: the table based hash used by [slot] is the
      literal [hash (batch b0 b1 b2 b3)].
    - fidelity of the fast list primitives of the model: [take_rev_spec]
      ([take_imp] + [extend_from_slice], with the failure case),
      [duplicate_is_ref] (the queue based match copy is the crate's
      byte-by-byte loop [duplicate_ref], overlapping or not),
      [take_rev_window_none] (the offset bound check).

    Structure of the round trip proof
    - LSIC: [read_integer_lsic].
    - [DI]: every dictionary entry holds an earlier position together with the
      input suffix at that position; preserved by [insert_cursor]/[go_forward].
      The proof does not depend on the hash function.
    - [match_ok]: what a reported duplicate means, from the byte comparisons of
      [find_at] alone ([find_at_ok]); a fact about the input.
    - [duplicate_ok]: the decoder's match copy reproduces the next bytes of the
      input under [match_ok] (overlap needs nothing extra).
    - [pop_block_ok], [emit_block_ok], [read_literal_section_ok],
      [read_duplicate_section_ok]: one block, encoder and decoder side.
    - [complete_ok]: both loops, by induction on the encoder fuel. *)

From Coq Require Import Bool List PeanoNat NArith Lia FMapPositive ZifyBool ZifyN ZifyNat.
From BS Require Import Codec.Lz4.
Import ListNotations.
Local Open Scope N_scope.

Arguments N.add : simpl never.
Arguments N.sub : simpl never.
Arguments N.mul : simpl never.
Arguments N.div : simpl never.
Arguments N.modulo : simpl never.
Arguments N.eqb : simpl never.
Arguments N.ltb : simpl never.
Arguments N.leb : simpl never.
Arguments N.of_nat : simpl never.
Arguments N.to_nat : simpl never.
Arguments N.succ : simpl never.
Arguments N.pred : simpl never.

(** ** Helpers *)

Lemma fuel_of_length : forall l : list N, fuel_of l = length l.
Proof. intro l. unfold fuel_of. apply fold_left_length. Qed.

Lemma rev_append_nil : forall l : list N, rev_append l [] = rev l.
Proof. intro l. rewrite rev_append_rev. apply app_nil_r. Qed.

Lemma take_rev_0 : forall l acc, take_rev 0 l acc = Some (acc, l).
Proof. intros [|b l] acc; reflexivity. Qed.

Lemma take_rev_app : forall a b acc,
  take_rev (N.of_nat (length a)) (a ++ b) acc = Some (rev a ++ acc, b).
Proof.
  induction a as [|x a IHa]; intros b acc.
  - cbn [length app rev]. apply take_rev_0.
  - cbn [length app rev take_rev].
    destruct (N.eqb_spec (N.of_nat (S (length a))) 0) as [Hz|Hz]; [lia|].
    replace (N.pred (N.of_nat (S (length a)))) with (N.of_nat (length a)) by lia.
    rewrite IHa. rewrite <- app_assoc. reflexivity.
Qed.

Lemma push_n_0 : forall l acc, push_n 0 l acc = acc.
Proof. intros [|b l] acc; reflexivity. Qed.

Lemma push_n_app : forall a b acc,
  push_n (N.of_nat (length a)) (a ++ b) acc = rev a ++ acc.
Proof.
  induction a as [|x a IHa]; intros b acc.
  - cbn [length app rev]. apply push_n_0.
  - cbn [length app rev push_n].
    destruct (N.eqb_spec (N.of_nat (S (length a))) 0) as [Hz|Hz]; [lia|].
    replace (N.pred (N.of_nat (S (length a)))) with (N.of_nat (length a)) by lia.
    rewrite IHa. rewrite <- app_assoc. reflexivity.
Qed.

(** [cur_slot] is defined exactly under [remaining_batch], i.e. [cur + 4 < len]. *)
Lemma cur_slot_remaining_batch : forall rest,
  cur_slot rest <> None <-> remaining_batch rest = true.
Proof.
  intros [|b0 [|b1 [|b2 [|b3 [|b4 tl]]]]]; cbn [cur_slot remaining_batch];
    split; intro H; try discriminate; try reflexivity; try (exfalso; apply H; reflexivity).
Qed.

Lemma remaining_batch_length : forall rest,
  remaining_batch rest = true <-> (4 < length rest)%nat.
Proof.
  intros [|b0 [|b1 [|b2 [|b3 [|b4 tl]]]]]; cbn [remaining_batch length];
    split; intro H; try discriminate; try reflexivity; lia.
Qed.

(** ** The table based hash is the literal hash

    [slot] uses [hash_fast]; it computes [hash (batch b0 b1 b2 b3)], the literal
    transcription of [get_cur_hash], for all arguments.  (The round trip does
    not depend on this: it holds for any hash function.) *)

Lemma succ_pos_inj : forall a b, N.succ_pos a = N.succ_pos b -> a = b.
Proof.
  intros a b H. apply N.succ_inj. rewrite <- !N.succ_pos_spec. rewrite H. reflexivity.
Qed.

Lemma mk_table_spec : forall f n b,
  table_get (mk_table f n) b = if b <? n then Some (f b) else None.
Proof.
  intros f n b. unfold table_get, mk_table.
  set (F := fun st : N * PositiveMap.t N =>
              let (i, m) := st in (N.succ i, PositiveMap.add (N.succ_pos i) (f i) m)).
  assert (H : fst (N.iter n F (0, PositiveMap.empty N)) = n /\
              PositiveMap.find (N.succ_pos b) (snd (N.iter n F (0, PositiveMap.empty N)))
              = if b <? n then Some (f b) else None).
  { induction n as [|n IHn] using N.peano_ind.
    - cbn [N.iter fst snd]. split; [reflexivity|].
      rewrite PositiveMap.gempty. destruct (N.ltb_spec b 0); [lia|reflexivity].
    - rewrite N.iter_succ. destruct IHn as [Hi Hm].
      destruct (N.iter n F (0, PositiveMap.empty N)) as [i m].
      cbn [fst snd] in Hi, Hm. subst i. unfold F at 1 2. cbv beta iota. cbn [fst snd].
      split; [reflexivity|].
      destruct (N.eq_dec b n) as [He|Hne].
      + subst b. rewrite PositiveMap.gss.
        destruct (N.ltb_spec n (N.succ n)); [reflexivity|lia].
      + rewrite PositiveMap.gso by (intro Hs; apply succ_pos_inj in Hs; contradiction).
        rewrite Hm.
        destruct (N.ltb_spec b n); destruct (N.ltb_spec b (N.succ n)); try reflexivity; lia. }
  exact (proj2 H).
Qed.

Lemma mask32_mod : forall x, mask32 x = x mod 4294967296.
Proof. intro x. unfold mask32. change 0xFFFFFFFF with (N.ones 32). apply N.land_ones. Qed.

Lemma land4095_mod : forall x, N.land x 4095 = x mod 4096.
Proof. intro x. change 4095 with (N.ones 12). apply N.land_ones. Qed.

Lemma land_lxor_distr_r : forall a b c,
  N.land (N.lxor a b) c = N.lxor (N.land a c) (N.land b c).
Proof.
  intros a b c. apply N.bits_inj. intro n.
  rewrite N.land_spec, !N.lxor_spec, !N.land_spec.
  destruct (N.testbit a n), (N.testbit b n), (N.testbit c n); reflexivity.
Qed.

Lemma add4_mod32 : forall a b c d,
  (a mod 4294967296 + b mod 4294967296 + c mod 4294967296 + d mod 4294967296) mod 4294967296
  = (a + b + c + d) mod 4294967296.
Proof.
  intros a b c d.
  rewrite (N.add_mod (a + b + c) d), (N.add_mod (a + b) c), (N.add_mod a b) by lia.
  rewrite (N.add_mod (a mod 4294967296 + b mod 4294967296 + c mod 4294967296)
                     (d mod 4294967296)) by lia.
  rewrite (N.add_mod (a mod 4294967296 + b mod 4294967296) (c mod 4294967296)) by lia.
  rewrite !N.mod_mod by lia. reflexivity.
Qed.

Lemma first_mult : forall b0 b1 b2 b3,
  mask32 (mask32 (b0 * hash_mult) + mask32 (256 * b1 * hash_mult)
          + mask32 (65536 * b2 * hash_mult) + mask32 (16777216 * b3 * hash_mult))
  = mask32 (batch b0 b1 b2 b3 * hash_mult).
Proof.
  intros b0 b1 b2 b3. unfold batch. rewrite !mask32_mod.
  rewrite add4_mod32. rewrite N.mul_mod_idemp_l by lia.
  f_equal. unfold hash_mult. lia.
Qed.

Lemma second_mult : forall x,
  N.land (mask32 (x * hash_mult)) 4095 = N.land (N.land x 4095 * hash_mult) 4095.
Proof.
  intro x. rewrite mask32_mod, !land4095_mod.
  rewrite N.mul_mod_idemp_l by lia.
  change 4294967296 with (4096 * 1048576).
  rewrite N.mod_mul_r by lia.
  rewrite (N.mul_comm 4096), N.mod_add by lia.
  apply N.mod_mod; lia.
Qed.

Theorem hash_fast_eq : forall b0 b1 b2 b3,
  hash_fast b0 b1 b2 b3 = hash (batch b0 b1 b2 b3).
Proof.
  intros b0 b1 b2 b3. unfold hash_fast.
  unfold mul_table0, mul_table1, mul_table2, mul_table3, mul_table12.
  rewrite !mk_table_spec.
  destruct (b0 <? 256); [|reflexivity].
  destruct (b1 <? 256); [|reflexivity].
  destruct (b2 <? 256); [|reflexivity].
  destruct (b3 <? 256); [|reflexivity].
  cbv zeta. rewrite mk_table_spec. rewrite first_mult.
  set (x := mask32 (batch b0 b1 b2 b3 * hash_mult)).
  rewrite (N.shiftr_shiftr x 16 14). change (16 + 14) with 30.
  set (y := N.shiftr (N.shiftr x 16) (N.shiftr x 30)).
  rewrite <- land_lxor_distr_r.
  assert (Hv : N.land (N.lxor x y) 4095 < 4096).
  { rewrite land4095_mod. apply N.mod_lt. lia. }
  destruct (N.ltb_spec (N.land (N.lxor x y) 4095) 4096) as [_|Hge]; [|lia].
  unfold hash. cbv zeta. fold hash_mult. fold x. fold y.
  rewrite second_mult. reflexivity.
Qed.

Corollary slot_eq : forall b0 b1 b2 b3,
  slot b0 b1 b2 b3 = N.succ_pos (hash (batch b0 b1 b2 b3)).
Proof. intros. unfold slot. rewrite hash_fast_eq. reflexivity. Qed.

(** ** LSIC *)

Lemma iter_cons_app : forall q (x tl : list N),
  N.iter q (cons 255) x ++ tl = N.iter q (cons 255) (x ++ tl).
Proof.
  intros q x tl. induction q as [|q IHq] using N.peano_ind.
  - reflexivity.
  - rewrite !N.iter_succ. cbn [app]. rewrite IHq. reflexivity.
Qed.

Lemma read_integer_iter : forall q r tl acc,
  r <> 255 ->
  read_integer (N.iter q (cons 255) (r :: tl)) acc = Some (acc + 255 * q + r, tl).
Proof.
  intros q r tl acc Hr. revert acc.
  induction q as [|q IHq] using N.peano_ind; intro acc.
  - cbn [N.iter read_integer].
    destruct (N.eqb_spec r 255) as [He|He]; [contradiction|].
    f_equal. f_equal. lia.
  - rewrite N.iter_succ. cbn [read_integer].
    destruct (N.eqb_spec 255 255) as [_|Hne]; [|contradiction].
    rewrite IHq. f_equal. f_equal. lia.
Qed.

Lemma read_integer_lsic : forall n tl acc,
  read_integer (lsic n ++ tl) acc = Some (acc + n, tl).
Proof.
  intros n tl acc. unfold lsic. rewrite iter_cons_app. cbn [app].
  assert (Hlt : n mod 255 < 255) by (apply N.mod_lt; lia).
  rewrite read_integer_iter by lia.
  f_equal. f_equal.
  pose proof (N.div_mod n 255 ltac:(lia)) as Hdm. lia.
Qed.

Lemma lsic_nonempty : forall n, lsic n <> [].
Proof.
  intro n. unfold lsic.
  destruct (n / 255) as [|p] using N.peano_ind.
  - discriminate.
  - rewrite N.iter_succ. discriminate.
Qed.

(** ** The match copy of the decoder *)

(** Queue content [front ++ rev back]; if the next [L] bytes [r] to be produced
    agree with the stream "queue content followed by [r] itself" (this is what
    a possibly overlapping match means), then [L] steps produce them. *)
Lemma dup_iter_ok : forall (L : N) front back acc r,
  front ++ rev back <> [] ->
  firstn (N.to_nat L) r = firstn (N.to_nat L) ((front ++ rev back) ++ r) ->
  (N.to_nat L <= length r)%nat ->
  exists f' b', N.iter L dup_step (front, back, acc) = (f', b', rev (firstn (N.to_nat L) r) ++ acc).
Proof.
  induction L as [|L IHL] using N.peano_ind; intros front back acc r Hne Heq Hlen.
  - exists front, back. reflexivity.
  - rewrite N2Nat.inj_succ in Heq, Hlen |- *.
    destruct r as [|x r]; [cbn [length] in Hlen; lia|].
    rewrite N.iter_succ_r.
    (* the queue is [q0 :: q'] and one step pops [q0], pushes it *)
    assert (Hstep : exists q0 q' f1 b1,
               front ++ rev back = q0 :: q' /\
               dup_step (front, back, acc) = (f1, b1, q0 :: acc) /\
               f1 ++ rev b1 = q' ++ [q0]).
    { destruct front as [|b f'].
      - cbn [app] in Hne |- *. cbn [dup_step]. rewrite rev_append_nil.
        destruct (rev back) as [|q0 q'] eqn:Hrb; [contradiction|].
        exists q0, q', q', [q0]. repeat split.
      - exists b, (f' ++ rev back), f', (b :: back). cbn [dup_step app rev].
        repeat split. rewrite app_assoc. reflexivity. }
    destruct Hstep as (q0 & q' & f1 & b1 & Hq & Hst & Hq1).
    rewrite Hst. rewrite Hq in Heq. cbn [firstn app] in Heq.
    injection Heq as Hx Heq. subst q0.
    destruct (IHL f1 b1 (x :: acc) r) as (f2 & b2 & Hit).
    + rewrite Hq1. destruct q'; discriminate.
    + rewrite Hq1. rewrite <- app_assoc. exact Heq.
    + cbn [length] in Hlen. lia.
    + exists f2, b2. rewrite Hit. cbn [firstn rev]. rewrite <- app_assoc. reflexivity.
Qed.

Lemma duplicate_ok : forall (L : N) w acc r,
  w <> [] ->
  firstn (N.to_nat L) r = firstn (N.to_nat L) (w ++ r) ->
  (N.to_nat L <= length r)%nat ->
  duplicate w L acc = rev (firstn (N.to_nat L) r) ++ acc.
Proof.
  intros L w acc r Hne Heq Hlen. unfold duplicate.
  destruct (dup_iter_ok L w [] acc r) as (f' & b' & Hit).
  - cbn [rev]. rewrite app_nil_r. exact Hne.
  - cbn [rev]. rewrite app_nil_r. exact Heq.
  - exact Hlen.
  - rewrite Hit. reflexivity.
Qed.

(** ** Encoder: dictionary invariant *)

(** [pre] is the consumed prefix, [rest] the remaining suffix of the input
    (input = [pre ++ rest], [cur = length pre]).  Every dictionary entry is an
    earlier position with the input suffix at that position. *)
Definition DI (d : dict) (pre rest : list N) : Prop :=
  forall k cand cs,
    PositiveMap.find k d = Some (cand, cs) ->
    exists p w, pre = p ++ w /\ w <> [] /\ cs = w ++ rest /\ cand = N.of_nat (length p).

Lemma DI_empty : forall rest, DI empty_dict [] rest.
Proof.
  intros rest k cand cs Hf. unfold empty_dict in Hf.
  rewrite PositiveMap.gempty in Hf. discriminate.
Qed.

Lemma DI_insert : forall d pre b rest,
  DI d pre (b :: rest) ->
  DI (insert_cursor (N.of_nat (length pre)) (b :: rest) d) (pre ++ [b]) rest.
Proof.
  intros d pre b rest HDI.
  assert (Hold : forall k cand cs, PositiveMap.find k d = Some (cand, cs) ->
            exists p w, pre ++ [b] = p ++ w /\ w <> [] /\ cs = w ++ rest
                        /\ cand = N.of_nat (length p)).
  { intros k cand cs Hf. destruct (HDI k cand cs Hf) as (p & w & Hpre & Hw & Hcs & Hc).
    exists p, (w ++ [b]). repeat split.
    - rewrite Hpre. rewrite app_assoc. reflexivity.
    - destruct w; discriminate.
    - rewrite Hcs. rewrite <- app_assoc. reflexivity.
    - exact Hc. }
  unfold insert_cursor, insert_at.
  destruct (cur_slot (b :: rest)) as [k0|]; [|exact Hold].
  intros k cand cs Hf.
  destruct (Pos.eq_dec k k0) as [He|Hne].
  - subst k0. rewrite PositiveMap.gss in Hf. injection Hf as Hc Hcs.
    exists pre, [b]. repeat split.
    + discriminate.
    + symmetry. exact Hcs.
    + symmetry. exact Hc.
  - rewrite PositiveMap.gso in Hf by exact Hne. exact (Hold k cand cs Hf).
Qed.

Lemma go_forward_0 : forall cur rest d, go_forward 0 cur rest d = (cur, rest, d).
Proof. intros cur [|b rest] d; reflexivity. Qed.

Lemma go_forward_ok : forall a pre b d,
  DI d pre (a ++ b) ->
  exists d',
    go_forward (N.of_nat (length a)) (N.of_nat (length pre)) (a ++ b) d
      = (N.of_nat (length (pre ++ a)), b, d')
    /\ DI d' (pre ++ a) b.
Proof.
  induction a as [|x a IHa]; intros pre b d HDI.
  - exists d. cbn [length app]. rewrite go_forward_0, app_nil_r. split; [reflexivity|exact HDI].
  - cbn [app] in HDI. apply DI_insert in HDI.
    destruct (IHa (pre ++ [x]) b _ HDI) as (d' & Hgo & HDI').
    exists d'. cbn [length app go_forward].
    destruct (N.eqb_spec (N.of_nat (S (length a))) 0) as [Hz|Hz]; [lia|].
    replace (N.pred (N.of_nat (S (length a)))) with (N.of_nat (length a)) by lia.
    replace (N.succ (N.of_nat (length pre))) with (N.of_nat (length (pre ++ [x])))
      by (rewrite app_length; cbn [length]; lia).
    rewrite <- app_assoc in Hgo, HDI'. cbn [app] in Hgo, HDI'.
    split; [exact Hgo|exact HDI'].
Qed.

(** ** Encoder: what a reported duplicate means *)

Lemma common_prefix_ok : forall a b acc,
  exists k, common_prefix a b acc = acc + N.of_nat k
            /\ firstn k a = firstn k b /\ (k <= length a)%nat.
Proof.
  induction a as [|x a IHa]; intros b acc.
  - exists O. cbn [common_prefix firstn length]. repeat split; [lia|lia].
  - destruct b as [|y b].
    + exists O. cbn [common_prefix firstn length]. repeat split; [lia|lia].
    + cbn [common_prefix]. destruct (N.eqb_spec x y) as [He|Hne].
      * subst y. destruct (IHa b (N.succ acc)) as (k & Hk & Hf & Hl).
        exists (S k). cbn [firstn length]. repeat split; [lia| |lia].
        rewrite Hf. reflexivity.
      * exists O. cbn [firstn length]. repeat split; [lia|lia].
Qed.

(** [mlen ext]: the match length as a [nat] (for [firstn]/[skipn] only). *)
Definition mlen (ext : N) : nat := (4 + N.to_nat ext)%nat.

(** A duplicate [(off, ext)] reported with consumed prefix [pre] and remaining
    input [r]: the last [off] bytes [w] of [pre], followed by [r] itself, agree
    with [r] on the match length.  A fact about the input alone. *)
Definition match_ok (pre r : list N) (off ext : N) : Prop :=
  exists p w,
    pre = p ++ w /\ w <> [] /\ off = N.of_nat (length w) /\ off <= 65535 /\
    (mlen ext <= length r)%nat /\
    firstn (mlen ext) r = firstn (mlen ext) (w ++ r).

Lemma find_at_ok : forall d pre rest off ext,
  DI d pre rest ->
  find_at (cur_slot rest) (N.of_nat (length pre)) rest d = Some (off, ext) ->
  match_ok pre rest off ext.
Proof.
  intros d pre rest off ext HDI Hfind.
  unfold find_at, cur_slot in Hfind.
  destruct rest as [|b0 [|b1 [|b2 [|b3 [|b4 tl]]]]]; try discriminate.
  destruct (PositiveMap.find (slot b0 b1 b2 b3) d) as [[cand cs]|] eqn:Hf; [|discriminate].
  destruct cs as [|c0 [|c1 [|c2 [|c3 ctl]]]]; try discriminate.
  destruct ((c0 =? b0) && (c1 =? b1) && (c2 =? b2) && (c3 =? b3)
            && (N.of_nat (length pre) - cand <=? 65535)) eqn:Hc; [|discriminate].
  injection Hfind as Hoff Hext0.
  assert (Hext : common_prefix (b4 :: tl) ctl 0 = ext) by exact Hext0.
  clear Hext0.
  repeat rewrite andb_true_iff in Hc.
  destruct Hc as [[[[H0 H1] H2] H3] H4].
  apply N.eqb_eq in H0, H1, H2, H3. apply N.leb_le in H4. subst c0 c1 c2 c3.
  destruct (HDI _ _ _ Hf) as (p & w & Hpre & Hw & Hcs & Hcand).
  destruct (common_prefix_ok (b4 :: tl) ctl 0) as (k & Hk & Hfk & Hlk).
  assert (Hoffw : off = N.of_nat (length w)).
  { subst off cand pre. rewrite app_length. lia. }
  assert (Hml : mlen ext = (4 + k)%nat).
  { unfold mlen. subst ext. rewrite Hk. lia. }
  exists p, w. rewrite Hml. repeat split.
  - exact Hpre.
  - exact Hw.
  - exact Hoffw.
  - lia.
  - cbn [length] in Hlk |- *. lia.
  - rewrite <- Hcs. cbn [firstn Nat.add]. rewrite Hfk. reflexivity.
Qed.

(** ** Encoder: [pop_block] *)

Lemma pop_block_ok : forall rest pre d lit,
  DI d pre rest ->
  match pop_block (N.of_nat (length pre)) rest d lit with
  | BLast lit' => lit' = lit + N.of_nat (length rest)
  | BDup lit' off ext cur' rest' d' =>
      exists lits r2,
        rest = lits ++ r2 /\
        lit' = lit + N.of_nat (length lits) /\
        match_ok (pre ++ lits) r2 off ext /\
        cur' = N.of_nat (length (pre ++ lits ++ firstn (mlen ext) r2)) /\
        rest' = skipn (mlen ext) r2 /\
        DI d' (pre ++ lits ++ firstn (mlen ext) r2) rest'
  end.
Proof.
  induction rest as [|x rest IHrest]; intros pre d lit HDI.
  - cbn [pop_block cur_slot find_at length]. lia.
  - cbn [pop_block]. cbv zeta.
    destruct (find_at (cur_slot (x :: rest)) (N.of_nat (length pre)) (x :: rest) d)
      as [[off ext]|] eqn:Hfind.
    + pose proof (find_at_ok _ _ _ _ _ HDI Hfind) as Hm.
      assert (Hlen : (mlen ext <= length (x :: rest))%nat).
      { destruct Hm as (p & w & _ & _ & _ & _ & Hl & _). exact Hl. }
      pose proof (firstn_skipn (mlen ext) (x :: rest)) as Hsplit.
      assert (Hfl : length (firstn (mlen ext) (x :: rest)) = mlen ext)
        by (apply firstn_length_le; exact Hlen).
      rewrite <- Hsplit in HDI.
      destruct (go_forward_ok _ _ _ _ HDI) as (d' & Hgo & HDI').
      rewrite Hfl in Hgo. rewrite Hsplit in Hgo.
      replace (ext + 4) with (N.of_nat (mlen ext)) by (unfold mlen; lia).
      rewrite Hgo.
      exists [], (x :: rest). cbn [app length]. rewrite app_nil_r.
      repeat split; try assumption. lia.
    + fold (insert_cursor (N.of_nat (length pre)) (x :: rest) d).
      apply DI_insert in HDI.
      replace (N.succ (N.of_nat (length pre))) with (N.of_nat (length (pre ++ [x])))
        by (rewrite app_length; cbn [length]; lia).
      specialize (IHrest (pre ++ [x]) _ (N.succ lit) HDI).
      destruct (pop_block (N.of_nat (length (pre ++ [x]))) rest
                  (insert_cursor (N.of_nat (length pre)) (x :: rest) d) (N.succ lit))
        as [lit'|lit' off ext cur' rest' d'].
      * cbn [length]. lia.
      * destruct IHrest as (lits & r2 & Hrest & Hlit & Hm & Hcur & Hrest' & HDI').
        exists (x :: lits), r2.
        rewrite <- !app_assoc in Hm, Hcur, HDI'. cbn [app] in Hm, Hcur, HDI' |- *.
        repeat split; try assumption.
        -- rewrite Hrest. reflexivity.
        -- cbn [length]. lia.
Qed.

(** ** Block layout *)

Definition lsic_opt (n : N) : list N := if 15 <=? n then lsic (n - 15) else [].

(** Forward bytes of one block. *)
Definition block_bytes (lits : list N) (dup : option (N * N)) : list N :=
  let lit := N.of_nat (length lits) in
  (16 * nibble lit + nibble (match dup with Some (_, ext) => ext | None => 0 end))
    :: lsic_opt lit ++ lits
    ++ match dup with
       | Some (off, ext) => off mod 256 :: (off / 256) mod 256 :: lsic_opt ext
       | None => []
       end.

Lemma emit_block_ok : forall lits r dup out_rev,
  emit_block (N.of_nat (length lits)) (lits ++ r) dup out_rev
    = rev (block_bytes lits dup) ++ out_rev.
Proof.
  intros lits r dup out_rev. unfold emit_block, block_bytes, lsic_opt, write_integer.
  cbv zeta. rewrite push_n_app.
  destruct dup as [[off ext]|].
  - destruct (15 <=? N.of_nat (length lits)); destruct (15 <=? ext);
      rewrite ?rev_append_rev; cbn [rev app];
      repeat (rewrite ?rev_app_distr; cbn [rev app]);
      repeat rewrite <- app_assoc; cbn [app]; reflexivity.
  - destruct (15 <=? N.of_nat (length lits));
      rewrite ?rev_append_rev; cbn [rev app];
      repeat (rewrite ?rev_app_distr; cbn [rev app]);
      repeat rewrite <- app_assoc; cbn [app]; reflexivity.
Qed.

Lemma nibble_lt : forall n, nibble n < 16.
Proof. intro n. unfold nibble. destruct (N.ltb_spec n 15); lia. Qed.

Lemma token_hi : forall h l, l < 16 -> (16 * h + l) / 16 = h.
Proof. intros h l Hl. symmetry. apply N.div_unique with l; [exact Hl|reflexivity]. Qed.

Lemma token_lo : forall h l, l < 16 -> (16 * h + l) mod 16 = l.
Proof. intros h l Hl. symmetry. apply N.mod_unique with h; [exact Hl|reflexivity]. Qed.

(** ** Decoder on one block *)

Lemma read_literal_section_ok : forall lits lo tl out_rev,
  lo < 16 ->
  read_literal_section (16 * nibble (N.of_nat (length lits)) + lo)
                       (lsic_opt (N.of_nat (length lits)) ++ lits ++ tl) out_rev
    = inr (tl, rev lits ++ out_rev).
Proof.
  intros lits lo tl out_rev Hlo. unfold read_literal_section. cbv zeta.
  rewrite token_hi by exact Hlo. unfold nibble, lsic_opt.
  destruct (N.ltb_spec (N.of_nat (length lits)) 15) as [Hlt|Hge].
  - destruct (N.eqb_spec (N.of_nat (length lits)) 15) as [He|_]; [lia|].
    destruct (N.leb_spec 15 (N.of_nat (length lits))) as [Hle|_]; [lia|].
    cbn [app]. rewrite take_rev_app. reflexivity.
  - destruct (N.eqb_spec 15 15) as [_|Hne]; [|contradiction].
    destruct (N.leb_spec 15 (N.of_nat (length lits))) as [_|Hlt]; [|lia].
    rewrite read_integer_lsic.
    replace (15 + (0 + (N.of_nat (length lits) - 15))) with (N.of_nat (length lits)) by lia.
    rewrite take_rev_app. reflexivity.
Qed.

Lemma read_duplicate_section_ok : forall pre r off ext hi tl,
  match_ok pre r off ext ->
  read_duplicate_section (16 * hi + nibble ext)
      (off mod 256 :: (off / 256) mod 256 :: lsic_opt ext ++ tl) (rev pre)
    = inr (tl, rev (pre ++ firstn (mlen ext) r)).
Proof.
  intros pre r off ext hi tl (p & w & Hpre & Hw & Hoff & Hoffle & Hlen & Heq).
  unfold read_duplicate_section. cbv zeta.
  rewrite token_lo by apply nibble_lt.
  assert (Hoffdec : off mod 256 + 256 * ((off / 256) mod 256) = off).
  { assert (Hsmall : off / 256 < 256) by (apply N.div_lt_upper_bound; lia).
    rewrite (N.mod_small (off / 256) 256) by exact Hsmall.
    pose proof (N.div_mod off 256 ltac:(lia)) as Hdm. lia. }
  rewrite Hoffdec.
  assert (Hoffnz : off <> 0).
  { subst off. destruct w; [contradiction|]. cbn [length]. lia. }
  assert (Htake : take_rev off (rev pre) [] = Some (w, rev p)).
  { subst off pre. rewrite rev_app_distr. rewrite <- (rev_length w).
    rewrite take_rev_app. rewrite rev_involutive, app_nil_r. reflexivity. }
  assert (Hdup : duplicate w (4 + ext) (rev pre) = rev (pre ++ firstn (mlen ext) r)).
  { rewrite rev_app_distr.
    replace (mlen ext) with (N.to_nat (4 + ext)) in * by (unfold mlen; lia).
    apply duplicate_ok; assumption. }
  unfold nibble, lsic_opt.
  destruct (N.ltb_spec ext 15) as [Hlt|Hge].
  - destruct (N.eqb_spec (4 + ext) 19) as [He|_]; [lia|].
    destruct (N.leb_spec 15 ext) as [Hle|_]; [lia|].
    cbn [app].
    destruct (N.eqb_spec off 0) as [Hz|_]; [contradiction|].
    rewrite Htake, Hdup. reflexivity.
  - destruct (N.eqb_spec (4 + 15) 19) as [_|Hne]; [|lia].
    destruct (N.leb_spec 15 ext) as [_|Hlt]; [|lia].
    rewrite read_integer_lsic.
    replace (4 + 15 + (0 + (ext - 15))) with (4 + ext) by lia.
    destruct (N.eqb_spec off 0) as [Hz|_]; [contradiction|].
    rewrite Htake, Hdup. reflexivity.
Qed.

Lemma dec_loop_last : forall fuel lits out_rev,
  dec_loop (S fuel) (block_bytes lits None) out_rev = DOk (rev lits ++ out_rev).
Proof.
  intros fuel lits out_rev. unfold block_bytes. cbv zeta. cbn [dec_loop].
  rewrite read_literal_section_ok by apply nibble_lt. reflexivity.
Qed.

Lemma dec_loop_dup : forall fuel pre lits r off ext stream,
  match_ok (pre ++ lits) r off ext ->
  dec_loop (S fuel) (block_bytes lits (Some (off, ext)) ++ stream) (rev pre)
    = dec_loop fuel stream (rev (pre ++ lits ++ firstn (mlen ext) r)).
Proof.
  intros fuel pre lits r off ext stream Hm. unfold block_bytes. cbv zeta.
  cbn [app dec_loop]. rewrite <- !app_assoc. cbn [app].
  rewrite read_literal_section_ok by apply nibble_lt.
  rewrite <- rev_app_distr.
  rewrite (read_duplicate_section_ok _ _ _ _ _ _ Hm).
  rewrite <- app_assoc. reflexivity.
Qed.

Lemma block_bytes_length : forall lits dup, (1 <= length (block_bytes lits dup))%nat.
Proof. intros lits dup. unfold block_bytes. cbv zeta. cbn [length]. lia. Qed.

(** ** The two loops together *)

Lemma complete_ok : forall fuel pre rest d out_rev,
  DI d pre rest ->
  (length rest < fuel)%nat ->
  exists stream,
    complete fuel (N.of_nat (length pre)) rest d out_rev = Some (rev stream ++ out_rev)
    /\ forall dfuel, (length stream <= dfuel)%nat ->
         dec_loop dfuel stream (rev pre) = DOk (rev (pre ++ rest)).
Proof.
  induction fuel as [|fuel IHfuel]; intros pre rest d out_rev HDI Hfuel; [lia|].
  cbn [complete].
  pose proof (pop_block_ok rest pre d 0 HDI) as Hpop.
  destruct (pop_block (N.of_nat (length pre)) rest d 0)
    as [lit'|lit' off ext cur' rest' d'].
  - (* last block *)
    replace lit' with (N.of_nat (length rest)) by lia.
    exists (block_bytes rest None). split.
    + rewrite <- (app_nil_r rest) at 2. rewrite emit_block_ok. reflexivity.
    + intros dfuel Hd. pose proof (block_bytes_length rest None) as Hbl.
      destruct dfuel as [|dfuel]; [lia|].
      rewrite dec_loop_last, rev_app_distr. reflexivity.
  - (* block with a duplicate *)
    destruct Hpop as (lits & r2 & Hrest & Hlit & Hm & Hcur & Hrest' & HDI').
    replace lit' with (N.of_nat (length lits)) by lia.
    assert (Hlen : (mlen ext <= length r2)%nat).
    { destruct Hm as (p & w & _ & _ & _ & _ & Hl & _). exact Hl. }
    assert (Hfuel' : (length rest' < fuel)%nat).
    { subst rest' rest. rewrite skipn_length. rewrite app_length in Hfuel.
      unfold mlen in *. lia. }
    subst cur'.
    destruct (IHfuel _ _ _ (emit_block (N.of_nat (length lits)) rest (Some (off, ext)) out_rev)
                HDI' Hfuel') as (stream' & Henc & Hdec).
    exists (block_bytes lits (Some (off, ext)) ++ stream'). split.
    + rewrite Henc. rewrite Hrest at 1. rewrite emit_block_ok.
      rewrite rev_app_distr, <- app_assoc. reflexivity.
    + intros dfuel Hd. pose proof (block_bytes_length lits (Some (off, ext))) as Hbl.
      rewrite app_length in Hd.
      destruct dfuel as [|dfuel]; [lia|].
      rewrite (dec_loop_dup _ _ _ _ _ _ _ Hm).
      rewrite Hdec by lia.
      subst rest' rest. rewrite <- !app_assoc. rewrite firstn_skipn. reflexivity.
Qed.

(** ** Main theorems *)

Theorem compress_fuel_sufficient : forall bs : list N,
  compress_fuel (S (fuel_of bs)) bs <> None.
Proof.
  intro bs. unfold compress_fuel. rewrite fuel_of_length.
  destruct (complete_ok (S (length bs)) [] bs empty_dict [] (DI_empty bs) ltac:(lia))
    as (stream & Henc & _).
  cbn [length] in Henc. change (N.of_nat 0) with 0 in Henc.
  rewrite Henc. discriminate.
Qed.

Theorem lz4_roundtrip : forall bs : list N, decompress (compress bs) = inr bs.
Proof.
  intro bs. unfold compress, compress_fuel. rewrite fuel_of_length.
  destruct (complete_ok (S (length bs)) [] bs empty_dict [] (DI_empty bs) ltac:(lia))
    as (stream & Henc & Hdec).
  cbn [length] in Henc. change (N.of_nat 0) with 0 in Henc.
  rewrite Henc. rewrite app_nil_r, rev_append_nil, rev_involutive.
  unfold decompress. rewrite fuel_of_length.
  cbn [rev app] in Hdec. rewrite (Hdec (length stream) (le_n _)).
  rewrite rev_append_nil, rev_involutive. reflexivity.
Qed.

(** ** The decoder never runs out of fuel (for every input, well formed or not) *)

Lemma read_integer_length : forall input n m input',
  read_integer input n = Some (m, input') -> (length input' < length input)%nat.
Proof.
  induction input as [|x input IHinput]; intros n m input' Hr.
  - discriminate.
  - cbn [read_integer] in Hr. cbn [length]. destruct (x =? 255).
    + apply IHinput in Hr. lia.
    + injection Hr as _ Hi. subst input'. lia.
Qed.

Lemma take_rev_length : forall l n acc acc' l',
  take_rev n l acc = Some (acc', l') -> (length l' <= length l)%nat.
Proof.
  induction l as [|x l IHl]; intros n acc acc' l' Ht; cbn [take_rev] in Ht.
  - destruct (n =? 0); [|discriminate]. injection Ht as _ Hl. subst l'. lia.
  - destruct (n =? 0).
    + injection Ht as _ Hl. subst l'. lia.
    + apply IHl in Ht. cbn [length]. lia.
Qed.

Lemma read_literal_section_length : forall token input out_rev input1 out1,
  read_literal_section token input out_rev = inr (input1, out1) ->
  (length input1 <= length input)%nat.
Proof.
  intros token input out_rev input1 out1 Hr. unfold read_literal_section in Hr.
  cbv zeta in Hr.
  destruct (token / 16 =? 15).
  - destruct (read_integer input 0) as [[n input']|] eqn:Hri; [|discriminate].
    apply read_integer_length in Hri.
    destruct (take_rev (token / 16 + n) input' out_rev) as [[o i2]|] eqn:Ht; [|discriminate].
    apply take_rev_length in Ht. injection Hr as Hi _. subst i2. lia.
  - destruct (take_rev (token / 16) input out_rev) as [[o i2]|] eqn:Ht; [|discriminate].
    apply take_rev_length in Ht. injection Hr as Hi _. subst i2. lia.
Qed.

Lemma read_duplicate_section_length : forall token input out_rev input2 out2,
  read_duplicate_section token input out_rev = inr (input2, out2) ->
  (length input2 <= length input)%nat.
Proof.
  intros token input out_rev input2 out2 Hr. unfold read_duplicate_section in Hr.
  cbv zeta in Hr.
  destruct input as [|lo [|hi input1]]; try discriminate.
  destruct (4 + token mod 16 =? 19).
  - destruct (read_integer input1 0) as [[n input']|] eqn:Hri; [|discriminate].
    apply read_integer_length in Hri.
    destruct (lo + 256 * hi =? 0); [discriminate|].
    destruct (take_rev (lo + 256 * hi) out_rev []) as [[w o]|]; [|discriminate].
    injection Hr as Hi _. subst input2. cbn [length]. lia.
  - destruct (lo + 256 * hi =? 0); [discriminate|].
    destruct (take_rev (lo + 256 * hi) out_rev []) as [[w o]|]; [|discriminate].
    injection Hr as Hi _. subst input2. cbn [length]. lia.
Qed.

Lemma dec_loop_fuel : forall fuel input out_rev,
  (length input <= fuel)%nat -> dec_loop fuel input out_rev <> DFuel.
Proof.
  induction fuel as [|fuel IHfuel]; intros input out_rev Hlen.
  - destruct input as [|t input]; [discriminate|cbn [length] in Hlen; lia].
  - destruct input as [|t input]; [discriminate|]. cbn [dec_loop]. cbn [length] in Hlen.
    destruct (read_literal_section t input out_rev) as [e|[input1 out1]] eqn:Hlit;
      [discriminate|].
    apply read_literal_section_length in Hlit.
    destruct input1 as [|x input1]; [discriminate|].
    destruct (read_duplicate_section t (x :: input1) out1) as [e|[input2 out2]] eqn:Hdup;
      [discriminate|].
    apply read_duplicate_section_length in Hdup.
    apply IHfuel. lia.
Qed.

Theorem decompress_fuel_sufficient : forall input : list N,
  dec_loop (fuel_of input) input [] <> DFuel.
Proof. intro input. apply dec_loop_fuel. rewrite fuel_of_length. apply le_n. Qed.

(** ** Reference semantics of the list primitives (fidelity of the fast versions)

    These lemmas are not used by the round trip; they state that the reversed
    accumulator / queue implementations compute what the crate's slice
    operations compute, including the failure cases. *)

(** [take_imp] + [extend_from_slice]: fails iff fewer than [n] bytes are left. *)
Lemma take_rev_spec : forall l n acc,
  take_rev n l acc =
    if Nat.leb (N.to_nat n) (length l)
    then Some (rev (firstn (N.to_nat n) l) ++ acc, skipn (N.to_nat n) l)
    else None.
Proof.
  induction l as [|x l IHl]; intros n acc; cbn [take_rev].
  - destruct (N.eqb_spec n 0) as [Hz|Hz].
    + subst n. reflexivity.
    + destruct (Nat.leb_spec (N.to_nat n) (length (@nil N))) as [Hle|Hgt];
        [cbn [length] in Hle; lia|reflexivity].
  - destruct (N.eqb_spec n 0) as [Hz|Hz].
    + subst n. reflexivity.
    + rewrite IHl.
      replace (N.to_nat n) with (S (N.to_nat (N.pred n))) by lia.
      cbn [length firstn skipn rev Nat.leb]. rewrite <- app_assoc. reflexivity.
Qed.

(** The crate's [duplicate], literally, on a forward output:
    [for i in start..start+match_length { let b = output[i]; output.push(b) }]
    ([ml] iterations starting at index [i]). *)
Fixpoint duplicate_ref (ml : nat) (out : list N) (i : nat) : list N :=
  match ml with
  | O => out
  | S ml' => duplicate_ref ml' (out ++ [nth i out 0]) (S i)
  end.

Lemma skipn_cons_nth : forall (l : list N) i x t,
  skipn i l = x :: t -> nth i l 0 = x /\ skipn (S i) l = t.
Proof.
  induction l as [|y l IHl]; intros i x t Hs.
  - destruct i; discriminate.
  - destruct i as [|i].
    + cbn [skipn] in Hs. injection Hs as Hy Ht. subst. split; reflexivity.
    + cbn [skipn] in Hs. apply IHl in Hs. exact Hs.
Qed.

Lemma dup_iter_ref : forall (n : N) front back out i,
  front ++ rev back = skipn i out ->
  (i < length out)%nat ->
  exists f' b',
    N.iter n dup_step (front, back, rev out)
      = (f', b', rev (duplicate_ref (N.to_nat n) out i)).
Proof.
  induction n as [|n IHn] using N.peano_ind; intros front back out i Hq Hi.
  - exists front, back. reflexivity.
  - rewrite N2Nat.inj_succ, N.iter_succ_r. cbn [duplicate_ref].
    destruct (skipn i out) as [|q0 q'] eqn:Hsk.
    { apply (f_equal (@length N)) in Hsk. rewrite skipn_length in Hsk.
      cbn [length] in Hsk. lia. }
    destruct (skipn_cons_nth _ _ _ _ Hsk) as [Hnth Hsk'].
    rewrite Hnth.
    assert (Hstep : exists f1 b1,
               dup_step (front, back, rev out) = (f1, b1, q0 :: rev out) /\
               f1 ++ rev b1 = q' ++ [q0]).
    { destruct front as [|b f'].
      - cbn [app] in Hq. cbn [dup_step]. rewrite rev_append_nil, Hq.
        exists q', [q0]. split; reflexivity.
      - cbn [app] in Hq. injection Hq as Hb Hq. subst b.
        exists f', (q0 :: back). cbn [dup_step rev]. split; [reflexivity|].
        rewrite app_assoc, Hq. reflexivity. }
    destruct Hstep as (f1 & b1 & Hst & Hq1).
    rewrite Hst.
    replace (q0 :: rev out) with (rev (out ++ [q0]))
      by (rewrite rev_app_distr; reflexivity).
    apply IHn.
    + rewrite Hq1. rewrite skipn_app.
      replace (S i - length out)%nat with O by lia.
      rewrite Hsk'. reflexivity.
    + rewrite app_length. cbn [length]. lia.
Qed.

(** [read_duplicate_section] computes the window with [take_rev offset out_rev []];
    for [1 <= offset <= output.len()] the fast copy is the crate's loop started
    at [start = output.len() - offset]. *)
Theorem duplicate_is_ref : forall (out : list N) (offset ml : N),
  offset <> 0 ->
  (N.to_nat offset <= length out)%nat ->
  exists window rest,
    take_rev offset (rev out) [] = Some (window, rest) /\
    duplicate window ml (rev out)
      = rev (duplicate_ref (N.to_nat ml) out (length out - N.to_nat offset)).
Proof.
  intros out offset ml Hnz Hle.
  rewrite take_rev_spec. rewrite rev_length.
  destruct (Nat.leb_spec (N.to_nat offset) (length out)) as [_|Hgt]; [|lia].
  eexists. eexists. split; [reflexivity|].
  rewrite app_nil_r.
  assert (Hw : rev (firstn (N.to_nat offset) (rev out))
               = skipn (length out - N.to_nat offset) out).
  { rewrite <- (firstn_skipn (length out - N.to_nat offset) out) at 1.
    rewrite rev_app_distr.
    rewrite firstn_app.
    replace (N.to_nat offset - length (rev (skipn (length out - N.to_nat offset) out)))%nat
      with O by (rewrite rev_length, skipn_length; lia).
    cbn [firstn]. rewrite app_nil_r.
    rewrite firstn_all2 by (rewrite rev_length, skipn_length; lia).
    apply rev_involutive. }
  rewrite Hw. unfold duplicate.
  destruct (dup_iter_ref ml (skipn (length out - N.to_nat offset) out) [] out
              (length out - N.to_nat offset)) as (f' & b' & Hit).
  - cbn [rev]. apply app_nil_r.
  - lia.
  - rewrite Hit. reflexivity.
Qed.

(** The bound check of [read_duplicate_section]:
    [InvalidDeduplicationOffset] iff [offset = 0] or [offset > output.len()]. *)
Lemma take_rev_window_none : forall (out_rev : list N) (offset : N),
  take_rev offset out_rev [] = None <-> (length out_rev < N.to_nat offset)%nat.
Proof.
  intros out_rev offset. rewrite take_rev_spec.
  destruct (Nat.leb_spec (N.to_nat offset) (length out_rev)) as [Hle|Hgt].
  - split; [discriminate|lia].
  - split; [intros _; exact Hgt|reflexivity].
Qed.

(** ** The compressed stream consists of bytes *)

Definition is_byte (b : N) : Prop := b < 256.

Lemma push_n_Forall : forall (P : N -> Prop) l n acc,
  Forall P l -> Forall P acc -> Forall P (push_n n l acc).
Proof.
  induction l as [|x l IHl]; intros n acc Hl Hacc; cbn [push_n].
  - destruct (n =? 0); exact Hacc.
  - destruct (n =? 0); [exact Hacc|].
    inversion Hl as [|x' l' Hx Hl']; subst.
    apply IHl; [exact Hl'|constructor; assumption].
Qed.

Lemma lsic_Forall : forall n, Forall is_byte (lsic n).
Proof.
  intro n. unfold lsic.
  assert (Hlt : n mod 255 < 255) by (apply N.mod_lt; lia).
  induction (n / 255) as [|q IHq] using N.peano_ind.
  - cbn [N.iter]. constructor; [unfold is_byte; lia|constructor].
  - rewrite N.iter_succ. constructor; [unfold is_byte; lia|exact IHq].
Qed.

Lemma write_integer_Forall : forall n acc,
  Forall is_byte acc -> Forall is_byte (write_integer n acc).
Proof.
  intros n acc Hacc. unfold write_integer. rewrite rev_append_rev.
  apply Forall_app. split; [apply Forall_rev; apply lsic_Forall|exact Hacc].
Qed.

Lemma emit_block_Forall : forall lit start dup out_rev,
  Forall is_byte start -> Forall is_byte out_rev ->
  Forall is_byte (emit_block lit start dup out_rev).
Proof.
  intros lit start dup out_rev Hstart Hout. unfold emit_block. cbv zeta.
  assert (Htok : forall e, is_byte (16 * nibble lit + nibble e)).
  { intro e. pose proof (nibble_lt lit). pose proof (nibble_lt e). unfold is_byte. lia. }
  assert (H3 : forall e, Forall is_byte
            (push_n lit start
               (if 15 <=? lit
                then write_integer (lit - 15) (16 * nibble lit + nibble e :: out_rev)
                else 16 * nibble lit + nibble e :: out_rev))).
  { intro e. apply push_n_Forall; [exact Hstart|].
    destruct (15 <=? lit).
    - apply write_integer_Forall. constructor; [apply Htok|exact Hout].
    - constructor; [apply Htok|exact Hout]. }
  destruct dup as [[off ext]|]; [|apply H3].
  assert (H4 : Forall is_byte
            ((off / 256) mod 256 :: off mod 256 ::
             push_n lit start
               (if 15 <=? lit
                then write_integer (lit - 15) (16 * nibble lit + nibble ext :: out_rev)
                else 16 * nibble lit + nibble ext :: out_rev))).
  { constructor; [unfold is_byte; apply N.mod_lt; lia|].
    constructor; [unfold is_byte; apply N.mod_lt; lia|apply H3]. }
  destruct (15 <=? ext); [apply write_integer_Forall|]; exact H4.
Qed.

Lemma go_forward_Forall : forall (P : N -> Prop) rest steps cur d,
  Forall P rest ->
  Forall P (snd (fst (go_forward steps cur rest d))).
Proof.
  induction rest as [|x rest IHrest]; intros steps cur d Hrest; cbn [go_forward].
  - destruct (steps =? 0); exact Hrest.
  - destruct (steps =? 0); [exact Hrest|].
    inversion Hrest as [|x' l' Hx Hrest']; subst. apply IHrest. exact Hrest'.
Qed.

Lemma pop_block_Forall : forall (P : N -> Prop) rest cur d lit,
  Forall P rest ->
  match pop_block cur rest d lit with
  | BLast _ => True
  | BDup _ _ _ _ rest' _ => Forall P rest'
  end.
Proof.
  induction rest as [|x rest IHrest]; intros cur d lit Hrest.
  - cbn [pop_block cur_slot find_at]. exact I.
  - cbn [pop_block]. cbv zeta.
    destruct (find_at (cur_slot (x :: rest)) cur (x :: rest) d) as [[off ext]|].
    + pose proof (go_forward_Forall P (x :: rest) (ext + 4) cur d Hrest) as Hgo.
      destruct (go_forward (ext + 4) cur (x :: rest) d) as [[cur' rest'] d'].
      exact Hgo.
    + inversion Hrest as [|x' l' Hx Hrest']; subst. apply IHrest. exact Hrest'.
Qed.

Lemma complete_Forall : forall fuel cur rest d out_rev out,
  Forall is_byte rest -> Forall is_byte out_rev ->
  complete fuel cur rest d out_rev = Some out ->
  Forall is_byte out.
Proof.
  induction fuel as [|fuel IHfuel]; intros cur rest d out_rev out Hrest Hout Hc;
    cbn [complete] in Hc; [discriminate|].
  pose proof (pop_block_Forall is_byte rest cur d 0 Hrest) as Hpop.
  destruct (pop_block cur rest d 0) as [lit|lit off ext cur' rest' d'].
  - replace out with (emit_block lit rest None out_rev) by congruence.
    apply emit_block_Forall; assumption.
  - apply (IHfuel _ _ _ _ _ Hpop (emit_block_Forall _ _ _ _ Hrest Hout) Hc).
Qed.

Theorem compress_bytes : forall bs : list N,
  Forall is_byte bs -> Forall is_byte (compress bs).
Proof.
  intros bs Hbs. unfold compress, compress_fuel.
  destruct (complete (S (fuel_of bs)) 0 bs empty_dict []) as [out_rev|] eqn:Hc;
    [|constructor].
  rewrite rev_append_nil. apply Forall_rev.
  apply (complete_Forall _ _ _ _ _ _ Hbs (Forall_nil _) Hc).
Qed.

Corollary lz4_roundtrip_ok : forall bs : list N, decompress_ok (compress bs) = Some bs.
Proof. intro bs. unfold decompress_ok. rewrite lz4_roundtrip. reflexivity. Qed.

Print Assumptions lz4_roundtrip.
