(* ------------------------------------------------------------------------- *)
(*  BS.Codec.CodecTypes                                                      *)
(*                                                                           *)
(*  Enumerations shared by the GENERATED layout tables (coq/gen/MeshLayout,  *)
(*  ImageLayout, ProtoLayout: regenerated from /repo/src on every run) and   *)
(*  the hand-written codec models (MeshCodec, ImageCodec, ProtoCodec).       *)
(*  A constructor here is a NAME of the Rust source: [F_positions] is the    *)
(*  field `positions` of `struct MeshData`, [A_POSITION] is the constant     *)
(*  `Mesh::ATTRIBUTE_POSITION`, [K_EntitySpawn] is the variant               *)
(*  `Message::EntitySpawn`, ...  The translator writes these names; a name   *)
(*  it does not know makes it fail closed.                                   *)
(*  Definitions only (model file: extracted).                                *)
(* ------------------------------------------------------------------------- *)

From Coq Require Import List NArith Bool.
Import ListNotations.
Local Open Scope N_scope.

(* ---- generic helpers ---------------------------------------------------- *)

(* association list lookup, first match *)
Fixpoint assoc {K V} (eqb : K -> K -> bool) (k : K) (l : list (K * V)) : option V :=
  match l with
  | [] => None
  | (k', v) :: r => if eqb k k' then Some v else assoc eqb k r
  end.

(* [map], tail recursive (the extracted model runs on lists of 10^5..10^6 items) *)
Fixpoint rev_map_acc {A B} (f : A -> B) (l : list A) (acc : list B) : list B :=
  match l with
  | [] => acc
  | x :: r => rev_map_acc f r (f x :: acc)
  end.
Definition tmap {A B} (f : A -> B) (l : list A) : list B := rev_append (rev_map_acc f l []) [].

(* [mapM] for option, tail recursive: [None] as soon as one item fails *)
Fixpoint all_some_acc {A B} (f : A -> option B) (l : list A) (acc : list B) : option (list B) :=
  match l with
  | [] => Some (rev_append acc [])
  | x :: r => match f x with Some y => all_some_acc f r (y :: acc) | None => None end
  end.
Definition all_some {A B} (f : A -> option B) (l : list A) : option (list B) := all_some_acc f l [].

(* option bind *)
Definition obind {A B} (o : option A) (k : A -> option B) : option B :=
  match o with Some x => k x | None => None end.
Notation "x <- o ;; k" := (obind o (fun x => k)) (at level 61, o at next level, right associativity).

(* the last [Some] of a list, [None] if there is none: "the last insertion wins" *)
Definition last_some {A} (l : list (option A)) : option A :=
  fold_left (fun acc o => match o with Some x => Some x | None => acc end) l None.

Fixpoint list_eqb {A} (eqb : A -> A -> bool) (a b : list A) : bool :=
  match a, b with
  | [], [] => true
  | x :: a', y :: b' => eqb x y && list_eqb eqb a' b'
  | _, _ => false
  end.

Definition bytes_eqb : list N -> list N -> bool := list_eqb N.eqb.

(* ---- meshes --------------------------------------------------------------- *)

(* bevy_render::render_resource::PrimitiveTopology *)
Inductive topology := PointList | LineList | LineStrip | TriangleList | TriangleStrip.

Definition topology_idx (t : topology) : N :=
  match t with PointList => 0 | LineList => 1 | LineStrip => 2 | TriangleList => 3 | TriangleStrip => 4 end.
Definition topology_eqb (a b : topology) : bool := topology_idx a =? topology_idx b.
Definition all_topologies : list topology := [PointList; LineList; LineStrip; TriangleList; TriangleStrip].

(* the eight `Mesh::ATTRIBUTE_*` constants bevy_sync transports *)
Inductive mattr :=
| A_POSITION | A_NORMAL | A_UV_0 | A_UV_1 | A_TANGENT | A_COLOR | A_JOINT_WEIGHT | A_JOINT_INDEX.

Definition mattr_idx (a : mattr) : N :=
  match a with
  | A_POSITION => 0 | A_NORMAL => 1 | A_UV_0 => 2 | A_UV_1 => 3
  | A_TANGENT => 4 | A_COLOR => 5 | A_JOINT_WEIGHT => 6 | A_JOINT_INDEX => 7
  end.
Definition mattr_eqb (a b : mattr) : bool := mattr_idx a =? mattr_idx b.
Definition all_mattrs : list mattr :=
  [A_POSITION; A_NORMAL; A_UV_0; A_UV_1; A_TANGENT; A_COLOR; A_JOINT_WEIGHT; A_JOINT_INDEX].

(* fields of `struct MeshData` (mesh_serde.rs) *)
Inductive mfield :=
| F_mesh_type | F_positions | F_normals | F_uvs0 | F_uvs1 | F_tangents | F_colors
| F_joint_weights | F_joint_indices | F_indices32 | F_indices16 | F_morph_targets
| F_morph_target_names.

Definition mfield_idx (f : mfield) : N :=
  match f with
  | F_mesh_type => 0 | F_positions => 1 | F_normals => 2 | F_uvs0 => 3 | F_uvs1 => 4
  | F_tangents => 5 | F_colors => 6 | F_joint_weights => 7 | F_joint_indices => 8
  | F_indices32 => 9 | F_indices16 => 10 | F_morph_targets => 11 | F_morph_target_names => 12
  end.
Definition mfield_eqb (a b : mfield) : bool := mfield_idx a =? mfield_idx b.
Definition all_mfields : list mfield :=
  [F_mesh_type; F_positions; F_normals; F_uvs0; F_uvs1; F_tangents; F_colors; F_joint_weights;
   F_joint_indices; F_indices32; F_indices16; F_morph_targets; F_morph_target_names].

(* what part of a Bevy `Mesh` a MeshData field is read from (`mesh_to_bin`) / written to
   (`bin_to_mesh`) *)
Inductive msource :=
| SrcTopology               (* mesh.primitive_topology() / Mesh::new(topology, ..) *)
| SrcAttr (a : mattr)       (* mesh.attribute(Mesh::a) / mesh.insert_attribute(Mesh::a, ..) *)
| SrcIndices32              (* Some(Indices::U32(t)) = mesh.indices() / insert_indices(Indices::U32(..)) *)
| SrcIndices16              (* Some(Indices::U16(t)) = mesh.indices() / insert_indices(Indices::U16(..)) *)
| SrcMorph                  (* the weak morph-target image handle / set_morph_targets(Handle::Weak(..)) *)
| SrcNames.                 (* morph_target_names() / set_morph_target_names(..) *)

Definition msource_idx (s : msource) : N :=
  match s with
  | SrcTopology => 0 | SrcAttr a => 10 + mattr_idx a | SrcIndices32 => 1 | SrcIndices16 => 2
  | SrcMorph => 3 | SrcNames => 4
  end.
Definition msource_eqb (a b : msource) : bool := msource_idx a =? msource_idx b.

(* ---- images --------------------------------------------------------------- *)

(* wgpu TextureDimension *)
Inductive dimension := Dim1 | Dim2 | Dim3.
Definition dimension_idx (d : dimension) : N := match d with Dim1 => 0 | Dim2 => 1 | Dim3 => 2 end.
Definition dimension_eqb (a b : dimension) : bool := dimension_idx a =? dimension_idx b.
Definition all_dimensions : list dimension := [Dim1; Dim2; Dim3].

(* fields of `struct ImageData` (image_serde.rs) *)
Inductive ifield := I_width | I_height | I_depth_or_array_layers | I_dimensions | I_format | I_data.
Definition ifield_idx (f : ifield) : N :=
  match f with
  | I_width => 0 | I_height => 1 | I_depth_or_array_layers => 2 | I_dimensions => 3
  | I_format => 4 | I_data => 5
  end.
Definition ifield_eqb (a b : ifield) : bool := ifield_idx a =? ifield_idx b.
Definition all_ifields : list ifield :=
  [I_width; I_height; I_depth_or_array_layers; I_dimensions; I_format; I_data].

(* the parts of a Bevy `Image` bevy_sync transports *)
Inductive isource :=
| ISrcWidth | ISrcHeight | ISrcDepth   (* texture_descriptor.size.{width,height,depth_or_array_layers} *)
| ISrcDimension                        (* texture_descriptor.dimension, through the number tables *)
| ISrcFormat                           (* texture_descriptor.format *)
| ISrcData.                            (* data *)
Definition isource_idx (s : isource) : N :=
  match s with
  | ISrcWidth => 0 | ISrcHeight => 1 | ISrcDepth => 2 | ISrcDimension => 3 | ISrcFormat => 4
  | ISrcData => 5
  end.
Definition isource_eqb (a b : isource) : bool := isource_idx a =? isource_idx b.
Definition all_isources : list isource :=
  [ISrcWidth; ISrcHeight; ISrcDepth; ISrcDimension; ISrcFormat; ISrcData].

(* ---- protocol messages -------------------------------------------------------- *)

(* variants of `enum Message` (proto.rs) *)
Inductive mvariant :=
| K_EntitySpawn | K_EntityParented | K_EntityDelete | K_ComponentUpdated
| K_StandardMaterialUpdated | K_MeshUpdated | K_ImageUpdated | K_AudioUpdated
| K_PromoteToHost | K_NewHost | K_RequestInitialSync | K_FinishedInitialSync.

Definition mvariant_idx (k : mvariant) : N :=
  match k with
  | K_EntitySpawn => 0 | K_EntityParented => 1 | K_EntityDelete => 2 | K_ComponentUpdated => 3
  | K_StandardMaterialUpdated => 4 | K_MeshUpdated => 5 | K_ImageUpdated => 6
  | K_AudioUpdated => 7 | K_PromoteToHost => 8 | K_NewHost => 9 | K_RequestInitialSync => 10
  | K_FinishedInitialSync => 11
  end.
Definition mvariant_eqb (a b : mvariant) : bool := mvariant_idx a =? mvariant_idx b.
Definition all_mvariants : list mvariant :=
  [K_EntitySpawn; K_EntityParented; K_EntityDelete; K_ComponentUpdated; K_StandardMaterialUpdated;
   K_MeshUpdated; K_ImageUpdated; K_AudioUpdated; K_PromoteToHost; K_NewHost;
   K_RequestInitialSync; K_FinishedInitialSync].

(* field names used by the struct variants of `Message` *)
Inductive pfield :=
| P_id | P_entity_id | P_parent_id | P_name | P_data | P_material | P_url | P_params.
Definition pfield_idx (f : pfield) : N :=
  match f with
  | P_id => 0 | P_entity_id => 1 | P_parent_id => 2 | P_name => 3 | P_data => 4
  | P_material => 5 | P_url => 6 | P_params => 7
  end.
Definition pfield_eqb (a b : pfield) : bool := pfield_idx a =? pfield_idx b.

(* fields of `SyncConnectionParameters::Socket` (lib.rs) *)
Inductive sfield := S_ip | S_port | S_web_port | S_max_transfer.
Definition sfield_idx (f : sfield) : N :=
  match f with S_ip => 0 | S_port => 1 | S_web_port => 2 | S_max_transfer => 3 end.
Definition sfield_eqb (a b : sfield) : bool := sfield_idx a =? sfield_idx b.

(* ---- outcomes of the decoders ---------------------------------------------------- *)

(* [Ok x]: the Rust function returns [x].  [Panic]: the Rust function panics (an `unwrap` on a
   failed lz4 decompression).  [Stuck]: the bincode value does not have the shape of its own
   schema -- a model-internal outcome that no execution reaches (the decoder only produces
   values of the schema: SchemaProofs.dec_wt). *)
Inductive outcome (A : Type) := Ok (x : A) | Panic | Stuck.
Arguments Ok {A} x.
Arguments Panic {A}.
Arguments Stuck {A}.
