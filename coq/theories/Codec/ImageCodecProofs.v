(* ------------------------------------------------------------------------- *)
(*  BS.Codec.ImageCodecProofs                                                *)
(*                                                                           *)
(*  C13: `bin_to_image (image_to_bin i) = Some i` for every image, over the  *)
(*  model of ImageCodec.v, i.e. over the tables generated from               *)
(*  image_serde.rs; and the format-name table generated from the real        *)
(*  serializer is duplicate free.  Side conditions on generated tables are   *)
(*  discharged by computation (re-checked against the source on every run):  *)
(*  [dim_tables_inverse], [ilayout_wf], [ilayout_typed],                     *)
(*  [image_decode_inverts_encode], [format_names_nodup].                     *)
(* ------------------------------------------------------------------------- *)

From Coq Require Import List NArith Bool Lia.
From BS Require Import Codec.Schema Codec.SchemaProofs Codec.Lz4 Codec.Lz4Proofs
  Codec.CodecTypes Codec.CodecLemmas Codec.ImageCodec.
From BSGen Require Import ImageLayout FormatNames.
Import ListNotations.
Local Open Scope N_scope.

Lemma ifield_eqb_eq a b : ifield_eqb a b = true <-> a = b.
Proof.
  apply (idx_eqb_eq ifield_idx). clear. intros a b; destruct a, b; cbn; intro H;
    try reflexivity; discriminate H.
Qed.

(* ---------------------------------------------------------------------- *)
(*  The environment of a decoded ImageData                                 *)
(* ---------------------------------------------------------------------- *)

Definition ienv_of (i : image) : ienv :=
  combine (map fst imagedata_fields) (map (fun ft => ifield_val i (fst ft)) imagedata_fields).

Lemma arg_env i s f :
  assoc isource_eqb s image_dec_targets = Some f -> In f (map fst imagedata_fields) ->
  arg_val (ienv_of i) s = Some (ifield_val i f).
Proof.
  intros T I. unfold arg_val. rewrite T.
  apply (assoc_combine_map ifield_eqb ifield_eqb_eq). exact I.
Qed.

(* ---------------------------------------------------------------------- *)
(*  Side conditions on the generated tables                                *)
(* ---------------------------------------------------------------------- *)

(* the decoder's dimension table inverts the encoder's on Dim1, Dim2, Dim3, and every number the
   encoder writes fits the u8 field *)
Lemma dim_tables_inverse : forall d, num_to_dim (dim_to_num d) = d /\ dim_to_num d < 256.
Proof. destruct d; vm_compute; split; reflexivity. Qed.

Lemma ilayout_wf : wf_ty ImageData_ty = true.
Proof. vm_compute. reflexivity. Qed.

Ltac in_fields := vm_compute; repeat (first [left; reflexivity | right]).
Ltac table := vm_compute; reflexivity.
Ltac eval_sources :=
  repeat match goal with |- context [ifield_source ?f] =>
    let s := eval vm_compute in (ifield_source f) in change (ifield_source f) with s
  end; cbv iota beta.

(* every argument of Image::new is taken from the field the same part of the image went into *)
Lemma image_decode_inverts_encode i : image_of_env (ienv_of i) = Some i.
Proof.
  unfold image_of_env, arg_int.
  erewrite (arg_env i ISrcWidth); [| table | in_fields].
  erewrite (arg_env i ISrcHeight); [| table | in_fields].
  erewrite (arg_env i ISrcDepth); [| table | in_fields].
  erewrite (arg_env i ISrcDimension); [| table | in_fields].
  erewrite (arg_env i ISrcFormat); [| table | in_fields].
  erewrite (arg_env i ISrcData); [| table | in_fields].
  unfold ifield_val. eval_sources.
  unfold bytes_of_seq. rewrite tmap_eq, byte_seq_back.
  rewrite (proj1 (dim_tables_inverse (dim i))). destruct i; reflexivity.
Qed.

Lemma image_of_data_of i : image_of_data (image_data_of i) = Some i.
Proof. exact (image_decode_inverts_encode i). Qed.

Lemma wt_u32 x : x < 2 ^ 32 -> wt (TInt 4) (VInt x) = true.
Proof. intro H. cbn [wt]. unfold fits. apply N.ltb_lt. exact H. Qed.

Lemma wt_dim d : wt (TInt 1) (VInt (dim_to_num d)) = true.
Proof. cbn [wt]. unfold fits. apply N.ltb_lt. exact (proj2 (dim_tables_inverse d)). Qed.

(* every field of ImageData has the wire type of the part of the image it is initialised from *)
Lemma ilayout_typed i : wf_image i -> wt ImageData_ty (image_data_of i) = true.
Proof.
  intros (HW & HH & HD & HFL & HF & HDL & HDB). unfold ImageData_ty, image_data_of. cbn [wt].
  apply wt_fields_map. unfold imagedata_fields.
  repeat (apply Forall_cons || apply Forall_nil); cbn [fst snd]; unfold ifield_val; eval_sources;
    first [ apply wt_u32; assumption
          | apply wt_dim
          | apply wt_bytes_lt; assumption
          | apply wt_byte_seq; assumption ].
Qed.

(* ---------------------------------------------------------------------- *)
(*  C13                                                                    *)
(* ---------------------------------------------------------------------- *)

(* every image, of any size and any format name: encoding succeeds, decoding returns it *)
Theorem C13_image_lossless : forall i, wf_image i ->
  exists bs, image_to_bin i = Some bs /\ bin_to_image bs = Ok (Some i).
Proof.
  intros i W.
  destruct (enc_wt _ _ ilayout_wf (ilayout_typed i W)) as [b E].
  exists (compress b). unfold image_to_bin, bin_to_image. rewrite E. split; [reflexivity|].
  rewrite lz4_roundtrip.
  pose proof (dec_enc _ _ _ [] ilayout_wf E) as D. rewrite app_nil_r in D. rewrite D.
  rewrite image_of_data_of. reflexivity.
Qed.

Theorem image_to_bin_fast_eq : forall i, image_to_bin_fast i = image_to_bin i.
Proof. intro i. unfold image_to_bin_fast, image_to_bin. rewrite enc_fast_eq. reflexivity. Qed.

Theorem bin_to_image_fast_eq : forall bs, bin_to_image_fast bs = bin_to_image bs.
Proof.
  intro bs. unfold bin_to_image_fast, bin_to_image. destruct (decompress bs); [reflexivity|].
  rewrite dec_fast_eq. reflexivity.
Qed.

(* ---------------------------------------------------------------------- *)
(*  The decoder never gets stuck                                           *)
(* ---------------------------------------------------------------------- *)

Lemma byte_seq_total w y : wt (TSeq (TInt w)) y = true -> exists r, bytes_of_seq y = Some r.
Proof. destruct y; try discriminate. exact (int_seq_total w l). Qed.

Lemma image_of_data_total v : wt ImageData_ty v = true -> exists i, image_of_data v = Some i.
Proof.
  unfold ImageData_ty. intro W. apply wt_tuple_inv in W. destruct W as (vs & -> & W).
  cbn [image_of_data]. set (e := combine (map fst imagedata_fields) vs).
  pose proof (env_typed_gen ifield_eqb imagedata_fields vs W) as T. fold e in T.
  assert (AI : forall s f w, assoc isource_eqb s image_dec_targets = Some f ->
               assoc ifield_eqb f imagedata_fields = Some (TInt w) -> exists n, arg_int e s = Some n).
  { intros s f w A F. unfold arg_int, arg_val. rewrite A.
    destruct (T _ _ F) as (x & -> & Wx). apply wt_int_inv in Wx. destruct Wx as [n ->]. eauto. }
  unfold image_of_env.
  edestruct (AI ISrcWidth) as [w0 ->]; [table|table|].
  edestruct (AI ISrcHeight) as [h0 ->]; [table|table|].
  edestruct (AI ISrcDepth) as [d0 ->]; [table|table|].
  edestruct (AI ISrcDimension) as [n0 ->]; [table|table|].
  unfold arg_val.
  let r := eval vm_compute in (assoc isource_eqb ISrcFormat image_dec_targets) in
    change (assoc isource_eqb ISrcFormat image_dec_targets) with r.
  let r := eval vm_compute in (assoc isource_eqb ISrcData image_dec_targets) in
    change (assoc isource_eqb ISrcData image_dec_targets) with r.
  cbv iota beta.
  edestruct T as (xf & -> & Wf); [table|]. apply wt_bytes_inv in Wf. destruct Wf as [fb ->].
  edestruct T as (xd & -> & Wd); [table|].
  destruct (byte_seq_total _ _ Wd) as [bs ->]. eauto.
Qed.

Theorem bin_to_image_never_stuck : forall bs, bin_to_image bs <> Stuck.
Proof.
  intro bs. unfold bin_to_image. destruct (decompress bs) as [e|raw]; [discriminate|].
  destruct (dec ImageData_ty raw) as [[v r]|] eqn:D; [|discriminate].
  destruct (image_of_data_total v (dec_wt _ _ _ _ D)) as [m ->]. discriminate.
Qed.

(* ---------------------------------------------------------------------- *)
(*  Format names (table generated from the real serializer)                *)
(* ---------------------------------------------------------------------- *)

Definition format_row := (list N * list N * bool * N)%type.
Definition debug_name (r : format_row) : list N := fst (fst (fst r)).
Definition wire_name (r : format_row) : list N := snd (fst (fst r)).
Definition is_uncompressed (r : format_row) : bool := snd (fst r).

Fixpoint nodupb (l : list (list N)) : bool :=
  match l with
  | [] => true
  | x :: r => negb (existsb (bytes_eqb x) r) && nodupb r
  end.

Lemma bytes_eqb_eq a : forall b, bytes_eqb a b = true <-> a = b.
Proof.
  unfold bytes_eqb. induction a as [|x a IH]; destruct b as [|y b]; cbn [list_eqb];
    try (split; [discriminate|discriminate]); [split; reflexivity|].
  rewrite andb_true_iff, N.eqb_eq, IH. split; [intros [-> ->]; reflexivity|].
  intro H; injection H as -> ->; split; reflexivity.
Qed.

Lemma nodupb_NoDup l : nodupb l = true -> NoDup l.
Proof.
  induction l as [|x l IH]; cbn [nodupb]; [constructor|].
  rewrite andb_true_iff, negb_true_iff. intros [E R]. constructor; [|auto].
  intro I. assert (X : existsb (bytes_eqb x) l = true).
  { apply existsb_exists. exists x. split; [exact I|]. apply bytes_eqb_eq; reflexivity. }
  rewrite X in E. discriminate.
Qed.

Lemma NoDup_map_injective {A B} (f : A -> B) l :
  NoDup (map f l) -> forall x y, In x l -> In y l -> f x = f y -> x = y.
Proof.
  induction l as [|a l IH]; cbn [map In]; [tauto|]. intro N.
  apply NoDup_cons_iff in N. destruct N as [NI N]. intros x y [<-|Hx] [<-|Hy] E; auto.
  - exfalso. apply NI. rewrite E. apply in_map, Hy.
  - exfalso. apply NI. rewrite <- E. apply in_map, Hx.
Qed.

Lemma format_names_nodup :
  NoDup (map wire_name format_table) /\ NoDup (map debug_name format_table).
Proof. split; apply nodupb_NoDup; vm_compute; reflexivity. Qed.

(* Finite statement: over the [format_count] rows of the table produced by the real serializer
   (one row per TextureFormat variant, Astc per block and channel), two formats with the same
   name on the wire are the same format. *)
Theorem format_names_injective : forall r1 r2,
  In r1 format_table -> In r2 format_table -> wire_name r1 = wire_name r2 -> r1 = r2.
Proof. exact (NoDup_map_injective wire_name format_table (proj1 format_names_nodup)). Qed.

Lemma format_table_size :
  N.of_nat (length format_table) = format_count
  /\ N.of_nat (length (filter is_uncompressed format_table)) = uncompressed_count.
Proof. vm_compute. split; reflexivity. Qed.

(* every name of the table is a byte string: every real format gives well-formed images *)
Lemma format_names_are_bytes :
  Forall (fun r => N.of_nat (length (wire_name r)) < 2 ^ 64 /\ Forall (fun x => x < 256) (wire_name r))
         format_table.
Proof.
  apply Forall_forall. intros r I.
  assert (X : forallb (fun r => (N.of_nat (length (wire_name r)) <? 2 ^ 64)
                                && forallb (fun x => x <? 256) (wire_name r)) format_table = true)
    by (vm_compute; reflexivity).
  rewrite forallb_forall in X. specialize (X r I). apply andb_true_iff in X. destruct X as [L B].
  split; [apply N.ltb_lt; exact L|].
  apply Forall_forall. intros x Hx. rewrite forallb_forall in B. apply N.ltb_lt, B, Hx.
Qed.

(* ---------------------------------------------------------------------- *)
(*  Source ties (statements repeated in Properties/C13.v)                  *)
(* ---------------------------------------------------------------------- *)

Lemma source_dimension_tables_inverse :
  forallb (fun p => dimension_eqb (num_to_dim (snd p)) (fst p)) dim_enc_table = true
  /\ forallb (fun p => dim_to_num (snd p) =? fst p) dim_dec_table = true
  /\ forallb (fun d => existsb (fun p => dimension_eqb (fst p) d) dim_enc_table) all_dimensions = true
  /\ map fst dim_dec_table = [1; 2; 3] /\ dim_dec_default = Dim2.
Proof. repeat split; reflexivity. Qed.

(* the wire layout of ImageData *)
Lemma source_image_layout :
  imagedata_fields =
  [(I_width, TInt 4); (I_height, TInt 4); (I_depth_or_array_layers, TInt 4); (I_dimensions, TInt 1);
   (I_format, TBytes); (I_data, TSeq (TInt 1))].
Proof. reflexivity. Qed.

(* every argument of `Image::new` is taken from the field that was initialised from the same
   part of the image, and all six parts are transported *)
Lemma source_image_wiring :
  Forall (fun p => ifield_source (snd p) = Some (fst p)) image_dec_targets
  /\ forallb (fun s => existsb (fun p => isource_eqb (fst p) s) image_dec_targets) all_isources = true.
Proof. split; [repeat constructor|reflexivity]. Qed.

(* ---------------------------------------------------------------------- *)
(*  Non-vacuity                                                            *)
(* ---------------------------------------------------------------------- *)

(* a 2x1x3 3-D image in the 23rd format of the table *)
Definition ex_image : image :=
  mkImage 2 1 3 Dim3 (wire_name (nth 22 format_table ([], [], false, 0)))
          [0; 255; 1; 254; 7; 7; 7; 7; 7; 7; 7; 7; 7; 7; 7; 7; 7; 7; 7; 7; 7; 7; 7; 9].

Example ex_image_wf : wf_image ex_image.
Proof. unfold wf_image. cbn. repeat split; try reflexivity; repeat constructor. Qed.

Example ex_image_roundtrip :
  match image_to_bin ex_image with Some bs => bin_to_image bs | None => Stuck end
  = Ok (Some ex_image).
Proof. vm_compute. reflexivity. Qed.

Example ex_image_empty :
  match image_to_bin (mkImage 0 0 0 Dim1 [] []) with Some bs => bin_to_image bs | None => Stuck end
  = Ok (Some (mkImage 0 0 0 Dim1 [] [])).
Proof. vm_compute. reflexivity. Qed.

Example ex_image_bincode_failure : bin_to_image (compress [1; 2; 3]) = Ok None.
Proof. vm_compute. reflexivity. Qed.

Example ex_image_decompress_failure : bin_to_image [0x10; 97; 2; 0] = Ok None.
Proof. vm_compute. reflexivity. Qed.

(* a downloaded byte string, whatever it is, never makes the decoder panic (since the repair 1d88107) *)
Theorem bin_to_image_never_panics : forall bs, bin_to_image bs <> Panic.
Proof.
  intros bs. unfold bin_to_image. destruct (decompress bs) as [e|raw]; [discriminate|].
  destruct (dec ImageData_ty raw) as [[v rest]|]; [|discriminate].
  destruct (image_of_data v); discriminate.
Qed.
Print Assumptions bin_to_image_never_panics.
