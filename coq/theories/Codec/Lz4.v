(** * Lz4: executable, byte-exact model of the Rust crate [lz4-compression] 0.7.0

    Source modelled: [lz4-compression-0.7.0/src/compress.rs] ([compress]) and
    [lz4-compression-0.7.0/src/decompress.rs] ([decompress]).

    This file contains the model only (definitions, no proofs).  The proofs
    (round trip for all inputs, fuel sufficiency, specification of the fast
    match copy) are in [Lz4Proofs.v].

    Conventions
    - a byte is an [N] (intended [< 256]); byte strings are [list N].  The model
      is byte-exact with the crate for inputs whose elements are [< 256].
    - [usize] values (cursor, lengths) are unbounded [N].  The crate uses 64 bit
      [usize] on the targets of interest and inputs are [< 2^32] bytes in
      practice, so no [usize] operation of the crate wraps, except the
      deliberate [wrapping_sub] of the decoder, which is modelled by its two
      outcomes (see [read_duplicate_section]).
    - the encoder walks the input as a suffix list: [rest = input[cur..]].
      The dictionary maps a slot to [(pos, input[pos..])], so that the batch
      comparison and the extension count work on suffixes, without random
      access.  An absent slot is the trap value [!0].
    - the encoder output and the decoder output are accumulated in reverse.
    - no [nat] arithmetic on data sizes: [nat] is used only as structural fuel.
*)

From Coq Require Import Bool List NArith Lia FMapPositive.
Import ListNotations.
Local Open Scope N_scope.

Inductive lz4_error := UnexpectedEnd | InvalidDeduplicationOffset.

(** ** Generic helpers (tail recursive, positions as [N]) *)

(** [length] as structural fuel, computed tail recursively (the extracted code
    must not overflow the stack on inputs of some 100 kB). *)
Definition fuel_of (l : list N) : nat := fold_left (fun n _ => S n) l O.

(** [take_rev n l acc]: move the first [n] elements of [l] onto [acc]
    (so they end up reversed); [None] if [l] has fewer than [n] elements.
    This is [take_imp] followed by [extend_from_slice] on a reversed output. *)
Fixpoint take_rev (n : N) (l acc : list N) {struct l} : option (list N * list N) :=
  if n =? 0 then Some (acc, l)
  else match l with
       | [] => None
       | b :: l' => take_rev (N.pred n) l' (b :: acc)
       end.

(** Total variant: pushes [min n (length l)] elements. *)
Fixpoint push_n (n : N) (l acc : list N) {struct l} : list N :=
  if n =? 0 then acc
  else match l with
       | [] => acc
       | b :: l' => push_n (N.pred n) l' (b :: acc)
       end.

(** ** LSIC integers *)

(** Forward byte sequence written by [write_integer n]:
    [while n >= 0xFF { n -= 0xFF; push(0xFF) }; push(n)]. *)
Definition lsic (n : N) : list N := N.iter (n / 255) (cons 255) [n mod 255].

(** [write_integer] on the reversed output. *)
Definition write_integer (n : N) (out_rev : list N) : list N :=
  rev_append (lsic n) out_rev.

(** [read_integer]: [n] is the running sum (the crate starts it at 0).
    [None] = [Err(UnexpectedEnd)]. *)
Fixpoint read_integer (input : list N) (n : N) {struct input} : option (N * list N) :=
  match input with
  | [] => None
  | extra :: input' =>
      if extra =? 255 then read_integer input' (n + extra)
      else Some (n + extra, input')
  end.

(** ** Encoder *)

Definition mask32 (x : N) : N := N.land x 0xFFFFFFFF.      (* u32 wrap *)

(** [get_batch]: native endian (x86: little endian) [u32] of four bytes. *)
Definition batch (b0 b1 b2 b3 : N) : N :=
  mask32 (b0 + 256 * b1 + 65536 * b2 + 16777216 * b3).

(** [get_cur_hash], as a function of the batch. Result [< 4096]. *)
Definition hash (bt : N) : N :=
  let x := mask32 (bt * 0xa4d94a4f) in
  let a := N.shiftr x 16 in
  let b := N.shiftr x 30 in
  let x := N.lxor x (N.shiftr a b) in
  let x := mask32 (x * 0xa4d94a4f) in
  N.land x 4095.                                            (* % DICTIONARY_SIZE *)

(** *** Fast evaluation of [hash (batch b0 b1 b2 b3)]

    With [N] as a binary datatype the two 32 bit multiplications of [hash]
    dominate the running time of the extracted encoder.  [hash_fast] computes
    the same value ([Lz4Proofs.hash_fast_eq], for all arguments):
    - first multiplication: [batch * K mod 2^32] is the sum, mod [2^32], of the
      four per-byte products [b_i * K * 2^(8 i) mod 2^32], read from four 256
      entry tables;
    - only the low 12 bits of the second product are used, and they depend only
      on the low 12 bits of its argument: one 4096 entry table.
    The tables are closed top-level constants (built once, at module
    initialisation in the extracted code).  If a table lookup fails (a "byte"
    [>= 256]), the literal definition is used. *)

Definition hash_mult : N := 0xa4d94a4f.

(** Table with [f i] at key [N.succ_pos i], for [i < n]. *)
Definition mk_table (f : N -> N) (n : N) : PositiveMap.t N :=
  snd (N.iter n (fun st : N * PositiveMap.t N =>
                   let (i, m) := st in (N.succ i, PositiveMap.add (N.succ_pos i) (f i) m))
              (0, PositiveMap.empty N)).

Definition table_get (t : PositiveMap.t N) (i : N) : option N :=
  PositiveMap.find (N.succ_pos i) t.

Definition mul_table0 : PositiveMap.t N := mk_table (fun b => mask32 (b * hash_mult)) 256.
Definition mul_table1 : PositiveMap.t N := mk_table (fun b => mask32 (256 * b * hash_mult)) 256.
Definition mul_table2 : PositiveMap.t N := mk_table (fun b => mask32 (65536 * b * hash_mult)) 256.
Definition mul_table3 : PositiveMap.t N := mk_table (fun b => mask32 (16777216 * b * hash_mult)) 256.
Definition mul_table12 : PositiveMap.t N := mk_table (fun v => N.land (v * hash_mult) 4095) 4096.

Definition hash_fast (b0 b1 b2 b3 : N) : N :=
  match table_get mul_table0 b0, table_get mul_table1 b1,
        table_get mul_table2 b2, table_get mul_table3 b3 with
  | Some t0, Some t1, Some t2, Some t3 =>
      let x := mask32 (t0 + t1 + t2 + t3) in
      let a := N.shiftr x 16 in
      let b := N.shiftr a 14 in
      let v := N.lxor (N.land x 4095) (N.land (N.shiftr a b) 4095) in
      match table_get mul_table12 v with
      | Some h => h
      | None => hash (batch b0 b1 b2 b3)          (* unreachable: v < 4096 *)
      end
  | _, _, _, _ => hash (batch b0 b1 b2 b3)        (* some b_i >= 256 *)
  end.

(** [get_cur_hash] for the batch [b0 b1 b2 b3], as a dictionary key.
    [hash_fast b0 b1 b2 b3 = hash (batch b0 b1 b2 b3)]. *)
Definition slot (b0 b1 b2 b3 : N) : positive := N.succ_pos (hash_fast b0 b1 b2 b3).

(** Dictionary: slot -> (position, suffix of the input at that position).
    Absent = trap value. *)
Definition dict := PositiveMap.t (N * list N).
Definition empty_dict : dict := PositiveMap.empty (N * list N).

(** [remaining_batch]: [cur + 4 < len], i.e. [rest] has at least 5 elements. *)
Definition remaining_batch (rest : list N) : bool :=
  match rest with
  | _ :: _ :: _ :: _ :: _ :: _ => true
  | _ => false
  end.

(** [get_cur_hash] when [remaining_batch] holds, [None] otherwise.  Both
    [find_duplicate] and [insert_cursor] evaluate [get_cur_hash] only under
    [remaining_batch]; [pop_block] below computes it once per position and
    passes it to both (the hash dominates the running time of the model). *)
Definition cur_slot (rest : list N) : option positive :=
  match rest with
  | b0 :: b1 :: b2 :: b3 :: _ :: _ => Some (slot b0 b1 b2 b3)
  | _ => None
  end.

(** [insert_cursor], given [cur_slot rest]. *)
Definition insert_at (s : option positive) (cur : N) (rest : list N) (d : dict) : dict :=
  match s with
  | Some k => PositiveMap.add k (cur, rest) d
  | None => d
  end.

Definition insert_cursor (cur : N) (rest : list N) (d : dict) : dict :=
  insert_at (cur_slot rest) cur rest d.

(** Number of leading positions at which [a] and [b] agree, added to [acc]
    ([zip .. take_while .. count]). *)
Fixpoint common_prefix (a b : list N) (acc : N) {struct a} : N :=
  match a, b with
  | x :: a', y :: b' => if x =? y then common_prefix a' b' (N.succ acc) else acc
  | _, _ => acc
  end.

(** [find_duplicate], given [cur_slot rest]: [Some (offset, extra_bytes)].
    The crate compares the two batches as [u32]; for bytes [< 256] this is the
    comparison of the four bytes, which is what the model does.
    The candidate suffix always has at least 5 elements (it was inserted under
    [remaining_batch]) and [rest] has at least 5 elements when [s] is [Some];
    the other shapes are unreachable. *)
Definition find_at (s : option positive) (cur : N) (rest : list N) (d : dict)
  : option (N * N) :=
  match s with
  | None => None                                   (* !remaining_batch *)
  | Some k =>
      match rest, PositiveMap.find k d with
      | b0 :: b1 :: b2 :: b3 :: tl, Some (candidate, c0 :: c1 :: c2 :: c3 :: ctl) =>
          if (c0 =? b0) && (c1 =? b1) && (c2 =? b2) && (c3 =? b3)
             && (cur - candidate <=? 0xFFFF)
          then Some (cur - candidate, common_prefix tl ctl 0)
          else None
      | _, _ => None                               (* trap value *)
      end
  end.

Definition find_duplicate (cur : N) (rest : list N) (d : dict) : option (N * N) :=
  find_at (cur_slot rest) cur rest d.

(** [go_forward steps], for [steps <= length rest] (the duplicate case of
    [pop_block]); every skipped position is inserted into the dictionary. *)
Fixpoint go_forward (steps : N) (cur : N) (rest : list N) (d : dict) {struct rest}
  : N * list N * dict :=
  if steps =? 0 then (cur, rest, d)
  else match rest with
       | [] => (cur, rest, d)          (* unreachable: steps <= length rest *)
       | _ :: rest' => go_forward (N.pred steps) (N.succ cur) rest' (insert_cursor cur rest d)
       end.

Inductive block_result :=
| BLast (lit_len : N)
| BDup (lit_len offset extra_bytes : N) (cur : N) (rest : list N) (d : dict).

(** [pop_block].  [go_forward(1)] returns [false] exactly when the cursor was
    already at the end ([rest = []]): then [cur] becomes [len + 1]. *)
Fixpoint pop_block (cur : N) (rest : list N) (d : dict) (lit : N) {struct rest}
  : block_result :=
  let s := cur_slot rest in
  match find_at s cur rest d with
  | Some (off, ext) =>
      let '(cur', rest', d') := go_forward (ext + 4) cur rest d in
      BDup lit off ext cur' rest' d'
  | None =>
      match rest with
      | [] => BLast lit
      | _ :: rest' => pop_block (N.succ cur) rest' (insert_at s cur rest d) (N.succ lit)
      end
  end.

Definition nibble (n : N) : N := if n <? 15 then n else 15.

(** The part of [complete] that writes one block; [start] is the input suffix
    at the start of the literals section. *)
Definition emit_block (lit : N) (start : list N) (dup : option (N * N)) (out_rev : list N)
  : list N :=
  let dup_extra_len := match dup with Some (_, ext) => ext | None => 0 end in
  let token := 16 * nibble lit + nibble dup_extra_len in
  let out1 := token :: out_rev in
  let out2 := if 15 <=? lit then write_integer (lit - 15) out1 else out1 in
  let out3 := push_n lit start out2 in
  match dup with
  | Some (offset, _) =>
      let out4 := (offset / 256) mod 256 :: offset mod 256 :: out3 in
      if 15 <=? dup_extra_len then write_integer (dup_extra_len - 15) out4 else out4
  | None => out3
  end.

(** [complete]; [None] = out of fuel (excluded by [compress_fuel_sufficient]). *)
Fixpoint complete (fuel : nat) (cur : N) (rest : list N) (d : dict) (out_rev : list N)
  {struct fuel} : option (list N) :=
  match fuel with
  | O => None
  | S fuel' =>
      match pop_block cur rest d 0 with
      | BLast lit => Some (emit_block lit rest None out_rev)
      | BDup lit off ext cur' rest' d' =>
          complete fuel' cur' rest' d' (emit_block lit rest (Some (off, ext)) out_rev)
      end
  end.

Definition compress_fuel (fuel : nat) (input : list N) : option (list N) :=
  match complete fuel 0 input empty_dict [] with
  | Some out_rev => Some (rev_append out_rev [])
  | None => None
  end.

(** [compress].  Fuel [length input + 1]: every block but the last consumes at
    least 4 input bytes.  The [None] branch is never taken
    ([Lz4Proofs.compress_fuel_sufficient]). *)
Definition compress (input : list N) : list N :=
  match compress_fuel (S (fuel_of input)) input with
  | Some out => out
  | None => []
  end.

(** ** Decoder *)

(** One iteration of the loop of [duplicate] ([let b = output[i]; push(b)]) on
    a reversed output.  The bytes [output[i..]] still to be read are kept in a
    functional queue [(front, back)] (content [front ++ rev back]): every byte
    pushed to the output is also pushed to the queue, which is what makes
    overlapping copies work. *)
Definition dup_step (st : list N * list N * list N) : list N * list N * list N :=
  let '(front, back, out_rev) := st in
  match front with
  | b :: front' => (front', b :: back, b :: out_rev)
  | [] =>
      match rev_append back [] with
      | b :: front' => (front', [b], b :: out_rev)
      | [] => st                         (* unreachable: the queue is never empty *)
      end
  end.

(** [duplicate(start, match_length)] where [window = output[start..]]. *)
Definition duplicate (window : list N) (match_length : N) (out_rev : list N) : list N :=
  let '(_, _, out_rev') := N.iter match_length dup_step (window, [], out_rev) in out_rev'.

(** [read_literal_section]; returns [(input, output)]. *)
Definition read_literal_section (token : N) (input out_rev : list N)
  : lz4_error + (list N * list N) :=
  let literal := token / 16 in
  let r := if literal =? 15
           then match read_integer input 0 with
                | Some (n, input') => Some (literal + n, input')
                | None => None
                end
           else Some (literal, input) in
  match r with
  | None => inl UnexpectedEnd
  | Some (literal, input1) =>
      match take_rev literal input1 out_rev with
      | Some (out_rev', input2) => inr (input2, out_rev')
      | None => inl UnexpectedEnd
      end
  end.

(** [read_duplicate_section]; returns [(input, output)].
    [start = output.len().wrapping_sub(offset); if start < output.len()]
    holds exactly when [1 <= offset <= output.len()]; the second inequality is
    "the reversed output has [offset] elements", checked by [take_rev], which
    at the same time extracts [output[start..]]. *)
Definition read_duplicate_section (token : N) (input out_rev : list N)
  : lz4_error + (list N * list N) :=
  match input with
  | lo :: hi :: input1 =>
      let offset := lo + 256 * hi in
      let match_length := 4 + token mod 16 in
      let r := if match_length =? 19
               then match read_integer input1 0 with
                    | Some (n, input') => Some (match_length + n, input')
                    | None => None
                    end
               else Some (match_length, input1) in
      match r with
      | None => inl UnexpectedEnd
      | Some (match_length, input2) =>
          if offset =? 0 then inl InvalidDeduplicationOffset
          else match take_rev offset out_rev [] with
               | None => inl InvalidDeduplicationOffset
               | Some (window, _) => inr (input2, duplicate window match_length out_rev)
               end
      end
  | _ => inl UnexpectedEnd
  end.

Inductive dec_result := DOk (out_rev : list N) | DErr (e : lz4_error) | DFuel.

(** [Decoder::complete]. One unit of fuel per block. *)
Fixpoint dec_loop (fuel : nat) (input out_rev : list N) {struct fuel} : dec_result :=
  match input with
  | [] => DOk out_rev
  | token :: input0 =>
      match fuel with
      | O => DFuel
      | S fuel' =>
          match read_literal_section token input0 out_rev with
          | inl e => DErr e
          | inr (input1, out1) =>
              match input1 with
              | [] => DOk out1
              | _ :: _ =>
                  match read_duplicate_section token input1 out1 with
                  | inl e => DErr e
                  | inr (input2, out2) => dec_loop fuel' input2 out2
                  end
              end
          end
      end
  end.

(** [decompress].  Fuel [length input]: every block consumes at least its
    token.  [DFuel] is never returned ([Lz4Proofs.decompress_fuel_sufficient]),
    the value given for it is arbitrary. *)
Definition decompress (input : list N) : lz4_error + list N :=
  match dec_loop (fuel_of input) input [] with
  | DOk out_rev => inr (rev_append out_rev [])
  | DErr e => inl e
  | DFuel => inl UnexpectedEnd
  end.

Definition decompress_ok (input : list N) : option (list N) :=
  match decompress input with
  | inr out => Some out
  | inl _ => None
  end.

(** ** Sanity examples (computed)

    The decoder vectors are the unit tests of [decompress.rs]; the encoder
    vectors were obtained from the real crate. *)

Example ex_compress_empty : compress [] = [0].
Proof. vm_compute. reflexivity. Qed.

Example ex_compress_a20 :                       (* b"a" * 20 *)
  compress (repeat 97 20) = [0x1f; 97; 1; 0; 0; 0].
Proof. vm_compute. reflexivity. Qed.

Example ex_compress_literals : compress [1; 2; 3; 4; 5; 6] = [0x60; 1; 2; 3; 4; 5; 6].
Proof. vm_compute. reflexivity. Qed.

Example ex_decompress_aaaaaa : decompress [0x11; 97; 1; 0] = inr (repeat 97 6).
Proof. vm_compute. reflexivity. Qed.

Example ex_decompress_repeated_blocks :
  decompress [0x11; 97; 1; 0; 0x22; 98; 99; 2; 0]
  = inr [97; 97; 97; 97; 97; 97; 98; 99; 98; 99; 98; 99; 98; 99].
Proof. vm_compute. reflexivity. Qed.

Example ex_decompress_all_literal : decompress [0x30; 97; 52; 57] = inr [97; 52; 57].
Proof. vm_compute. reflexivity. Qed.

Example ex_decompress_offset_oob1 :
  decompress [0x10; 97; 2; 0] = inl InvalidDeduplicationOffset.
Proof. vm_compute. reflexivity. Qed.

Example ex_decompress_offset_oob2 : decompress [0x40; 97; 1; 0] = inl UnexpectedEnd.
Proof. vm_compute. reflexivity. Qed.

Example ex_decompress_offset_zero :
  decompress [0x11; 97; 0; 0] = inl InvalidDeduplicationOffset.
Proof. vm_compute. reflexivity. Qed.
