(* ------------------------------------------------------------------------- *)
(*  BS.Codec.MeshCodec                                                       *)
(*                                                                           *)
(*  Executable model of `mesh_to_bin` / `bin_to_mesh`                        *)
(*  (/repo/src/networking/assets/mesh_serde.rs).  Definitions only; proofs   *)
(*  are in MeshCodecProofs.v.                                                *)
(*                                                                           *)
(*  The model is driven by the GENERATED tables of BSGen.MeshLayout (field   *)
(*  list and wire types of `struct MeshData`, which part of the Mesh feeds   *)
(*  which field, which field is written to which part on decode and in what  *)
(*  order, both topology tables): a change of the Rust source changes these  *)
(*  tables, hence this model, and the theorems are re-checked against it.    *)
(*                                                                           *)
(*  [mesh] is what `mesh_to_bin` reads from a Bevy `Mesh`.  Floats are their *)
(*  32 bit patterns, so "bit identical" is [=].  Hand-written facts about    *)
(*  Bevy (not /repo): the vertex format of the eight attribute constants     *)
(*  ([attr_shape]; `insert_attribute` panics on any other format, so a slot  *)
(*  never holds another variant) and the serde layout of `AssetId<Image>`    *)
(*  ([val_of_morph]).  Both are validated by the correspondence runs.        *)
(* ------------------------------------------------------------------------- *)

From Coq Require Import List NArith Bool.
From BS Require Import Codec.Schema Codec.Lz4 Codec.CodecTypes.
From BSGen Require Import MeshLayout.
Import ListNotations.
Local Open Scope N_scope.

(* ---- the data ------------------------------------------------------------ *)

Inductive mindices := INone | IU16 (l : list N) | IU32 (l : list N).

(* `Option<Handle<Image>>` of the mesh: none, a weak handle to a uuid asset id, a weak handle
   to an index asset id (generation, index), or a strong handle (not transportable) *)
Inductive mmorph :=
| MNone
| MWeakUuid (uuid : list N)
| MWeakIndex (generation index : N)
| MStrong.

(* one attribute: per vertex the list of its components (f32 bit patterns, or u16 for the
   joint indices) *)
Definition attribute := option (list (list N)).

Record mesh := mkMesh {
  topo : topology;
  positions : attribute;        (* Float32x3 *)
  normals : attribute;          (* Float32x3 *)
  uvs0 : attribute;             (* Float32x2 *)
  uvs1 : attribute;             (* Float32x2 *)
  tangents : attribute;         (* Float32x4 *)
  colors : attribute;           (* Float32x4 *)
  joint_weights : attribute;    (* Float32x4 *)
  joint_indices : attribute;    (* Uint16x4 *)
  indices : mindices;
  morph : mmorph;
  morph_names : option (list (list N))    (* UTF-8 bytes of each name *)
}.

Definition get_attr (m : mesh) (a : mattr) : attribute :=
  match a with
  | A_POSITION => positions m | A_NORMAL => normals m | A_UV_0 => uvs0 m | A_UV_1 => uvs1 m
  | A_TANGENT => tangents m | A_COLOR => colors m | A_JOINT_WEIGHT => joint_weights m
  | A_JOINT_INDEX => joint_indices m
  end.

(* `Mesh::new(topology, ..)` *)
Definition empty_mesh (t : topology) : mesh :=
  mkMesh t None None None None None None None None INone MNone None.

(* Bevy 0.14: (components per vertex, bytes per component) of `Mesh::ATTRIBUTE_x.format` *)
Definition attr_shape (a : mattr) : nat * nat :=
  match a with
  | A_POSITION | A_NORMAL => (3, 4)
  | A_UV_0 | A_UV_1 => (2, 4)
  | A_TANGENT | A_COLOR | A_JOINT_WEIGHT => (4, 4)
  | A_JOINT_INDEX => (4, 2)
  end%nat.

(* ---- tables of the source --------------------------------------------------- *)

Definition MeshData_ty : ty := TTuple (map snd meshdata_fields).

(* `match mesh.primitive_topology() { .. }`; a topology without an arm (the Rust match would
   not compile) gets a number that does not fit the u8 field *)
Definition topo_to_num (t : topology) : N :=
  match assoc topology_eqb t topo_enc_table with Some n => n | None => 256 end.

(* `match data.mesh_type { 0 => .., .., _ => .. }` *)
Definition num_to_topo (n : N) : topology :=
  match assoc N.eqb n topo_dec_table with Some t => t | None => topo_dec_default end.

Definition field_source (f : mfield) : option msource := assoc mfield_eqb f mesh_enc_sources.

(* ---- Mesh -> MeshData (as a Schema value) ------------------------------------- *)

Definition val_of_vec (v : list N) : val := VArr (map VInt v).

Definition val_of_attr (o : attribute) : val :=
  VOpt (match o with Some l => Some (VSeq (tmap val_of_vec l)) | None => None end).

(* `if let Some(Indices::U32(t)) = mesh.indices() { Some(t.clone()) } else { None }` *)
Definition val_of_indices32 (i : mindices) : val :=
  VOpt (match i with IU32 l => Some (VSeq (tmap VInt l)) | _ => None end).
Definition val_of_indices16 (i : mindices) : val :=
  VOpt (match i with IU16 l => Some (VSeq (tmap VInt l)) | _ => None end).

(* `.and_then(|m| match m { Handle::Strong(_) => None, Handle::Weak(id) => Some(id.clone()) })` (written with a deref in the source), then
   serde-derived `AssetId<Image>`: variant 0 `Index { index: AssetIndex { generation, index },
   marker: PhantomData }`, variant 1 `Uuid { uuid }` *)
Definition val_of_morph (h : mmorph) : val :=
  VOpt (match h with
        | MNone | MStrong => None
        | MWeakIndex g i => Some (VEnum 0 (VTuple [VTuple [VInt g; VInt i]; VUnit]))
        | MWeakUuid u => Some (VEnum 1 (VTuple [VBytes u]))
        end).

Definition val_of_names (o : option (list (list N))) : val :=
  VOpt (match o with Some l => Some (VSeq (tmap VBytes l)) | None => None end).

(* the value the MeshData literal gives to field [f]; [VUnit] (which inhabits no field type)
   for a field that the literal does not initialise (does not compile in Rust) *)
Definition field_val (m : mesh) (f : mfield) : val :=
  match field_source f with
  | Some SrcTopology => VInt (topo_to_num (topo m))
  | Some (SrcAttr a) => val_of_attr (get_attr m a)
  | Some SrcIndices32 => val_of_indices32 (indices m)
  | Some SrcIndices16 => val_of_indices16 (indices m)
  | Some SrcMorph => val_of_morph (morph m)
  | Some SrcNames => val_of_names (morph_names m)
  | None => VUnit
  end.

Definition mesh_data_of (m : mesh) : val :=
  VTuple (map (fun ft => field_val m (fst ft)) meshdata_fields).

(* `compress::compress(&bincode::serialize(&data).unwrap())`.  [None] only for a [mesh] that
   is not a Rust value (a component that does not fit its integer type, a length >= 2^64). *)
Definition mesh_to_bin (m : mesh) : option bytes :=
  match enc MeshData_ty (mesh_data_of m) with
  | Some b => Some (compress b)
  | None => None
  end.

(* ---- MeshData -> Mesh ------------------------------------------------------------ *)

Definition int_of_val (v : val) : option N := match v with VInt n => Some n | _ => None end.
Definition bytes_of_val (v : val) : option (list N) := match v with VBytes b => Some b | _ => None end.
Definition ints_of_val (v : val) : option (list N) :=
  match v with VSeq l => all_some int_of_val l | _ => None end.
Definition vec_of_val (v : val) : option (list N) :=
  match v with VArr l => all_some int_of_val l | _ => None end.
Definition vecs_of_val (v : val) : option (list (list N)) :=
  match v with VSeq l => all_some vec_of_val l | _ => None end.
Definition names_of_val (v : val) : option (list (list N)) :=
  match v with VSeq l => all_some bytes_of_val l | _ => None end.
Definition morph_of_val (v : val) : option mmorph :=
  match v with
  | VEnum 0 (VTuple [VTuple [VInt g; VInt i]; VUnit]) => Some (MWeakIndex g i)
  | VEnum 1 (VTuple [VBytes u]) => Some (MWeakUuid u)
  | _ => None
  end.

(* the decoded MeshData as field -> value *)
Definition env := list (mfield * val).
Definition get_field (e : env) (f : mfield) : option val := assoc mfield_eqb f e.

(* an `Option<..>` field: [None] = ill-shaped value, [Some None] = the field is `None` *)
Definition opt_field {A} (conv : val -> option A) (e : env) (f : mfield) : option (option A) :=
  match get_field e f with
  | Some (VOpt None) => Some None
  | Some (VOpt (Some x)) => match conv x with Some y => Some (Some y) | None => None end
  | _ => None
  end.

(* the fields `bin_to_mesh` writes to part [src] of the mesh, in statement order *)
Definition fields_targeting (src : msource) : list mfield :=
  map fst (filter (fun p => msource_eqb (snd p) src) mesh_dec_targets).

(* `if let Some(x) = data.f { mesh.<set src>(x) }` for each of them: the last present one wins *)
Definition part {A} (conv : val -> option A) (e : env) (src : msource) : option (option A) :=
  match all_some (opt_field conv e) (fields_targeting src) with
  | Some l => Some (last_some l)
  | None => None
  end.

(* both index widths are written with `insert_indices`: (field, is 32 bit) in statement order *)
Definition index_fields : list (mfield * bool) :=
  flat_map (fun p => match snd p with
                     | SrcIndices32 => [(fst p, true)]
                     | SrcIndices16 => [(fst p, false)]
                     | _ => []
                     end) mesh_dec_targets.

Definition index_field (e : env) (fw : mfield * bool) : option (option mindices) :=
  match opt_field ints_of_val e (fst fw) with
  | Some (Some l) => Some (Some (if snd fw then IU32 l else IU16 l))
  | Some None => Some None
  | None => None
  end.

Definition indices_of_env (e : env) : option mindices :=
  match all_some (index_field e) index_fields with
  | Some l => Some (match last_some l with Some i => i | None => INone end)
  | None => None
  end.

(* `Mesh::new(match data.<f> { .. }, ..)`: exactly one field *)
Definition topology_of_env (e : env) : option topology :=
  match fields_targeting SrcTopology with
  | [f] => match get_field e f with Some (VInt n) => Some (num_to_topo n) | _ => None end
  | _ => None
  end.


Definition mesh_of_env (e : env) : option mesh :=
  t <- topology_of_env e ;;
  a0 <- part vecs_of_val e (SrcAttr A_POSITION) ;;
  a1 <- part vecs_of_val e (SrcAttr A_NORMAL) ;;
  a2 <- part vecs_of_val e (SrcAttr A_UV_0) ;;
  a3 <- part vecs_of_val e (SrcAttr A_UV_1) ;;
  a4 <- part vecs_of_val e (SrcAttr A_TANGENT) ;;
  a5 <- part vecs_of_val e (SrcAttr A_COLOR) ;;
  a6 <- part vecs_of_val e (SrcAttr A_JOINT_WEIGHT) ;;
  a7 <- part vecs_of_val e (SrcAttr A_JOINT_INDEX) ;;
  i <- indices_of_env e ;;
  h <- part morph_of_val e SrcMorph ;;
  n <- part names_of_val e SrcNames ;;
  Some (mkMesh t a0 a1 a2 a3 a4 a5 a6 a7 i (match h with Some x => x | None => MNone end) n).

Definition mesh_of_data (v : val) : option mesh :=
  match v with
  | VTuple vs => mesh_of_env (combine (map fst meshdata_fields) vs)
  | _ => None
  end.

(* a stream that does not decompress (since the repair 1d88107; it used to panic on `unwrap`) and a
   bincode failure both return the empty mesh; trailing bytes after the MeshData are ignored (`bincode::deserialize`). *)
Definition bin_to_mesh (bs : bytes) : outcome mesh :=
  match decompress bs with
  | inl _ => Ok (empty_mesh mesh_fallback_topology)
  | inr raw =>
    match dec MeshData_ty raw with
    | None => Ok (empty_mesh mesh_fallback_topology)
    | Some (v, _) => match mesh_of_data v with Some m => Ok m | None => Stuck end
    end
  end.

(* ---- the same functions on the stack-safe encoder / decoder (these are extracted and run;
        equal to the above: MeshCodecProofs.mesh_to_bin_fast_eq, bin_to_mesh_fast_eq) -------- *)

Definition mesh_to_bin_fast (m : mesh) : option bytes :=
  match enc_fast MeshData_ty (mesh_data_of m) with
  | Some b => Some (compress b)
  | None => None
  end.

Definition bin_to_mesh_fast (bs : bytes) : outcome mesh :=
  match decompress bs with
  | inl _ => Ok (empty_mesh mesh_fallback_topology)
  | inr raw =>
    match dec_fast MeshData_ty raw with
    | None => Ok (empty_mesh mesh_fallback_topology)
    | Some (v, _) => match mesh_of_data v with Some m => Ok m | None => Stuck end
    end
  end.

(* ---- the meshes the property speaks about ---------------------------------------------- *)

(* [k] components, each fitting [w] bytes *)
Definition vec_ok (k w : nat) (v : list N) : Prop :=
  length v = k /\ Forall (fun x => x < 2 ^ (8 * N.of_nat w)) v.

Definition attr_ok (a : mattr) (o : attribute) : Prop :=
  match o with
  | None => True
  | Some l => N.of_nat (length l) < 2 ^ 64
              /\ Forall (vec_ok (fst (attr_shape a)) (snd (attr_shape a))) l
  end.

Definition bytes_ok (b : list N) : Prop :=
  N.of_nat (length b) < 2 ^ 64 /\ Forall (fun x => x < 256) b.

Definition indices_ok (i : mindices) : Prop :=
  match i with
  | INone => True
  | IU16 l => N.of_nat (length l) < 2 ^ 64 /\ Forall (fun x => x < 2 ^ 16) l
  | IU32 l => N.of_nat (length l) < 2 ^ 64 /\ Forall (fun x => x < 2 ^ 32) l
  end.

Definition morph_ok (h : mmorph) : Prop :=
  match h with
  | MNone | MStrong => True
  | MWeakUuid u => length u = 16%nat /\ Forall (fun x => x < 256) u
  | MWeakIndex g i => g < 2 ^ 32 /\ i < 2 ^ 32
  end.

Definition names_ok (o : option (list (list N))) : Prop :=
  match o with
  | None => True
  | Some l => N.of_nat (length l) < 2 ^ 64 /\ Forall bytes_ok l
  end.

(* [m] is a Rust value: every number fits its type, every vertex has the arity of its format *)
Definition wf_mesh (m : mesh) : Prop :=
  (forall a, attr_ok a (get_attr m a)) /\ indices_ok (indices m) /\ morph_ok (morph m)
  /\ names_ok (morph_names m).

(* the supported set of C11: any mesh over the eight attributes whose morph-target handle is
   not a strong handle (a strong handle refers to an asset of the sending process) *)
Definition supported (m : mesh) : Prop := wf_mesh m /\ morph m <> MStrong.

(* what a strong handle becomes *)
Definition drop_strong (m : mesh) : mesh :=
  match morph m with
  | MStrong =>
    mkMesh (topo m) (positions m) (normals m) (uvs0 m) (uvs1 m) (tangents m) (colors m)
           (joint_weights m) (joint_indices m) (indices m) MNone (morph_names m)
  | _ => m
  end.
