(* ------------------------------------------------------------------------- *)
(*  BS.Codec.Schema                                                          *)
(*                                                                           *)
(*  Executable model of the bincode 1.3 wire format (fixint, little endian)  *)
(*  as driven by serde data-model shapes: a universe [ty] of wire schemas,   *)
(*  untyped values [val], a generic encoder [enc] and decoder [dec].         *)
(*  Definitions only; all proofs are in SchemaProofs.v.                      *)
(*                                                                           *)
(*  Conventions                                                              *)
(*   - a byte is an [N] (intended < 256), a byte string is a [list N];       *)
(*   - numbers that come from data are [N]; [nat] is used only for           *)
(*     structural things (integer width, array arity);                       *)
(*   - everything is linear in the size of the value / input: no [nth] in    *)
(*     loops, [++] only with a left operand that is the encoding of ONE      *)
(*     item, no number read from the input is ever converted to [nat]        *)
(*     (the specification takes [N.of_nat (length l)] once per list; the     *)
(*     fast variants count in [N] directly);                                 *)
(*   - [enc]/[dec] are the specification and are not tail recursive (their   *)
(*     recursion depth is linear in the longest list); the stack-safe        *)
(*     [enc_fast]/[dec_fast] near the end of the file are the ones to        *)
(*     extract and run.                                                      *)
(*                                                                           *)
(*  What is NOT modelled                                                     *)
(*   - UTF-8 validity of [String]/[&str] contents: [TBytes] is a u64 length  *)
(*     followed by arbitrary bytes.  (bincode rejects ill-formed UTF-8 when  *)
(*     decoding a [String]; the model accepts it, so for strings the model   *)
(*     decoder accepts a superset of what the real one accepts.)             *)
(*   - bincode's size limit (the crate uses the default: unlimited for       *)
(*     [DefaultOptions], and [bincode::serialize] has no limit either).      *)
(*   - floats are carried as their bit patterns ([TInt 4] / [TInt 8]).       *)
(*   - signed integers are carried as their two's complement bit pattern.    *)
(* ------------------------------------------------------------------------- *)

From Coq Require Import List NArith Bool.
Import ListNotations.
Local Open Scope N_scope.

Definition bytes := list N.

(* ------------------------------------------------------------------------- *)
(*  Schemas and values                                                       *)
(* ------------------------------------------------------------------------- *)

Inductive ty :=
| TUnit                         (* zero bytes: (), PhantomData, unit struct, unit variant payload *)
| TInt (nbytes : nat)           (* little-endian fixed width: u8/i8 1, u16 2, u32/f32 4, u64/f64/usize 8, u128 16; value = bit pattern *)
| TBool                         (* 1 byte, 0 or 1; the decoder rejects other bytes *)
| TChar                         (* the UTF-8 bytes of the char, 1..4; value = scalar value *)
| TBytes                        (* String / &str / Vec<u8> via serialize_bytes / Uuid: u64 length then the bytes.
                                   UTF-8 validity of strings is NOT modelled. *)
| TOpt (t : ty)                 (* 1 byte tag 0/1 then payload; other tags rejected *)
| TSeq (t : ty)                 (* Vec<T>, slices, maps as seq of pairs: u64 length then items *)
| TArr (n : nat) (t : ty)       (* [T; n] and homogeneous tuples: n items, no length *)
| TTuple (ts : list ty)         (* struct / tuple struct / tuple / struct-variant payload: fields in order *)
| TEnum (variants : list ty).   (* u32 LE variant index then that variant's payload; index >= length rejected *)

Inductive val :=
| VUnit
| VInt (n : N)
| VBool (b : bool)
| VChar (c : N)
| VBytes (bs : list N)
| VOpt (o : option val)
| VSeq (l : list val)
| VArr (l : list val)
| VTuple (l : list val)
| VEnum (idx : N) (payload : val).

(* ------------------------------------------------------------------------- *)
(*  Little-endian integers                                                   *)
(* ------------------------------------------------------------------------- *)

Definition byte_ok (b : N) : bool := b <? 256.

(* the [n] low-order bytes of [v], least significant first *)
Fixpoint le_bytes (n : nat) (v : N) : bytes :=
  match n with
  | O => []
  | S n' => (v mod 256) :: le_bytes n' (v / 256)
  end.

Fixpoint le_value (bs : bytes) : N :=
  match bs with
  | [] => 0
  | b :: r => b + 256 * le_value r
  end.

(* [v] fits in [n] bytes *)
Definition fits (n : nat) (v : N) : bool := v <? 2 ^ (8 * N.of_nat n).

Definition enc_int (n : nat) (v : N) : option bytes :=
  if fits n v then Some (le_bytes n v) else None.

(* Split off exactly [n] bytes ([n] structural: an integer width).  Anything that is
   not a byte (>= 256) is rejected while it is consumed: the decoder never turns a
   non-byte into a value. *)
Fixpoint take (n : nat) (bs : bytes) : option (bytes * bytes) :=
  match n with
  | O => Some ([], bs)
  | S n' =>
    match bs with
    | [] => None
    | b :: r =>
      if byte_ok b then
        match take n' r with
        | Some (h, t) => Some (b :: h, t)
        | None => None
        end
      else None
    end
  end.

(* Split off exactly [k] bytes, [k] coming from data (a u64): recursion is on the
   input, the counter is a binary number; a length larger than the input fails
   after at most one pass over the input. *)
Fixpoint takeN (k : N) (bs : bytes) {struct bs} : option (bytes * bytes) :=
  if k =? 0 then Some ([], bs)
  else
    match bs with
    | [] => None
    | b :: r =>
      if byte_ok b then
        match takeN (N.pred k) r with
        | Some (h, t) => Some (b :: h, t)
        | None => None
        end
      else None
    end.

Definition dec_int (n : nat) (bs : bytes) : option (N * bytes) :=
  match take n bs with
  | Some (h, r) => Some (le_value h, r)
  | None => None
  end.

(* ------------------------------------------------------------------------- *)
(*  bool                                                                     *)
(* ------------------------------------------------------------------------- *)

Definition enc_bool (b : bool) : bytes := [if b then 1 else 0].

Definition dec_bool (bs : bytes) : option (bool * bytes) :=
  match bs with
  | [] => None
  | b :: r => if b =? 0 then Some (false, r) else if b =? 1 then Some (true, r) else None
  end.

(* ------------------------------------------------------------------------- *)
(*  char: UTF-8                                                              *)
(*                                                                           *)
(*  bincode [serialize_char] writes [c.encode_utf8()].  [deserialize_char]   *)
(*  reads one byte, takes the width from [utf8_char_width] (a copy of the    *)
(*  table of core::str: 00..7F -> 1, C2..DF -> 2, E0..EF -> 3, F0..F4 -> 4,  *)
(*  anything else -> 0 = error), returns the byte itself for width 1,        *)
(*  otherwise reads width-1 more bytes and runs [str::from_utf8] on them.    *)
(*  [from_utf8] accepts exactly (Unicode table 3-7):                         *)
(*     C2..DF 80..BF                                                         *)
(*     E0 A0..BF 80..BF | E1..EC 80..BF 80..BF | ED 80..9F 80..BF            *)
(*                      | EE..EF 80..BF 80..BF                               *)
(*     F0 90..BF 80..BF 80..BF | F1..F3 80..BF 80..BF 80..BF                 *)
(*                      | F4 80..8F 80..BF 80..BF                            *)
(* ------------------------------------------------------------------------- *)

(* Unicode scalar value: <= 0x10FFFF and not a surrogate *)
Definition char_ok (c : N) : bool :=
  (c <? 0xD800) || ((0xDFFF <? c) && (c <? 0x110000)).

Definition enc_char (c : N) : option bytes :=
  if c <? 0x80 then Some [c]
  else if c <? 0x800 then Some [0xC0 + c / 64; 0x80 + c mod 64]
  else if c <? 0x10000 then
    if (0xD800 <=? c) && (c <? 0xE000) then None
    else Some [0xE0 + c / 4096; 0x80 + (c / 64) mod 64; 0x80 + c mod 64]
  else if c <? 0x110000 then
    Some [0xF0 + c / 262144; 0x80 + (c / 4096) mod 64; 0x80 + (c / 64) mod 64; 0x80 + c mod 64]
  else None.

Definition utf8_width (b : N) : nat :=
  if b <? 0x80 then 1%nat
  else if b <? 0xC2 then 0%nat
  else if b <? 0xE0 then 2%nat
  else if b <? 0xF0 then 3%nat
  else if b <? 0xF5 then 4%nat
  else 0%nat.

Definition in_range (lo hi b : N) : bool := (lo <=? b) && (b <=? hi).
Definition is_cont (b : N) : bool := in_range 0x80 0xBF b.

Definition second3_ok (b0 b1 : N) : bool :=
  if b0 =? 0xE0 then in_range 0xA0 0xBF b1
  else if b0 =? 0xED then in_range 0x80 0x9F b1
  else is_cont b1.

Definition second4_ok (b0 b1 : N) : bool :=
  if b0 =? 0xF0 then in_range 0x90 0xBF b1
  else if b0 =? 0xF4 then in_range 0x80 0x8F b1
  else is_cont b1.

Definition dec_char (bs : bytes) : option (N * bytes) :=
  match bs with
  | [] => None
  | b0 :: r =>
    match utf8_width b0 with
    | 1%nat => Some (b0, r)
    | 2%nat =>
      match r with
      | b1 :: r' =>
        if is_cont b1 then Some ((b0 - 0xC0) * 64 + (b1 - 0x80), r') else None
      | _ => None
      end
    | 3%nat =>
      match r with
      | b1 :: b2 :: r' =>
        if second3_ok b0 b1 && is_cont b2
        then Some ((b0 - 0xE0) * 4096 + (b1 - 0x80) * 64 + (b2 - 0x80), r')
        else None
      | _ => None
      end
    | 4%nat =>
      match r with
      | b1 :: b2 :: b3 :: r' =>
        if second4_ok b0 b1 && is_cont b2 && is_cont b3
        then Some ((b0 - 0xF0) * 262144 + (b1 - 0x80) * 4096 + (b2 - 0x80) * 64 + (b3 - 0x80), r')
        else None
      | _ => None
      end
    | _ => None
    end
  end.

(* ------------------------------------------------------------------------- *)
(*  byte strings                                                             *)
(* ------------------------------------------------------------------------- *)

Definition len_ok (n : N) : bool := n <? 2 ^ 64.

Definition enc_bytes (bs : bytes) : option bytes :=
  let n := N.of_nat (length bs) in
  if len_ok n && forallb byte_ok bs then Some (le_bytes 8 n ++ bs) else None.

Definition dec_bytes (bs : bytes) : option (bytes * bytes) :=
  match dec_int 8 bs with
  | Some (n, r) => takeN n r
  | None => None
  end.

(* ------------------------------------------------------------------------- *)
(*  Generic list-level helpers, parametrised by the item encoder / decoder.  *)
(*  [enc]/[dec] below are structurally recursive on the schema and pass      *)
(*  themselves to these helpers.                                             *)
(* ------------------------------------------------------------------------- *)

Section Helpers.

  (* items of one type *)
  Variable ei : val -> option bytes.
  Variable di : bytes -> option (val * bytes).

  Fixpoint enc_list (l : list val) : option bytes :=
    match l with
    | [] => Some []
    | x :: l' =>
      match ei x with
      | Some a =>
        match enc_list l' with
        | Some b => Some (a ++ b)
        | None => None
        end
      | None => None
      end
    end.

  (* exactly [n] items *)
  Fixpoint enc_arr (n : nat) (l : list val) : option bytes :=
    match n, l with
    | O, [] => Some []
    | S n', x :: l' =>
      match ei x with
      | Some a =>
        match enc_arr n' l' with
        | Some b => Some (a ++ b)
        | None => None
        end
      | None => None
      end
    | _, _ => None
    end.

  Fixpoint dec_arr (n : nat) (bs : bytes) : option (list val * bytes) :=
    match n with
    | O => Some ([], bs)
    | S n' =>
      match di bs with
      | Some (x, r) =>
        match dec_arr n' r with
        | Some (xs, r') => Some (x :: xs, r')
        | None => None
        end
      | None => None
      end
    end.

  (* [k] items, [k] a u64 read from the data.  The loop is structurally recursive
     on [budget], a list that is only used as a step bound: it is started with the
     bytes that follow the length.  Since every item of a [sized] type consumes at
     least one byte, a successful decode never needs more steps than that, and no
     length is ever computed or converted to [nat]. *)
  Fixpoint dec_seq (budget : bytes) (k : N) (bs : bytes) {struct budget}
    : option (list val * bytes) :=
    if k =? 0 then Some ([], bs)
    else
      match budget with
      | [] => None
      | _ :: budget' =>
        match di bs with
        | Some (x, r) =>
          match dec_seq budget' (N.pred k) r with
          | Some (xs, r') => Some (x :: xs, r')
          | None => None
          end
        | None => None
        end
      end.

End Helpers.

Section FieldHelpers.

  (* fields / variants: one schema per position *)
  Variable ef : ty -> val -> option bytes.
  Variable df : ty -> bytes -> option (val * bytes).

  Fixpoint enc_fields (ts : list ty) (vs : list val) : option bytes :=
    match ts, vs with
    | [], [] => Some []
    | t :: ts', v :: vs' =>
      match ef t v with
      | Some a =>
        match enc_fields ts' vs' with
        | Some b => Some (a ++ b)
        | None => None
        end
      | None => None
      end
    | _, _ => None
    end.

  Fixpoint dec_fields (ts : list ty) (bs : bytes) : option (list val * bytes) :=
    match ts with
    | [] => Some ([], bs)
    | t :: ts' =>
      match df t bs with
      | Some (v, r) =>
        match dec_fields ts' r with
        | Some (vs, r') => Some (v :: vs, r')
        | None => None
        end
      | None => None
      end
    end.

  (* the [idx]-th variant (binary counter, recursion on the variant list) *)
  Fixpoint enc_variant (vs : list ty) (idx : N) (p : val) : option bytes :=
    match vs with
    | [] => None
    | t :: vs' => if idx =? 0 then ef t p else enc_variant vs' (N.pred idx) p
    end.

  Fixpoint dec_variant (vs : list ty) (idx : N) (bs : bytes) : option (val * bytes) :=
    match vs with
    | [] => None
    | t :: vs' => if idx =? 0 then df t bs else dec_variant vs' (N.pred idx) bs
    end.

End FieldHelpers.

Section WtItemHelpers.

  Variable wi : val -> bool.

  Fixpoint wt_arr (n : nat) (l : list val) : bool :=
    match n, l with
    | O, [] => true
    | S n', x :: l' => wi x && wt_arr n' l'
    | _, _ => false
    end.

End WtItemHelpers.

Section WtHelpers.

  Variable w : ty -> val -> bool.

  Fixpoint wt_fields (ts : list ty) (vs : list val) : bool :=
    match ts, vs with
    | [], [] => true
    | t :: ts', v :: vs' => w t v && wt_fields ts' vs'
    | _, _ => false
    end.

  Fixpoint wt_variant (vs : list ty) (idx : N) (p : val) : bool :=
    match vs with
    | [] => false
    | t :: vs' => if idx =? 0 then w t p else wt_variant vs' (N.pred idx) p
    end.

End WtHelpers.

(* ------------------------------------------------------------------------- *)
(*  The generic encoder and decoder                                          *)
(* ------------------------------------------------------------------------- *)

(* [None] when [v] does not inhabit [t] or a number is out of range. *)
Fixpoint enc (t : ty) (v : val) {struct t} : option bytes :=
  match t, v with
  | TUnit, VUnit => Some []
  | TInt n, VInt x => enc_int n x
  | TBool, VBool b => Some (enc_bool b)
  | TChar, VChar c => enc_char c
  | TBytes, VBytes bs => enc_bytes bs
  | TOpt t', VOpt o =>
    match o with
    | None => Some [0]
    | Some x =>
      match enc t' x with
      | Some b => Some (1 :: b)
      | None => None
      end
    end
  | TSeq t', VSeq l =>
    let n := N.of_nat (length l) in
    if len_ok n then
      match enc_list (enc t') l with
      | Some b => Some (le_bytes 8 n ++ b)
      | None => None
      end
    else None
  | TArr n t', VArr l => enc_arr (enc t') n l
  | TTuple ts, VTuple vs => enc_fields enc ts vs
  | TEnum variants, VEnum idx p =>
    if fits 4 idx then
      match enc_variant enc variants idx p with
      | Some b => Some (le_bytes 4 idx ++ b)
      | None => None
      end
    else None
  | _, _ => None
  end.

(* Returns the unread rest (bincode leaves trailing bytes to the caller). *)
Fixpoint dec (t : ty) (bs : bytes) {struct t} : option (val * bytes) :=
  match t with
  | TUnit => Some (VUnit, bs)
  | TInt n =>
    match dec_int n bs with
    | Some (x, r) => Some (VInt x, r)
    | None => None
    end
  | TBool =>
    match dec_bool bs with
    | Some (b, r) => Some (VBool b, r)
    | None => None
    end
  | TChar =>
    match dec_char bs with
    | Some (c, r) => Some (VChar c, r)
    | None => None
    end
  | TBytes =>
    match dec_bytes bs with
    | Some (b, r) => Some (VBytes b, r)
    | None => None
    end
  | TOpt t' =>
    match bs with
    | [] => None
    | tag :: r =>
      if tag =? 0 then Some (VOpt None, r)
      else if tag =? 1 then
        match dec t' r with
        | Some (x, r') => Some (VOpt (Some x), r')
        | None => None
        end
      else None
    end
  | TSeq t' =>
    match dec_int 8 bs with
    | Some (k, r) =>
      match dec_seq (dec t') r k r with
      | Some (l, r') => Some (VSeq l, r')
      | None => None
      end
    | None => None
    end
  | TArr n t' =>
    match dec_arr (dec t') n bs with
    | Some (l, r) => Some (VArr l, r)
    | None => None
    end
  | TTuple ts =>
    match dec_fields dec ts bs with
    | Some (l, r) => Some (VTuple l, r)
    | None => None
    end
  | TEnum variants =>
    match dec_int 4 bs with
    | Some (idx, r) =>
      match dec_variant dec variants idx r with
      | Some (p, r') => Some (VEnum idx p, r')
      | None => None
      end
    | None => None
    end
  end.

(* [v] inhabits [t]. *)
Fixpoint wt (t : ty) (v : val) {struct t} : bool :=
  match t, v with
  | TUnit, VUnit => true
  | TInt n, VInt x => fits n x
  | TBool, VBool _ => true
  | TChar, VChar c => char_ok c
  | TBytes, VBytes bs => len_ok (N.of_nat (length bs)) && forallb byte_ok bs
  | TOpt t', VOpt o =>
    match o with
    | None => true
    | Some x => wt t' x
    end
  | TSeq t', VSeq l => len_ok (N.of_nat (length l)) && forallb (wt t') l
  | TArr n t', VArr l => wt_arr (wt t') n l
  | TTuple ts, VTuple vs => wt_fields wt ts vs
  | TEnum variants, VEnum idx p => fits 4 idx && wt_variant wt variants idx p
  | _, _ => false
  end.

(* ------------------------------------------------------------------------- *)
(*  Well-formed schemas                                                      *)
(* ------------------------------------------------------------------------- *)

(* every encoding of a value of [t] has at least one byte *)
Fixpoint sized (t : ty) : bool :=
  match t with
  | TUnit => false
  | TInt n => match n with O => false | S _ => true end
  | TBool | TChar | TBytes => true
  | TOpt _ | TSeq _ | TEnum _ => true
  | TArr n t' => match n with O => false | S _ => sized t' end
  | TTuple ts => existsb sized ts
  end.

(* - [TInt n]: any width n >= 1 (the Rust widths are 1, 2, 4, 8, 16);
   - the item type of a [TSeq] is [sized] (the decoder's step bound relies on it;
     a Vec of a zero-size type is excluded);
   - recursively. *)
Fixpoint wf_ty (t : ty) : bool :=
  match t with
  | TUnit | TBool | TChar | TBytes => true
  | TInt n => match n with O => false | S _ => true end
  | TOpt t' => wf_ty t'
  | TSeq t' => sized t' && wf_ty t'
  | TArr _ t' => wf_ty t'
  | TTuple ts => forallb wf_ty ts
  | TEnum variants => forallb wf_ty variants
  end.

(* ------------------------------------------------------------------------- *)
(*  Stack-safe variants for extraction                                       *)
(*                                                                           *)
(*  [enc] / [dec] above are the specification: compositional, convenient     *)
(*  to reason about, linear in time, but their recursion depth is linear in  *)
(*  the longest list / byte string ([++], [x :: rec ...]).  In OCaml that    *)
(*  overflows the default 8 MB stack at about 10^5..10^6 and, because the    *)
(*  minor GC scans the stack, degrades to quadratic time before that.        *)
(*  [enc_fast] / [dec_fast] compute the same functions (SchemaProofs:        *)
(*  [enc_fast_eq], [dec_fast_eq]) with every data-dependent loop tail        *)
(*  recursive; the remaining recursion depth is the nesting depth of the     *)
(*  schema plus array arities / field counts / integer widths.  Extract and  *)
(*  run these; state and prove with [enc] / [dec].                           *)
(* ------------------------------------------------------------------------- *)

(* [N.of_nat (length l)], tail recursive and without the unary detour *)
Fixpoint lenN_acc {A} (l : list A) (acc : N) : N :=
  match l with
  | [] => acc
  | _ :: r => lenN_acc r (N.succ acc)
  end.
Definition lenN {A} (l : list A) : N := lenN_acc l 0.

(* The encoder writes onto an accumulator that holds the output reversed. *)

(* [(p mod 2^k, p / 2^k)] by peeling [k] binary digits: much cheaper than the generic
   [N.div_eucl] once extracted (which dominates the encoder otherwise) *)
Fixpoint pos_split (k : nat) (p : positive) : N * N :=
  match k with
  | O => (0, Npos p)
  | S k' =>
    match p with
    | xH => (1, 0)
    | xO p' => let (lo, hi) := pos_split k' p' in (N.double lo, hi)
    | xI p' => let (lo, hi) := pos_split k' p' in (N.succ_double lo, hi)
    end
  end.

(* [(v mod 256, v / 256)] *)
Definition split_byte (v : N) : N * N :=
  match v with
  | N0 => (0, 0)
  | Npos p => pos_split 8 p
  end.

(* [rev (le_bytes n v) ++ acc] *)
Fixpoint le_push (n : nat) (v : N) (acc : bytes) : bytes :=
  match n with
  | O => acc
  | S n' => let (lo, hi) := split_byte v in le_push n' hi (lo :: acc)
  end.

(* [rev bs ++ acc] if all of [bs] are bytes *)
Fixpoint push_checked (bs acc : bytes) : option bytes :=
  match bs with
  | [] => Some acc
  | b :: r => if byte_ok b then push_checked r (b :: acc) else None
  end.

Definition enc_bytes_into (bs acc : bytes) : option bytes :=
  let n := lenN bs in
  if len_ok n then push_checked bs (le_push 8 n acc) else None.

Section FastItemHelpers.
  Variable ei : val -> bytes -> option bytes.
  Variable di : bytes -> option (val * bytes).

  Fixpoint enc_list_into (l : list val) (acc : bytes) : option bytes :=
    match l with
    | [] => Some acc
    | x :: l' =>
      match ei x acc with
      | Some acc' => enc_list_into l' acc'
      | None => None
      end
    end.

  Fixpoint enc_arr_into (n : nat) (l : list val) (acc : bytes) : option bytes :=
    match n, l with
    | O, [] => Some acc
    | S n', x :: l' =>
      match ei x acc with
      | Some acc' => enc_arr_into n' l' acc'
      | None => None
      end
    | _, _ => None
    end.

  (* [dec_seq] with the items accumulated in reverse *)
  Fixpoint dec_seq_acc (budget : bytes) (k : N) (bs : bytes) (acc : list val) {struct budget}
    : option (list val * bytes) :=
    if k =? 0 then Some (rev_append acc [], bs)
    else
      match budget with
      | [] => None
      | _ :: budget' =>
        match di bs with
        | Some (x, r) => dec_seq_acc budget' (N.pred k) r (x :: acc)
        | None => None
        end
      end.
End FastItemHelpers.

Section FastFieldHelpers.
  Variable ef : ty -> val -> bytes -> option bytes.

  Fixpoint enc_fields_into (ts : list ty) (vs : list val) (acc : bytes) : option bytes :=
    match ts, vs with
    | [], [] => Some acc
    | t :: ts', v :: vs' =>
      match ef t v acc with
      | Some acc' => enc_fields_into ts' vs' acc'
      | None => None
      end
    | _, _ => None
    end.

  Fixpoint enc_variant_into (vs : list ty) (idx : N) (p : val) (acc : bytes) : option bytes :=
    match vs with
    | [] => None
    | t :: vs' => if idx =? 0 then ef t p acc else enc_variant_into vs' (N.pred idx) p acc
    end.
End FastFieldHelpers.

(* [enc_into t v acc = Some (rev bs ++ acc)] iff [enc t v = Some bs] *)
Fixpoint enc_into (t : ty) (v : val) (acc : bytes) {struct t} : option bytes :=
  match t, v with
  | TUnit, VUnit => Some acc
  | TInt n, VInt x => if fits n x then Some (le_push n x acc) else None
  | TBool, VBool b => Some ((if b then 1 else 0) :: acc)
  | TChar, VChar c =>
    match enc_char c with
    | Some bs => Some (rev_append bs acc)
    | None => None
    end
  | TBytes, VBytes bs => enc_bytes_into bs acc
  | TOpt t', VOpt o =>
    match o with
    | None => Some (0 :: acc)
    | Some x => enc_into t' x (1 :: acc)
    end
  | TSeq t', VSeq l =>
    let n := lenN l in
    if len_ok n then enc_list_into (enc_into t') l (le_push 8 n acc) else None
  | TArr n t', VArr l => enc_arr_into (enc_into t') n l acc
  | TTuple ts, VTuple vs => enc_fields_into enc_into ts vs acc
  | TEnum variants, VEnum idx p =>
    if fits 4 idx then enc_variant_into enc_into variants idx p (le_push 4 idx acc) else None
  | _, _ => None
  end.

Definition enc_fast (t : ty) (v : val) : option bytes :=
  match enc_into t v [] with
  | Some r => Some (rev_append r [])
  | None => None
  end.

(* [wt], by way of the encoder *)
Definition wt_fast (t : ty) (v : val) : bool :=
  match enc_into t v [] with
  | Some _ => true
  | None => false
  end.

Fixpoint takeN_acc (k : N) (bs : bytes) (acc : bytes) {struct bs} : option (bytes * bytes) :=
  if k =? 0 then Some (rev_append acc [], bs)
  else
    match bs with
    | [] => None
    | b :: r => if byte_ok b then takeN_acc (N.pred k) r (b :: acc) else None
    end.

Definition dec_bytes_fast (bs : bytes) : option (bytes * bytes) :=
  match dec_int 8 bs with
  | Some (n, r) => takeN_acc n r []
  | None => None
  end.

Fixpoint dec_fast (t : ty) (bs : bytes) {struct t} : option (val * bytes) :=
  match t with
  | TUnit => Some (VUnit, bs)
  | TInt n =>
    match dec_int n bs with
    | Some (x, r) => Some (VInt x, r)
    | None => None
    end
  | TBool =>
    match dec_bool bs with
    | Some (b, r) => Some (VBool b, r)
    | None => None
    end
  | TChar =>
    match dec_char bs with
    | Some (c, r) => Some (VChar c, r)
    | None => None
    end
  | TBytes =>
    match dec_bytes_fast bs with
    | Some (b, r) => Some (VBytes b, r)
    | None => None
    end
  | TOpt t' =>
    match bs with
    | [] => None
    | tag :: r =>
      if tag =? 0 then Some (VOpt None, r)
      else if tag =? 1 then
        match dec_fast t' r with
        | Some (x, r') => Some (VOpt (Some x), r')
        | None => None
        end
      else None
    end
  | TSeq t' =>
    match dec_int 8 bs with
    | Some (k, r) =>
      match dec_seq_acc (dec_fast t') r k r [] with
      | Some (l, r') => Some (VSeq l, r')
      | None => None
      end
    | None => None
    end
  | TArr n t' =>
    match dec_arr (dec_fast t') n bs with
    | Some (l, r) => Some (VArr l, r)
    | None => None
    end
  | TTuple ts =>
    match dec_fields dec_fast ts bs with
    | Some (l, r) => Some (VTuple l, r)
    | None => None
    end
  | TEnum variants =>
    match dec_int 4 bs with
    | Some (idx, r) =>
      match dec_variant dec_fast variants idx r with
      | Some (p, r') => Some (VEnum idx p, r')
      | None => None
      end
    | None => None
    end
  end.

(* ------------------------------------------------------------------------- *)
(*  bevy_reflect 0.14 [ReflectSerializer] over bincode: a map with exactly   *)
(*  one entry: u64 1, the type path as a string, then the body encoded by    *)
(*  the schema of that type.                                                 *)
(* ------------------------------------------------------------------------- *)

Definition enc_reflect (type_path : list N) (t : ty) (v : val) : option bytes :=
  match enc_bytes type_path with
  | Some p =>
    match enc t v with
    | Some b => Some (le_bytes 8 1 ++ p ++ b)
    | None => None
    end
  | None => None
  end.

Definition dec_reflect (lookup : list N -> option ty) (bs : bytes)
  : option (list N * val * bytes) :=
  match dec_int 8 bs with
  | Some (count, r) =>
    if count =? 1 then
      match dec_bytes r with
      | Some (path, r') =>
        match lookup path with
        | Some t =>
          match dec t r' with
          | Some (v, rest) => Some (path, v, rest)
          | None => None
          end
        | None => None
        end
      | None => None
      end
    else None
  | None => None
  end.

(* stack-safe variants (equal to the above: [enc_reflect_fast_eq], [dec_reflect_fast_eq]) *)

Definition enc_reflect_fast (type_path : list N) (t : ty) (v : val) : option bytes :=
  match enc_bytes_into type_path (le_push 8 1 []) with
  | Some acc =>
    match enc_into t v acc with
    | Some r => Some (rev_append r [])
    | None => None
    end
  | None => None
  end.

Definition dec_reflect_fast (lookup : list N -> option ty) (bs : bytes)
  : option (list N * val * bytes) :=
  match dec_int 8 bs with
  | Some (count, r) =>
    if count =? 1 then
      match dec_bytes_fast r with
      | Some (path, r') =>
        match lookup path with
        | Some t =>
          match dec_fast t r' with
          | Some (v, rest) => Some (path, v, rest)
          | None => None
          end
        | None => None
        end
      | None => None
      end
    else None
  | None => None
  end.
