(* ------------------------------------------------------------------------- *)
(*  BS.Codec.MeshCodecProofs                                                 *)
(*                                                                           *)
(*  C11: `bin_to_mesh (mesh_to_bin m) = m` for every supported mesh, over    *)
(*  the model of MeshCodec.v, i.e. over the tables generated from            *)
(*  mesh_serde.rs.  Everything that depends on the generated tables is a     *)
(*  side condition discharged by computation, so it is re-checked against    *)
(*  the current source on every run:                                         *)
(*   - [topo_tables_inverse]   the two `match` blocks are inverse;           *)
(*   - [layout_wf]             the MeshData schema is well formed;           *)
(*   - [layout_typed]          every field has the wire type of the part of  *)
(*                             the mesh it is initialised from;              *)
(*   - [decode_inverts_encode] every part of the mesh is written from the    *)
(*                             field it was read into.                       *)
(*  Uses Lz4Proofs.lz4_roundtrip and SchemaProofs.dec_enc / enc_wt.          *)
(* ------------------------------------------------------------------------- *)

From Coq Require Import List NArith Bool Lia.
From BS Require Import Codec.Schema Codec.SchemaProofs Codec.Lz4 Codec.Lz4Proofs
  Codec.CodecTypes Codec.CodecLemmas Codec.MeshCodec.
From BSGen Require Import MeshLayout.
Import ListNotations.
Local Open Scope N_scope.

(* ---------------------------------------------------------------------- *)
(*  Decidable equalities of the name enumerations                          *)
(* ---------------------------------------------------------------------- *)

Lemma mfield_eqb_eq a b : mfield_eqb a b = true <-> a = b.
Proof.
  unfold mfield_eqb. rewrite N.eqb_eq. split; [|intros ->; reflexivity].
  destruct a, b; cbn; intro H; try reflexivity; discriminate H.
Qed.

Lemma mfield_eqb_refl a : mfield_eqb a a = true.
Proof. apply mfield_eqb_eq; reflexivity. Qed.

(* ---------------------------------------------------------------------- *)
(*  Values back to data                                                    *)
(* ---------------------------------------------------------------------- *)

Lemma ints_back l : all_some int_of_val (map VInt l) = Some l.
Proof. apply all_some_map; reflexivity. Qed.

Lemma vec_back v : vec_of_val (val_of_vec v) = Some v.
Proof. apply ints_back. Qed.

Lemma vecs_back l : vecs_of_val (VSeq (tmap val_of_vec l)) = Some l.
Proof. rewrite tmap_eq. cbn [vecs_of_val]. apply all_some_map, vec_back. Qed.

Lemma ints_seq_back l : ints_of_val (VSeq (tmap VInt l)) = Some l.
Proof. rewrite tmap_eq. apply ints_back. Qed.

Lemma names_back l : names_of_val (VSeq (tmap VBytes l)) = Some l.
Proof. rewrite tmap_eq. cbn [names_of_val]. apply all_some_map; reflexivity. Qed.

(* ---------------------------------------------------------------------- *)
(*  The environment of a decoded MeshData                                  *)
(* ---------------------------------------------------------------------- *)

Definition env_of (m : mesh) : env :=
  combine (map fst meshdata_fields) (map (fun ft => field_val m (fst ft)) meshdata_fields).

Lemma get_field_env m f :
  In f (map fst meshdata_fields) -> get_field (env_of m) f = Some (field_val m f).
Proof. apply (assoc_combine_map mfield_eqb mfield_eqb_eq). Qed.

Lemma part_single {A} (conv : val -> option A) e src f r :
  fields_targeting src = [f] -> opt_field conv e f = Some r -> part conv e src = Some r.
Proof.
  intros T O. unfold part. rewrite T. unfold all_some. cbn [all_some_acc]. rewrite O.
  cbn [rev_append]. rewrite last_some_single. reflexivity.
Qed.

Lemma attr_env m f a :
  fields_targeting (SrcAttr a) = [f] -> In f (map fst meshdata_fields) ->
  field_source f = Some (SrcAttr a) ->
  part vecs_of_val (env_of m) (SrcAttr a) = Some (get_attr m a).
Proof.
  intros T I S. apply (part_single _ _ _ f); [exact T|].
  unfold opt_field. rewrite (get_field_env _ _ I). unfold field_val. rewrite S.
  unfold val_of_attr. destruct (get_attr m a) as [l|]; [|reflexivity].
  rewrite vecs_back. reflexivity.
Qed.

(* the handle as it arrives: a strong handle is not sent *)
Definition morph_sent (h : mmorph) : option mmorph :=
  match h with MNone | MStrong => None | _ => Some h end.

Lemma morph_env m f :
  fields_targeting SrcMorph = [f] -> In f (map fst meshdata_fields) ->
  field_source f = Some SrcMorph ->
  part morph_of_val (env_of m) SrcMorph = Some (morph_sent (morph m)).
Proof.
  intros T I S. apply (part_single _ _ _ f); [exact T|].
  unfold opt_field. rewrite (get_field_env _ _ I). unfold field_val. rewrite S.
  destruct (morph m); reflexivity.
Qed.

Lemma names_env m f :
  fields_targeting SrcNames = [f] -> In f (map fst meshdata_fields) ->
  field_source f = Some SrcNames ->
  part names_of_val (env_of m) SrcNames = Some (morph_names m).
Proof.
  intros T I S. apply (part_single _ _ _ f); [exact T|].
  unfold opt_field. rewrite (get_field_env _ _ I). unfold field_val. rewrite S.
  unfold val_of_names. destruct (morph_names m) as [l|]; [|reflexivity].
  rewrite names_back. reflexivity.
Qed.

Definition index_source (wide : bool) : msource := if wide then SrcIndices32 else SrcIndices16.

Lemma index_field_env m f w :
  In f (map fst meshdata_fields) -> field_source f = Some (index_source w) ->
  index_field (env_of m) (f, w)
  = Some (match indices m, w with
          | IU32 l, true => Some (IU32 l)
          | IU16 l, false => Some (IU16 l)
          | _, _ => None
          end).
Proof.
  intros I S. unfold index_field, opt_field. cbn [fst snd].
  rewrite (get_field_env _ _ I). unfold field_val. rewrite S.
  destruct w; cbn [index_source]; unfold val_of_indices32, val_of_indices16;
    destruct (indices m) as [|l|l]; try reflexivity; rewrite ints_seq_back; reflexivity.
Qed.

Lemma indices_env m fa wa fb wb :
  index_fields = [(fa, wa); (fb, wb)] -> wa <> wb ->
  In fa (map fst meshdata_fields) -> In fb (map fst meshdata_fields) ->
  field_source fa = Some (index_source wa) -> field_source fb = Some (index_source wb) ->
  indices_of_env (env_of m) = Some (indices m).
Proof.
  intros T D Ia Ib Sa Sb. unfold indices_of_env. rewrite T. unfold all_some. cbn [all_some_acc].
  rewrite (index_field_env _ _ _ Ia Sa), (index_field_env _ _ _ Ib Sb). cbn [rev_append].
  destruct wa, wb; try (exfalso; apply D; reflexivity); destruct (indices m); reflexivity.
Qed.

Lemma topology_env m f :
  fields_targeting SrcTopology = [f] -> In f (map fst meshdata_fields) ->
  field_source f = Some SrcTopology ->
  (forall t, num_to_topo (topo_to_num t) = t) ->
  topology_of_env (env_of m) = Some (topo m).
Proof.
  intros T I S R. unfold topology_of_env. rewrite T, (get_field_env _ _ I).
  unfold field_val. rewrite S, R. reflexivity.
Qed.

(* ---------------------------------------------------------------------- *)
(*  Side conditions on the generated tables (re-checked on every run)      *)
(* ---------------------------------------------------------------------- *)

(* the decoder's topology table inverts the encoder's, on all five topologies, and every
   number the encoder writes fits the u8 field *)
Lemma topo_tables_inverse : forall t, num_to_topo (topo_to_num t) = t /\ topo_to_num t < 256.
Proof. destruct t; vm_compute; split; reflexivity. Qed.

Lemma layout_wf : wf_ty MeshData_ty = true.
Proof. vm_compute. reflexivity. Qed.

Ltac in_fields := vm_compute; repeat (first [left; reflexivity | right]).
Ltac table := vm_compute; reflexivity.

(* every part of the mesh comes back from the field it went into *)
Lemma decode_inverts_encode m : mesh_of_env (env_of m) = Some (drop_strong m).
Proof.
  unfold mesh_of_env.
  erewrite topology_env; [| table | in_fields | table | apply topo_tables_inverse].
  cbn [obind].
  do 8 (erewrite attr_env; [| table | in_fields | table]; cbn [obind]).
  erewrite indices_env; [| table | discriminate | in_fields | in_fields | table | table].
  cbn [obind].
  erewrite morph_env; [| table | in_fields | table]. cbn [obind].
  erewrite names_env; [| table | in_fields | table]. cbn [obind].
  unfold drop_strong. destruct m as [t a0 a1 a2 a3 a4 a5 a6 a7 i h n]; cbn [get_attr MeshCodec.topo
    MeshCodec.indices MeshCodec.morph MeshCodec.morph_names positions normals uvs0 uvs1 tangents
    colors joint_weights joint_indices].
  destruct h; reflexivity.
Qed.

Lemma mesh_of_data_of m : mesh_of_data (mesh_data_of m) = Some (drop_strong m).
Proof. exact (decode_inverts_encode m). Qed.

(* ---------------------------------------------------------------------- *)
(*  Well-formed meshes are encodable                                       *)
(* ---------------------------------------------------------------------- *)




Lemma wt_vec k w v : vec_ok k w v -> wt (TArr k (TInt w)) (val_of_vec v) = true.
Proof.
  intros [L F]. subst k. unfold val_of_vec. cbn [wt].
  induction F as [|x v Hx _ IH]; cbn [map length wt_arr]; [reflexivity|].
  rewrite IH. cbn [wt]. unfold fits. rewrite (proj2 (N.ltb_lt _ _) Hx). reflexivity.
Qed.

Lemma wt_attr a o k w :
  attr_shape a = (k, w) -> attr_ok a o ->
  wt (TOpt (TSeq (TArr k (TInt w)))) (val_of_attr o) = true.
Proof.
  intros S H. unfold val_of_attr. destruct o as [l|]; [|reflexivity].
  unfold attr_ok in H. rewrite S in H. cbn [fst snd] in H. destruct H as [L F].
  rewrite tmap_eq. cbn [wt]. rewrite map_length, (len_ok_lt _ L). cbn [andb].
  apply forallb_map_true. eapply Forall_impl; [|exact F]. intros v Hv. apply wt_vec, Hv.
Qed.

Lemma wt_indices32 i : indices_ok i -> wt (TOpt (TSeq (TInt 4))) (val_of_indices32 i) = true.
Proof.
  intro H. destruct i as [|l|l]; try reflexivity. destruct H as [L F].
  unfold val_of_indices32. rewrite tmap_eq. cbn [wt]. rewrite map_length, (len_ok_lt _ L).
  cbn [andb]. apply (wt_ints 4). exact F.
Qed.

Lemma wt_indices16 i : indices_ok i -> wt (TOpt (TSeq (TInt 2))) (val_of_indices16 i) = true.
Proof.
  intro H. destruct i as [|l|l]; try reflexivity. destruct H as [L F].
  unfold val_of_indices16. rewrite tmap_eq. cbn [wt]. rewrite map_length, (len_ok_lt _ L).
  cbn [andb]. apply (wt_ints 2). exact F.
Qed.



Lemma wt_bytes b : bytes_ok b -> wt TBytes (VBytes b) = true.
Proof. intros [L F]. apply wt_bytes_lt; assumption. Qed.

(* serde layout of AssetId<Image> (bevy_asset 0.14) *)
Definition asset_id_ty : ty := TEnum [TTuple [TTuple [TInt 4; TInt 4]; TUnit]; TTuple [TBytes]].

Lemma wt_morph h : morph_ok h -> wt (TOpt asset_id_ty) (val_of_morph h) = true.
Proof.
  intro H. destruct h as [|u|g i|]; try reflexivity; unfold val_of_morph, asset_id_ty.
  - destruct H as [L F].
    assert (B : wt TBytes (VBytes u) = true).
    { apply wt_bytes. split; [rewrite L; reflexivity|exact F]. }
    cbn [wt wt_variant wt_fields]. change (fits 4 1) with true. change (1 =? 0) with false.
    change (N.pred 1 =? 0) with true. cbv iota. cbn [wt] in B. rewrite B. reflexivity.
  - destruct H as [G I].
    cbn [wt wt_variant wt_fields]. change (fits 4 0) with true. change (0 =? 0) with true.
    cbv iota. unfold fits. change (2 ^ (8 * N.of_nat 4)) with (2 ^ 32).
    rewrite (proj2 (N.ltb_lt g _) G), (proj2 (N.ltb_lt i _) I). reflexivity.
Qed.

Lemma wt_names o : names_ok o -> wt (TOpt (TSeq TBytes)) (val_of_names o) = true.
Proof.
  intro H. destruct o as [l|]; [|reflexivity]. destruct H as [L F].
  unfold val_of_names. rewrite tmap_eq. cbn [wt]. rewrite map_length, (len_ok_lt _ L). cbn [andb].
  apply forallb_map_true. eapply Forall_impl; [|exact F]. intros b Hb.
  exact (wt_bytes b Hb).
Qed.

Lemma wt_topo t : wt (TInt 1) (VInt (topo_to_num t)) = true.
Proof.
  cbn [wt]. unfold fits. apply N.ltb_lt. exact (proj2 (topo_tables_inverse t)).
Qed.


(* every field of MeshData has the wire type of the part of the mesh it is initialised from
   (and the attribute fields have the vertex format Bevy fixes for their attribute) *)
Lemma layout_typed m : wf_mesh m -> wt MeshData_ty (mesh_data_of m) = true.
Proof.
  intros (HA & HI & HM & HN). unfold MeshData_ty, mesh_data_of. cbn [wt].
  apply wt_fields_map. unfold meshdata_fields.
  repeat (apply Forall_cons || apply Forall_nil); cbn [fst snd]; unfold field_val;
    match goal with |- context [field_source ?f] =>
      let s := eval vm_compute in (field_source f) in change (field_source f) with s
    end; cbv iota beta;
    first [ apply wt_topo
          | eapply wt_attr; cycle 1; [apply HA | reflexivity]
          | apply wt_indices32; exact HI
          | apply wt_indices16; exact HI
          | apply wt_morph; exact HM
          | apply wt_names; exact HN ].
Qed.

(* ---------------------------------------------------------------------- *)
(*  C11                                                                    *)
(* ---------------------------------------------------------------------- *)

Theorem mesh_roundtrip_wf : forall m, wf_mesh m ->
  exists bs, mesh_to_bin m = Some bs /\ bin_to_mesh bs = Ok (drop_strong m).
Proof.
  intros m W.
  destruct (enc_wt _ _ layout_wf (layout_typed m W)) as [b E].
  exists (compress b). unfold mesh_to_bin, bin_to_mesh. rewrite E. split; [reflexivity|].
  rewrite lz4_roundtrip.
  pose proof (dec_enc _ _ _ [] layout_wf E) as D. rewrite app_nil_r in D. rewrite D.
  rewrite mesh_of_data_of. reflexivity.
Qed.

(* every supported mesh, of any size: encoding succeeds and decoding returns the mesh *)
Theorem C11_mesh_lossless : forall m, supported m ->
  exists bs, mesh_to_bin m = Some bs /\ bin_to_mesh bs = Ok m.
Proof.
  intros m [W S]. destruct (mesh_roundtrip_wf m W) as (bs & E & D).
  exists bs. split; [exact E|]. rewrite D. unfold drop_strong.
  destruct (morph m); try reflexivity. exfalso; apply S; reflexivity.
Qed.

(* outside the supported set: a strong morph-target handle is dropped, nothing else changes *)
Theorem C11_strong_handle_dropped : forall m, wf_mesh m -> morph m = MStrong ->
  exists bs, mesh_to_bin m = Some bs
    /\ bin_to_mesh bs = Ok (mkMesh (topo m) (positions m) (normals m) (uvs0 m) (uvs1 m)
                                   (tangents m) (colors m) (joint_weights m) (joint_indices m)
                                   (indices m) MNone (morph_names m)).
Proof.
  intros m W S. destruct (mesh_roundtrip_wf m W) as (bs & E & D).
  exists bs. split; [exact E|]. rewrite D. unfold drop_strong. rewrite S. reflexivity.
Qed.

(* trailing bytes after the MeshData are ignored, as `bincode::deserialize` does *)
Theorem mesh_decode_ignores_trailing : forall m b rest, wf_mesh m ->
  enc MeshData_ty (mesh_data_of m) = Some b ->
  bin_to_mesh (compress (b ++ rest)) = Ok (drop_strong m).
Proof.
  intros m b rest _ E. unfold bin_to_mesh. rewrite lz4_roundtrip.
  rewrite (dec_enc _ _ _ rest layout_wf E), mesh_of_data_of. reflexivity.
Qed.

(* the stack-safe variants that are extracted and run compute the same functions *)
Theorem mesh_to_bin_fast_eq : forall m, mesh_to_bin_fast m = mesh_to_bin m.
Proof. intro m. unfold mesh_to_bin_fast, mesh_to_bin. rewrite enc_fast_eq. reflexivity. Qed.

Theorem bin_to_mesh_fast_eq : forall bs, bin_to_mesh_fast bs = bin_to_mesh bs.
Proof.
  intro bs. unfold bin_to_mesh_fast, bin_to_mesh. destruct (decompress bs); [reflexivity|].
  rewrite dec_fast_eq. reflexivity.
Qed.

(* ---------------------------------------------------------------------- *)
(*  The decoder never gets stuck: whatever the bytes, `bin_to_mesh` either  *)
(*  panics in decompress or returns a mesh                                 *)
(* ---------------------------------------------------------------------- *)

Lemma ints_of_val_total w y : wt (TSeq (TInt w)) y = true -> exists r, ints_of_val y = Some r.
Proof. destruct y; try discriminate. exact (int_seq_total w l). Qed.

Lemma vec_of_val_total k w y : wt (TArr k (TInt w)) y = true -> exists r, vec_of_val y = Some r.
Proof. destruct y; try discriminate. exact (int_arr_total k w l). Qed.

Lemma vecs_of_val_total k w y : wt (TSeq (TArr k (TInt w))) y = true -> exists r, vecs_of_val y = Some r.
Proof.
  destruct y; try discriminate. intro H. cbn [wt] in H. apply andb_true_iff in H. destruct H as [_ H].
  cbn [vecs_of_val]. apply all_some_total. eapply Forall_impl; [|apply forallb_true_Forall, H].
  intros x Hx. exact (vec_of_val_total _ _ _ Hx).
Qed.

Lemma names_of_val_total y : wt (TSeq TBytes) y = true -> exists r, names_of_val y = Some r.
Proof.
  destruct y; try discriminate. intro H. cbn [wt] in H. apply andb_true_iff in H. destruct H as [_ H].
  cbn [names_of_val]. apply all_some_total. eapply Forall_impl; [|apply forallb_true_Forall, H].
  intros x Hx. destruct x; try discriminate. cbn. eauto.
Qed.

Lemma morph_of_val_total y : wt asset_id_ty y = true -> exists r, morph_of_val y = Some r.
Proof.
  unfold asset_id_ty. intro H. apply wt_enum_inv in H. destruct H as (idx & p & -> & H).
  cbn [wt_variant] in H. destruct (N.eqb_spec idx 0) as [->|N0].
  - apply wt_tuple_inv in H. destruct H as (vs & -> & H).
    apply wt_fields_cons_inv in H. destruct H as (a & vs' & -> & Ha & H).
    apply wt_fields_cons_inv in H. destruct H as (b & vs'' & -> & Hb & H).
    apply wt_fields_nil_inv in H. subst vs''.
    apply wt_unit_inv in Hb. subst b.
    apply wt_tuple_inv in Ha. destruct Ha as (l & -> & Ha).
    apply wt_fields_cons_inv in Ha. destruct Ha as (g & l' & -> & Hg & Ha).
    apply wt_fields_cons_inv in Ha. destruct Ha as (i & l'' & -> & Hi & Ha).
    apply wt_fields_nil_inv in Ha. subst l''.
    apply wt_int_inv in Hg. destruct Hg as [g' ->]. apply wt_int_inv in Hi. destruct Hi as [i' ->].
    cbn. eauto.
  - destruct (N.eqb_spec (N.pred idx) 0) as [E|N1]; [|discriminate].
    assert (idx = 1) by lia. subst idx.
    apply wt_tuple_inv in H. destruct H as (vs & -> & H).
    apply wt_fields_cons_inv in H. destruct H as (a & vs' & -> & Ha & H).
    apply wt_fields_nil_inv in H. subst vs'.
    apply wt_bytes_inv in Ha. destruct Ha as [u ->]. cbn. eauto.
Qed.

Lemma opt_field_total {A} (conv : val -> option A) e f t :
  (exists x, get_field e f = Some x /\ wt (TOpt t) x = true) ->
  (forall y, wt t y = true -> exists r, conv y = Some r) ->
  exists r, opt_field conv e f = Some r.
Proof.
  intros (x & G & W) C. unfold opt_field. rewrite G.
  destruct (wt_opt_inv _ _ W) as [->|(y & -> & Wy)]; [eauto|].
  destruct (C y Wy) as [r ->]. eauto.
Qed.

Lemma part_total {A} (conv : val -> option A) e src f t :
  fields_targeting src = [f] ->
  (exists x, get_field e f = Some x /\ wt (TOpt t) x = true) ->
  (forall y, wt t y = true -> exists r, conv y = Some r) ->
  exists r, part conv e src = Some r.
Proof.
  intros T G C. destruct (opt_field_total conv e f t G C) as [r O].
  exists r. eapply part_single; eauto.
Qed.

Lemma mesh_of_data_total v : wt MeshData_ty v = true -> exists m, mesh_of_data v = Some m.
Proof.
  unfold MeshData_ty. intro W. apply wt_tuple_inv in W. destruct W as (vs & -> & W).
  cbn [mesh_of_data]. set (e := combine (map fst meshdata_fields) vs).
  pose proof (env_typed_gen mfield_eqb meshdata_fields vs W) as T. fold e in T. change (assoc mfield_eqb ?f e) with (get_field e f) in T.
  unfold mesh_of_env.
  (* topology *)
  assert (exists t, topology_of_env e = Some t) as [t0 ->].
  { unfold topology_of_env.
    let r := eval vm_compute in (fields_targeting SrcTopology) in change (fields_targeting SrcTopology) with r.
    edestruct T as (x & -> & Wx); [table|]. apply wt_int_inv in Wx. destruct Wx as [n ->]. eauto. }
  cbn [obind].
  do 8 (match goal with |- context [part vecs_of_val e ?s] =>
    let H := fresh in
    assert (exists r, part vecs_of_val e s = Some r) as [? H];
      [ eapply part_total; [table | eapply T; table | apply vecs_of_val_total] | rewrite H; cbn [obind] ]
  end).
  assert (exists i, indices_of_env e = Some i) as [i0 ->].
  { unfold indices_of_env.
    let r := eval vm_compute in index_fields in change index_fields with r.
    unfold all_some. cbn [all_some_acc]. unfold index_field. cbn [fst snd].
    edestruct (opt_field_total ints_of_val e) as [r1 ->]; [eapply T; table | apply ints_of_val_total |].
    destruct r1; (edestruct (opt_field_total ints_of_val e) as [r2 ->]; [eapply T; table | apply ints_of_val_total |]);
    destruct r2; eauto. }
  cbn [obind].
  assert (exists r, part morph_of_val e SrcMorph = Some r) as [h0 ->].
  { eapply part_total; [table | eapply T; table | apply morph_of_val_total]. }
  cbn [obind].
  assert (exists r, part names_of_val e SrcNames = Some r) as [n0 ->].
  { eapply part_total; [table | eapply T; table | apply names_of_val_total]. }
  cbn [obind]. eauto.
Qed.

(* for EVERY byte string *)
Theorem bin_to_mesh_never_stuck : forall bs, bin_to_mesh bs <> Stuck.
Proof.
  intro bs. unfold bin_to_mesh. destruct (decompress bs) as [e|raw]; [discriminate|].
  destruct (dec MeshData_ty raw) as [[v r]|] eqn:D; [|discriminate].
  destruct (mesh_of_data_total v (dec_wt _ _ _ _ D)) as [m ->]. discriminate.
Qed.

(* ---------------------------------------------------------------------- *)
(*  Source ties: the generated tables are the ones the model was written   *)
(*  for (statements repeated in Properties/C11.v)                          *)
(* ---------------------------------------------------------------------- *)

(* both `match` blocks are inverse of each other, arm by arm, and cover the five topologies *)
Lemma source_topology_tables_inverse :
  forallb (fun p => topology_eqb (num_to_topo (snd p)) (fst p)) topo_enc_table = true
  /\ forallb (fun p => topo_to_num (snd p) =? fst p) topo_dec_table = true
  /\ forallb (fun t => existsb (fun p => topology_eqb (fst p) t) topo_enc_table) all_topologies = true
  /\ map fst topo_dec_table = [0; 1; 2; 3; 4].
Proof. repeat split; reflexivity. Qed.

(* the wire layout of MeshData *)
Lemma source_layout :
  meshdata_fields =
  [(F_mesh_type, TInt 1);
   (F_positions, TOpt (TSeq (TArr 3 (TInt 4)))); (F_normals, TOpt (TSeq (TArr 3 (TInt 4))));
   (F_uvs0, TOpt (TSeq (TArr 2 (TInt 4)))); (F_uvs1, TOpt (TSeq (TArr 2 (TInt 4))));
   (F_tangents, TOpt (TSeq (TArr 4 (TInt 4)))); (F_colors, TOpt (TSeq (TArr 4 (TInt 4))));
   (F_joint_weights, TOpt (TSeq (TArr 4 (TInt 4)))); (F_joint_indices, TOpt (TSeq (TArr 4 (TInt 2))));
   (F_indices32, TOpt (TSeq (TInt 4))); (F_indices16, TOpt (TSeq (TInt 2)));
   (F_morph_targets, TOpt asset_id_ty); (F_morph_target_names, TOpt (TSeq TBytes))].
Proof. reflexivity. Qed.

(* each attribute is matched with the vertex format Bevy fixes for it, lands in a field whose
   element type is that format, and that field is initialised from that attribute *)
Lemma source_attribute_formats :
  Forall (fun r => let '(f, a, k, w) := r in
                   attr_shape a = (k, w)
                   /\ assoc mfield_eqb f meshdata_fields = Some (TOpt (TSeq (TArr k (TInt w))))
                   /\ field_source f = Some (SrcAttr a)) mesh_enc_shapes
  /\ map (fun r => snd (fst (fst r))) mesh_enc_shapes
     = [A_POSITION; A_TANGENT; A_NORMAL; A_UV_0; A_UV_1; A_COLOR; A_JOINT_WEIGHT; A_JOINT_INDEX].
Proof. split; [repeat constructor|reflexivity]. Qed.

(* `bin_to_mesh` writes every field to the part of the mesh `mesh_to_bin` read it from, and the
   fallback mesh of a bincode failure is an empty TriangleList *)
Lemma source_decode_writes_what_encode_read :
  mesh_dec_targets = mesh_enc_sources
  /\ map snd mesh_enc_sources
     = [SrcTopology; SrcAttr A_POSITION; SrcAttr A_NORMAL; SrcAttr A_UV_0; SrcAttr A_UV_1;
        SrcAttr A_TANGENT; SrcAttr A_COLOR; SrcAttr A_JOINT_WEIGHT; SrcAttr A_JOINT_INDEX;
        SrcIndices32; SrcIndices16; SrcMorph; SrcNames]
  /\ mesh_fallback_topology = TriangleList /\ topo_dec_default = TriangleList.
Proof. repeat split; reflexivity. Qed.

(* ---------------------------------------------------------------------- *)
(*  Non-vacuity: a concrete mesh with every kind of content                *)
(* ---------------------------------------------------------------------- *)

Definition ex_mesh : mesh :=
  mkMesh LineStrip
    (Some [[0; 0x3f800000; 0x7fc00001]; [0x80000000; 0xff800000; 1]; [0x7f7fffff; 0; 0]])
    (Some [[0; 0x3f800000; 0]; [0; 0x3f800000; 0]; [0; 0x3f800000; 0]])
    (Some [[0; 0]; [0x3f800000; 0x3f800000]])
    None
    (Some [])
    (Some [[0xffffffff; 0xffc12345; 0x00000001; 0x807fffff]])
    None
    (Some [[0; 1; 65535; 32768]; [4; 3; 2; 1]])
    (IU16 [0; 2; 1; 65535])
    (MWeakIndex 7 4294967295)
    (Some [[110; 97; 109; 101; 49]; []; [206; 188]]).

Example ex_mesh_supported : supported ex_mesh.
Proof.
  split; [|discriminate]. split; [|split; [|split]].
  - intro a. destruct a; cbn; try exact I; (split; [reflexivity|]);
      repeat constructor.
  - cbn. repeat constructor.
  - cbn. repeat constructor.
  - cbn. repeat constructor.
Qed.

Example ex_mesh_nontrivial : supported ex_mesh /\ positions ex_mesh <> None.
Proof. split; [exact ex_mesh_supported|discriminate]. Qed.

Example ex_mesh_roundtrip :
  match mesh_to_bin ex_mesh with Some bs => bin_to_mesh bs | None => Stuck end = Ok ex_mesh.
Proof. vm_compute. reflexivity. Qed.

(* the same mesh with a strong handle decodes without it *)
Example ex_mesh_strong :
  match mesh_to_bin (mkMesh PointList None None None None None None None None INone MStrong None) with
  | Some bs => bin_to_mesh bs
  | None => Stuck
  end = Ok (empty_mesh PointList).
Proof. vm_compute. reflexivity. Qed.

(* the empty mesh is one byte of MeshData per absent field *)
Example ex_mesh_empty_bytes :
  enc MeshData_ty (mesh_data_of (empty_mesh TriangleList)) = Some [3; 0; 0; 0; 0; 0; 0; 0; 0; 0; 0; 0; 0].
Proof. vm_compute. reflexivity. Qed.

(* garbage that decompresses but is not a MeshData gives the empty TriangleList mesh; so does a
   broken lz4 stream (a download cut off at the transfer limit), since the repair 1d88107 *)
Example ex_bincode_failure : bin_to_mesh (compress [3; 7]) = Ok (empty_mesh TriangleList).
Proof. vm_compute. reflexivity. Qed.

Example ex_decompress_failure : bin_to_mesh [0x10; 97; 2; 0] = Ok (empty_mesh TriangleList).
Proof. vm_compute. reflexivity. Qed.

(* a downloaded byte string, whatever it is, never makes the decoder panic (since the repair 1d88107:
   a stream that does not decompress — a download cut off at the transfer limit — gives the same
   fallback as bytes that do not deserialize) *)
Theorem bin_to_mesh_never_panics : forall bs, bin_to_mesh bs <> Panic.
Proof.
  intros bs. unfold bin_to_mesh. destruct (decompress bs) as [e|raw]; [discriminate|].
  destruct (dec MeshData_ty raw) as [[v rest]|]; [|discriminate].
  destruct (mesh_of_data v); discriminate.
Qed.
Print Assumptions bin_to_mesh_never_panics.
