(* ------------------------------------------------------------------------- *)
(*  BS.Codec.ProtoCodecProofs                                                *)
(*                                                                           *)
(*  C12, message part: every protocol message survives its own encoding and  *)
(*  decoding, for all field values, whatever bytes follow -- over the        *)
(*  `Message` layout generated from proto.rs / lib.rs.  Side conditions on   *)
(*  the generated tables are discharged by computation: [message_ty_wf],     *)
(*  and inside [msg_val_back] / [msg_val_typed] the lookups of every variant *)
(*  and field in the generated tables.                                       *)
(*  C12, component part: the reflect envelope theorems of SchemaProofs       *)
(*  specialised to the statement of the property.                            *)
(* ------------------------------------------------------------------------- *)

From Coq Require Import List NArith Bool Lia.
From BS Require Import Codec.Schema Codec.SchemaProofs Codec.CodecTypes Codec.CodecLemmas
  Codec.ProtoCodec.
From BSGen Require Import ProtoLayout.
Import ListNotations.
Local Open Scope N_scope.

Lemma message_ty_wf : wf_ty message_ty = true.
Proof. vm_compute. reflexivity. Qed.

(* evaluate the model down to the leaves (table lookups are closed terms) *)
Ltac crunch :=
  cbv [val_to_msg msg_to_val msg_kind find_variant nth_variant message_variants mvariant_eqb
       mvariant_idx N.eqb Pos.eqb N.succ Pos.succ N.pred Pos.pred_N Pos.pred_double map fst snd
       msg_field build_msg pbytes pblob assoc pfield_eqb pfield_idx combine obind blob_of_val
       val_of_blob params_of_val val_of_params sync_params_fields sparam_val sint sfield_eqb
       sfield_idx ip_of_val val_of_ip octets_of_val].

(* every variant is found at its declaration index, every field under its name *)
Lemma msg_val_back : forall m, val_to_msg (msg_to_val m) = Some m.
Proof.
  intro m; destruct m as [id|a b|id|id n d|id d|id u|id u|id u| |ip p w t| |];
    try destruct ip as [o|o]; crunch; rewrite ?tmap_eq, ?byte_seq_back; reflexivity.
Qed.

Lemma wt_uuid u : uuid_ok u -> wt TBytes (VBytes u) = true.
Proof. intros [L F]. apply wt_bytes_lt; [rewrite L; reflexivity|exact F]. Qed.

Lemma wt_string b : blob_ok b -> wt TBytes (VBytes b) = true.
Proof. intros [L F]. apply wt_bytes_lt; assumption. Qed.

Lemma wt_blob b : blob_ok b -> wt (TSeq (TInt 1)) (val_of_blob b) = true.
Proof. intros [L F]. apply wt_byte_seq; assumption. Qed.

Lemma wt_ip ip : ip_ok ip -> wt (TEnum [TArr 4 (TInt 1); TArr 16 (TInt 1)]) (val_of_ip ip) = true.
Proof.
  destruct ip as [o|o]; intros [L F]; unfold val_of_ip; rewrite tmap_eq;
    (eapply wt_enum; [vm_compute; reflexivity | reflexivity | apply (wt_int_arr _ 1); assumption]).
Qed.

Ltac leaves :=
  first [ apply wt_uuid; assumption | apply wt_string; assumption | apply wt_blob; assumption
        | apply wt_ip; assumption
        | apply (wt_int 2); assumption | apply (wt_int 8); assumption ].
Ltac tuple := repeat (apply wt_tuple_nil || (apply wt_tuple_cons; [leaves|])).

(* every field of every variant has the wire type the source declares for it *)
Lemma msg_val_typed : forall m, wf_msg m -> wt message_ty (msg_to_val m) = true.
Proof.
  intro m; destruct m as [id|a b|id|id n d|id d|id u|id u|id u| |ip p w t| |]; cbn [wf_msg];
    intro W; repeat match type of W with _ /\ _ => let H := fresh "W" in destruct W as [H W] end;
    cbv [msg_to_val msg_kind find_variant message_variants mvariant_eqb mvariant_idx N.eqb Pos.eqb
         N.succ Pos.succ map fst snd msg_field message_ty variant_ty];
    (eapply wt_enum; [vm_compute; reflexivity | reflexivity | ]); try reflexivity; tuple.
  (* NewHost: the nested SyncConnectionParameters *)
  apply wt_tuple_cons; [|apply wt_tuple_nil].
  eapply wt_enum; [vm_compute; reflexivity | reflexivity | ].
  cbv [sync_params_fields map fst snd sparam_val]. tuple.
Qed.

(* ---------------------------------------------------------------------- *)
(*  C12, messages                                                          *)
(* ---------------------------------------------------------------------- *)

(* every message of every kind, every payload: encoding succeeds and decoding the bytes --
   followed by anything -- returns the message *)
Theorem C12_message_roundtrip : forall m, wf_msg m ->
  exists bs, encode m = Some bs /\ forall rest, decode (bs ++ rest) = Some m.
Proof.
  intros m W. destruct (enc_wt _ _ message_ty_wf (msg_val_typed m W)) as [bs E].
  exists bs. split; [exact E|]. intro rest. unfold decode.
  unfold encode in E. rewrite (dec_enc _ _ _ rest message_ty_wf E). apply msg_val_back.
Qed.

(* two messages with the same bytes are the same message *)
Theorem encode_injective : forall m1 m2 bs,
  encode m1 = Some bs -> encode m2 = Some bs -> m1 = m2.
Proof.
  intros m1 m2 bs E1 E2. unfold encode in *.
  pose proof (enc_inj _ _ _ _ message_ty_wf E1 E2) as V.
  pose proof (msg_val_back m1) as B1. rewrite V, msg_val_back in B1. congruence.
Qed.

(* the decoder accepts only canonical encodings: what it accepts re-encodes to the bytes read *)
Theorem decode_canonical : forall bs m, decode bs = Some m ->
  forall v rest, dec message_ty bs = Some (v, rest) ->
  exists pre, enc message_ty v = Some pre /\ bs = pre ++ rest.
Proof. intros bs m _ v rest D. exact (enc_dec _ _ _ _ D message_ty_wf). Qed.

Theorem encode_fast_eq : forall m, encode_fast m = encode m.
Proof. intro m. unfold encode_fast, encode. apply enc_fast_eq. Qed.

Theorem decode_fast_eq : forall bs, decode_fast bs = decode bs.
Proof. intro bs. unfold decode_fast, decode. rewrite dec_fast_eq. reflexivity. Qed.

(* ---------------------------------------------------------------------- *)
(*  The decoder fails only where bincode fails                             *)
(* ---------------------------------------------------------------------- *)

Lemma blob_total y : wt (TSeq (TInt 1)) y = true -> exists r, blob_of_val y = Some r.
Proof. destruct y; try discriminate. exact (int_seq_total 1 l). Qed.

Lemma octets_total k y : wt (TArr k (TInt 1)) y = true -> exists r, octets_of_val y = Some r.
Proof. destruct y; try discriminate. exact (int_arr_total k 1 l). Qed.

Lemma ip_total y : wt (TEnum [TArr 4 (TInt 1); TArr 16 (TInt 1)]) y = true -> exists ip, ip_of_val y = Some ip.
Proof.
  intro H. apply wt_enum_inv in H. destruct H as (idx & p & -> & H).
  apply wt_variant_inv in H. destruct H as (t & Nt & Wt).
  pose proof (nth_ty_lt _ _ _ Nt) as L. norm_len L.
  assert (idx = 0 \/ idx = 1) as [-> | ->] by lia; cbn in Nt; injection Nt as <-;
    destruct (octets_total _ _ Wt) as [o E]; cbn [ip_of_val]; rewrite E; eauto.
Qed.

Lemma params_total y : wt sync_params_ty y = true -> exists m, params_of_val y = Some m.
Proof.
  unfold sync_params_ty. intro H. apply wt_enum_inv in H. destruct H as (idx & p & -> & H).
  apply wt_variant_inv in H. destruct H as (t & Nt & Wt).
  pose proof (nth_ty_lt _ _ _ Nt) as L. norm_len L. assert (idx = 0) by lia. subst idx.
  cbn in Nt. injection Nt as <-. cbv [sync_params_fields map snd] in Wt.
  apply wt_tuple_inv in Wt. destruct Wt as (vs & -> & Wt).
  apply wt_fields_cons_inv in Wt. destruct Wt as (ipv & vs' & -> & Wip & Wt).
  inv_wt. destruct (ip_total _ Wip) as [ip E].
  cbv [params_of_val sync_params_fields map fst combine assoc sfield_eqb sfield_idx N.eqb Pos.eqb sint].
  rewrite E. eauto.
Qed.

Lemma val_to_msg_total v : wt message_ty v = true -> exists m, val_to_msg v = Some m.
Proof.
  unfold message_ty. intro H. apply wt_enum_inv in H. destruct H as (idx & p & -> & H).
  apply wt_variant_inv in H. destruct H as (t & Nt & Wt).
  pose proof (nth_ty_lt _ _ _ Nt) as L. norm_len L.
  assert (idx = 0 \/ idx = 1 \/ idx = 2 \/ idx = 3 \/ idx = 4 \/ idx = 5 \/ idx = 6 \/ idx = 7
          \/ idx = 8 \/ idx = 9 \/ idx = 10 \/ idx = 11) as C by lia.
  repeat (destruct C as [->|C]); try subst idx;
    vm_compute in Nt; injection Nt as <-.
  all: try (inv_wt; crunch; eauto; fail).
  - (* ComponentUpdated *)
    apply wt_tuple_inv in Wt. destruct Wt as (vs & -> & Wt).
    apply wt_fields_cons_inv in Wt. destruct Wt as (a & vs1 & -> & Wa & Wt).
    apply wt_fields_cons_inv in Wt. destruct Wt as (b & vs2 & -> & Wb & Wt).
    apply wt_fields_cons_inv in Wt. destruct Wt as (c & vs3 & -> & Wc & Wt).
    inv_wt. destruct (blob_total _ Wc) as [d E].
    cbv [val_to_msg nth_variant message_variants N.eqb N.pred Pos.pred_N Pos.pred_double build_msg pbytes pblob
         assoc pfield_eqb pfield_idx Pos.eqb map fst combine obind]. rewrite E. eauto.
  - (* StandardMaterialUpdated *)
    apply wt_tuple_inv in Wt. destruct Wt as (vs & -> & Wt).
    apply wt_fields_cons_inv in Wt. destruct Wt as (a & vs1 & -> & Wa & Wt).
    apply wt_fields_cons_inv in Wt. destruct Wt as (c & vs3 & -> & Wc & Wt).
    inv_wt. destruct (blob_total _ Wc) as [d E].
    cbv [val_to_msg nth_variant message_variants N.eqb N.pred Pos.pred_N Pos.pred_double build_msg pbytes pblob
         assoc pfield_eqb pfield_idx Pos.eqb map fst combine obind]. rewrite E. eauto.
  - (* NewHost *)
    apply wt_tuple_inv in Wt. destruct Wt as (vs & -> & Wt).
    apply wt_fields_cons_inv in Wt. destruct Wt as (a & vs1 & -> & Wa & Wt).
    inv_wt. destruct (params_total _ Wa) as [m E].
    cbv [val_to_msg nth_variant message_variants N.eqb N.pred Pos.pred_N Pos.pred_double build_msg
         assoc pfield_eqb pfield_idx Pos.eqb map fst combine obind]. rewrite E. eauto.
Qed.

Theorem decode_none_only_if_bincode_fails : forall bs, decode bs = None -> dec message_ty bs = None.
Proof.
  intros bs H. unfold decode in H. destruct (dec message_ty bs) as [[v r]|] eqn:D; [|reflexivity].
  destruct (val_to_msg_total v (dec_wt _ _ _ _ D)) as [m E]. rewrite E in H. discriminate.
Qed.

(* ---------------------------------------------------------------------- *)
(*  C12, components and materials: the reflect envelope                    *)
(*                                                                         *)
(*  For EVERY wire schema [t] (any nesting of structs, tuple structs,      *)
(*  enums, options, lists, arrays, maps, strings, chars, integers and      *)
(*  floats of every width) and every value [v] of it, under any type path: *)
(*  the bytes of `reflect_to_bin` decode, on a peer that resolves the path *)
(*  to the same schema, to the same value and the same path, leaving       *)
(*  exactly the trailing bytes; and whatever the decoder returns on those  *)
(*  bytes re-encodes to the same bytes.                                    *)
(*  NOT proved here (statements about macro-generated Rust code): that     *)
(*  `FromReflect` rebuilds an equal concrete Rust value from the decoded   *)
(*  dynamic value and that `reflect_partial_eq` holds between the two.     *)
(*  These are checked on generated values by the correspondence runs only  *)
(*  (flags from_reflect / partial_eq of the REFLCHK lines).                *)
(* ---------------------------------------------------------------------- *)

Theorem C12_component_roundtrip : forall lookup path t v,
  lookup path = Some t -> wf_ty t = true -> wt t v = true ->
  N.of_nat (length path) < 2 ^ 64 -> Forall (fun b => b < 256) path ->
  exists bs,
    enc_reflect path t v = Some bs
    /\ (forall rest, dec_reflect lookup (bs ++ rest) = Some (path, v, rest))
    /\ (forall rest path' v' rest',
          dec_reflect lookup (bs ++ rest) = Some (path', v', rest') ->
          enc_reflect path' t v' = Some bs).
Proof.
  intros lookup path t v Lk W T L F.
  destruct (enc_wt _ _ W T) as [b Eb].
  assert (Ep : enc_bytes path = Some (le_bytes 8 (N.of_nat (length path)) ++ path)).
  { unfold enc_bytes. cbv zeta. rewrite (len_ok_lt _ L), (forallb_byte_ok_lt _ F). reflexivity. }
  assert (E : enc_reflect path t v
              = Some (le_bytes 8 1 ++ (le_bytes 8 (N.of_nat (length path)) ++ path) ++ b)).
  { unfold enc_reflect. rewrite Ep, Eb. reflexivity. }
  eexists. split; [exact E|]. split.
  - intro rest. exact (reflect_roundtrip lookup path t v _ rest Lk W F E).
  - intros rest path' v' rest' D.
    rewrite (reflect_roundtrip lookup path t v _ rest Lk W F E) in D.
    injection D as <- <- <-. exact E.
Qed.

(* distinct values of a schema have distinct bytes *)
Theorem C12_component_injective : forall path t v1 v2 bs,
  wf_ty t = true -> enc_reflect path t v1 = Some bs -> enc_reflect path t v2 = Some bs -> v1 = v2.
Proof.
  intros path t v1 v2 bs W E1 E2. unfold enc_reflect in *.
  destruct (enc_bytes path) as [p|]; [|discriminate].
  destruct (enc t v1) as [b1|] eqn:B1; [|discriminate].
  destruct (enc t v2) as [b2|] eqn:B2; [|discriminate].
  injection E1 as <-. injection E2 as E2. repeat apply app_inv_head in E2.
  subst b2. exact (enc_inj _ _ _ _ W B1 B2).
Qed.

(* ---------------------------------------------------------------------- *)
(*  Source tie (statement repeated in Properties/C12.v)                    *)
(* ---------------------------------------------------------------------- *)

(* the wire layout of Message: variant order = wire index, fields in order with their types *)
Lemma source_message_layout :
  message_variants =
  [(K_EntitySpawn, [(P_id, TBytes)]);
   (K_EntityParented, [(P_entity_id, TBytes); (P_parent_id, TBytes)]);
   (K_EntityDelete, [(P_id, TBytes)]);
   (K_ComponentUpdated, [(P_id, TBytes); (P_name, TBytes); (P_data, TSeq (TInt 1))]);
   (K_StandardMaterialUpdated, [(P_id, TBytes); (P_material, TSeq (TInt 1))]);
   (K_MeshUpdated, [(P_id, TBytes); (P_url, TBytes)]);
   (K_ImageUpdated, [(P_id, TBytes); (P_url, TBytes)]);
   (K_AudioUpdated, [(P_id, TBytes); (P_url, TBytes)]);
   (K_PromoteToHost, []);
   (K_NewHost, [(P_params, TEnum [TTuple [TEnum [TArr 4 (TInt 1); TArr 16 (TInt 1)]; TInt 2; TInt 2; TInt 8]])]);
   (K_RequestInitialSync, []);
   (K_FinishedInitialSync, [])]
  /\ map fst sync_params_fields = [S_ip; S_port; S_web_port; S_max_transfer].
Proof. split; reflexivity. Qed.

(* ---------------------------------------------------------------------- *)
(*  Non-vacuity                                                            *)
(* ---------------------------------------------------------------------- *)

Definition ex_uuid : list N := [1; 2; 3; 4; 5; 6; 7; 8; 9; 10; 11; 12; 13; 14; 15; 255].

Definition ex_wmsgs : list wmsg :=
  [W_EntitySpawn ex_uuid; W_EntityParented ex_uuid (rev ex_uuid); W_EntityDelete ex_uuid;
   W_ComponentUpdated ex_uuid [97; 58; 58; 206; 188] [0; 255; 3];
   W_StandardMaterialUpdated ex_uuid []; W_MeshUpdated ex_uuid [104; 116; 116; 112];
   W_ImageUpdated ex_uuid []; W_AudioUpdated ex_uuid [47]; W_PromoteToHost;
   W_NewHost (IpV4 [127; 0; 0; 1]) 65535 0 18446744073709551615;
   W_NewHost (IpV6 [0; 0; 0; 0; 0; 0; 0; 0; 0; 0; 0; 0; 0; 0; 0; 1]) 1 2 3;
   W_RequestInitialSync; W_FinishedInitialSync].

Example ex_msgs_wf : Forall wf_msg ex_wmsgs.
Proof. repeat constructor. Qed.

Example ex_msgs_roundtrip :
  map (fun m => match encode m with Some bs => decode (bs ++ [1; 2; 3]) | None => None end) ex_wmsgs
  = map Some ex_wmsgs.
Proof. vm_compute. reflexivity. Qed.

(* the wire form of two messages, as observed on the real code *)
Example ex_spawn_bytes :
  encode (W_EntitySpawn ex_uuid) = Some ([0; 0; 0; 0; 16; 0; 0; 0; 0; 0; 0; 0] ++ ex_uuid).
Proof. vm_compute. reflexivity. Qed.

Example ex_newhost_bytes :
  encode (W_NewHost (IpV4 [146; 115; 155; 22]) 0 65535 13312586)
  = Some [9; 0; 0; 0; 0; 0; 0; 0; 0; 0; 0; 0; 146; 115; 155; 22; 0; 0; 255; 255; 74; 34; 203; 0; 0; 0; 0; 0].
Proof. vm_compute. reflexivity. Qed.

(* a component value of a nested schema under a type path *)
Example ex_component_roundtrip :
  let path := [67; 111; 109; 112] in
  let t := TTuple [TOpt (TInt 4); TSeq (TInt 8); TBytes; TEnum [TUnit; TTuple [TInt 2; TBool]]; TChar] in
  let v := VTuple [VOpt (Some (VInt 7)); VSeq [VInt 1; VInt 18446744073709551615]; VBytes [206; 188];
                   VEnum 1 (VTuple [VInt 65535; VBool true]); VChar 0x10FFFF] in
  match enc_reflect path t v with
  | Some bs => dec_reflect (fun p => if bytes_eqb p path then Some t else None) (bs ++ [9])
  | None => None
  end = Some (path, v, [9]).
Proof. vm_compute. reflexivity. Qed.
