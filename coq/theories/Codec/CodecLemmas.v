(* ------------------------------------------------------------------------- *)
(*  BS.Codec.CodecLemmas                                                     *)
(*                                                                           *)
(*  Generic lemmas shared by MeshCodecProofs, ImageCodecProofs and           *)
(*  ProtoCodecProofs: the list helpers of CodecTypes, association lists,     *)
(*  well-typedness of lists of integers / byte strings / field lists.        *)
(* ------------------------------------------------------------------------- *)

From Coq Require Import List NArith Bool Lia.
From BS Require Import Codec.Schema Codec.SchemaProofs Codec.CodecTypes.
Import ListNotations.
Local Open Scope N_scope.

(* ---------------------------------------------------------------------- *)
(*  Generic list helpers of CodecTypes                                     *)
(* ---------------------------------------------------------------------- *)

Lemma rev_append_rev' {A} (l acc : list A) : rev_append l acc = rev l ++ acc.
Proof. apply rev_append_rev. Qed.

Lemma rev_map_acc_spec {A B} (f : A -> B) l : forall acc,
  rev_map_acc f l acc = rev (map f l) ++ acc.
Proof.
  induction l as [|x l IH]; intro acc; cbn [rev_map_acc map rev]; [reflexivity|].
  rewrite IH, <- app_assoc. reflexivity.
Qed.

Lemma tmap_eq {A B} (f : A -> B) l : tmap f l = map f l.
Proof.
  unfold tmap. rewrite rev_append_rev', rev_map_acc_spec, !app_nil_r. apply rev_involutive.
Qed.

Lemma all_some_acc_map {A B} (f : B -> option A) (g : A -> B) :
  forall l, Forall (fun x => f (g x) = Some x) l ->
  forall acc, all_some_acc f (map g l) acc = Some (rev acc ++ l).
Proof.
  induction 1 as [|x l Hx _ IH]; intro acc; cbn [map all_some_acc].
  - rewrite rev_append_rev', !app_nil_r. reflexivity.
  - rewrite Hx, IH. cbn [rev]. rewrite <- app_assoc. reflexivity.
Qed.

Lemma all_some_map {A B} (f : B -> option A) (g : A -> B) l :
  (forall x, f (g x) = Some x) -> all_some f (map g l) = Some l.
Proof.
  intro H. unfold all_some. rewrite all_some_acc_map; [reflexivity|].
  apply Forall_forall; auto.
Qed.

Lemma last_some_single {A} (o : option A) : last_some [o] = o.
Proof. destruct o; reflexivity. Qed.


Lemma assoc_combine_map {K T V} (eqb : K -> K -> bool)
  (eqb_eq : forall a b, eqb a b = true <-> a = b) (g : K -> V) f :
  forall (fields : list (K * T)),
  In f (map fst fields) ->
  assoc eqb f (combine (map fst fields) (map (fun ft => g (fst ft)) fields)) = Some (g f).
Proof.
  induction fields as [|[f' t] fields IH]; cbn [map fst combine assoc In]; [tauto|].
  intro H. destruct (eqb f f') eqn:E.
  - apply eqb_eq in E. subst; reflexivity.
  - destruct H as [->|H]; [|auto].
    assert (X : eqb f f = true) by (apply eqb_eq; reflexivity). rewrite X in E. discriminate.
Qed.

Lemma idx_eqb_eq {K} (idx : K -> N) :
  (forall a b, idx a = idx b -> a = b) ->
  forall a b, (idx a =? idx b) = true <-> a = b.
Proof. intros I a b. rewrite N.eqb_eq. split; [apply I|intros ->; reflexivity]. Qed.

Lemma forallb_map_true {A B} (p : B -> bool) (f : A -> B) l :
  Forall (fun x => p (f x) = true) l -> forallb p (map f l) = true.
Proof. induction 1; cbn [map forallb]; [reflexivity|]. rewrite H, IHForall. reflexivity. Qed.

Lemma len_ok_lt n : n < 2 ^ 64 -> len_ok n = true.
Proof. intro H. unfold len_ok. apply N.ltb_lt. exact H. Qed.

Lemma wt_ints w l :
  Forall (fun x => x < 2 ^ (8 * N.of_nat w)) l -> forallb (wt (TInt w)) (map VInt l) = true.
Proof.
  intro H. apply forallb_map_true. eapply Forall_impl; [|exact H].
  intros x Hx. cbn [wt]. unfold fits. apply N.ltb_lt. exact Hx.
Qed.

Lemma forallb_byte_ok_lt b : Forall (fun x => x < 256) b -> forallb byte_ok b = true.
Proof. intro H. apply forallb_byte_ok. exact H. Qed.

Lemma wt_fields_map {K} (g : K -> val) : forall (fields : list (K * ty)),
  Forall (fun ft => wt (snd ft) (g (fst ft)) = true) fields ->
  wt_fields wt (map snd fields) (map (fun ft => g (fst ft)) fields) = true.
Proof.
  induction 1 as [|[f t] fields H _ IH]; cbn [map wt_fields fst snd] in *; [reflexivity|].
  rewrite H, IH. reflexivity.
Qed.

Lemma wt_bytes_lt b :
  N.of_nat (length b) < 2 ^ 64 -> Forall (fun x => x < 256) b -> wt TBytes (VBytes b) = true.
Proof.
  intros L F. cbn [wt]. rewrite (len_ok_lt _ L), (forallb_byte_ok_lt _ F). reflexivity.
Qed.

(* a u8 sequence (`Vec<u8>` through serde derive) *)
Lemma wt_byte_seq b :
  N.of_nat (length b) < 2 ^ 64 -> Forall (fun x => x < 256) b ->
  wt (TSeq (TInt 1)) (VSeq (tmap VInt b)) = true.
Proof.
  intros L F. rewrite tmap_eq. cbn [wt]. rewrite map_length, (len_ok_lt _ L). cbn [andb].
  apply (wt_ints 1). exact F.
Qed.

Lemma byte_seq_back b :
  all_some (fun x => match x with VInt n => Some n | _ => None end) (map VInt b) = Some b.
Proof. apply all_some_map; reflexivity. Qed.

Lemma wt_int w x : x < 2 ^ (8 * N.of_nat w) -> wt (TInt w) (VInt x) = true.
Proof. intro H. cbn [wt]. unfold fits. apply N.ltb_lt. exact H. Qed.

(* `[T; k]` of integers *)
Lemma wt_int_arr k w v :
  length v = k -> Forall (fun x => x < 2 ^ (8 * N.of_nat w)) v ->
  wt (TArr k (TInt w)) (VArr (map VInt v)) = true.
Proof.
  intros L F. subst k. cbn [wt].
  induction F as [|x v Hx _ IH]; cbn [map length wt_arr]; [reflexivity|].
  rewrite IH. cbn [wt]. unfold fits. rewrite (proj2 (N.ltb_lt _ _) Hx). reflexivity.
Qed.

(* the [idx]-th variant type *)
Fixpoint nth_ty (idx : N) (vs : list ty) : option ty :=
  match vs with
  | [] => None
  | t :: r => if idx =? 0 then Some t else nth_ty (N.pred idx) r
  end.

Lemma wt_variant_nth p : forall vs idx t,
  nth_ty idx vs = Some t -> wt_variant wt vs idx p = wt t p.
Proof.
  induction vs as [|t' vs IH]; intros idx t; cbn [nth_ty wt_variant]; [discriminate|].
  destruct (idx =? 0); [intro H; injection H as ->; reflexivity|apply IH].
Qed.

Lemma wt_enum vs idx p t :
  nth_ty idx vs = Some t -> fits 4 idx = true -> wt t p = true -> wt (TEnum vs) (VEnum idx p) = true.
Proof. intros H F W. cbn [wt]. rewrite F, (wt_variant_nth _ _ _ _ H), W. reflexivity. Qed.

Lemma wt_tuple_nil : wt (TTuple []) (VTuple []) = true.
Proof. reflexivity. Qed.

Lemma wt_tuple_cons t ts v vs :
  wt t v = true -> wt (TTuple ts) (VTuple vs) = true -> wt (TTuple (t :: ts)) (VTuple (v :: vs)) = true.
Proof. intros A B. cbn [wt] in *. cbn [wt_fields]. rewrite A, B. reflexivity. Qed.

(* ---------------------------------------------------------------------- *)
(*  Shape of well-typed values (used to show that the decoders never get   *)
(*  stuck on a value the bincode decoder produced: SchemaProofs.dec_wt)    *)
(* ---------------------------------------------------------------------- *)

Lemma all_some_acc_total {A B} (f : A -> option B) : forall l acc,
  Forall (fun x => exists y, f x = Some y) l -> exists r, all_some_acc f l acc = Some r.
Proof.
  induction l as [|x l IH]; intros acc H; cbn [all_some_acc]; [eauto|].
  inversion H as [|? ? [y Hy] Hl]; subst. rewrite Hy. apply IH, Hl.
Qed.

Lemma all_some_total {A B} (f : A -> option B) l :
  Forall (fun x => exists y, f x = Some y) l -> exists r, all_some f l = Some r.
Proof. apply all_some_acc_total. Qed.

Lemma forallb_true_Forall {A} (p : A -> bool) l : forallb p l = true -> Forall (fun x => p x = true) l.
Proof. intro H. apply Forall_forall. intros x I. rewrite forallb_forall in H. auto. Qed.

Lemma wt_int_inv w x : wt (TInt w) x = true -> exists n, x = VInt n.
Proof. destruct x; cbn [wt]; try discriminate. eauto. Qed.

Lemma wt_arr_Forall (p : val -> bool) : forall k l, wt_arr p k l = true -> Forall (fun x => p x = true) l.
Proof.
  induction k; destruct l; cbn [wt_arr]; try discriminate; [constructor|].
  intro H. apply andb_true_iff in H. destruct H. constructor; auto.
Qed.

Lemma wt_tuple_inv ts y : wt (TTuple ts) y = true -> exists vs, y = VTuple vs /\ wt_fields wt ts vs = true.
Proof. destruct y; cbn [wt]; try discriminate. eauto. Qed.

Lemma wt_fields_cons_inv t ts vs : wt_fields wt (t :: ts) vs = true ->
  exists v vs', vs = v :: vs' /\ wt t v = true /\ wt_fields wt ts vs' = true.
Proof.
  destruct vs as [|v vs']; cbn [wt_fields]; [discriminate|]. intro H.
  apply andb_true_iff in H. destruct H. eauto.
Qed.

Lemma wt_fields_nil_inv vs : wt_fields wt [] vs = true -> vs = [].
Proof. destruct vs; cbn [wt_fields]; [reflexivity|discriminate]. Qed.

Lemma wt_enum_inv vs y : wt (TEnum vs) y = true ->
  exists idx p, y = VEnum idx p /\ wt_variant wt vs idx p = true.
Proof.
  destruct y; cbn [wt]; try discriminate. intro H. apply andb_true_iff in H. destruct H. eauto.
Qed.

Lemma wt_unit_inv y : wt TUnit y = true -> y = VUnit.
Proof. destruct y; cbn [wt]; try discriminate. reflexivity. Qed.

Lemma wt_bytes_inv y : wt TBytes y = true -> exists b, y = VBytes b.
Proof. destruct y; cbn [wt]; try discriminate. eauto. Qed.

Lemma wt_opt_inv t y : wt (TOpt t) y = true ->
  y = VOpt None \/ exists x, y = VOpt (Some x) /\ wt t x = true.
Proof. destruct y as [| | | | |[x|]| | | |]; cbn [wt]; try discriminate; eauto. Qed.

Lemma int_list_total w l :
  Forall (fun x => wt (TInt w) x = true) l ->
  exists r, all_some (fun x => match x with VInt n => Some n | _ => None end) l = Some r.
Proof.
  intro H. apply all_some_total. eapply Forall_impl; [|exact H].
  intros x Hx. destruct (wt_int_inv _ _ Hx) as [n ->]. eauto.
Qed.

Lemma int_seq_total w l :
  wt (TSeq (TInt w)) (VSeq l) = true ->
  exists r, all_some (fun x => match x with VInt n => Some n | _ => None end) l = Some r.
Proof.
  cbn [wt]. intro H. apply andb_true_iff in H. destruct H as [_ H].
  eapply int_list_total, forallb_true_Forall, H.
Qed.

Lemma int_arr_total k w l :
  wt (TArr k (TInt w)) (VArr l) = true ->
  exists r, all_some (fun x => match x with VInt n => Some n | _ => None end) l = Some r.
Proof. cbn [wt]. intro H. eapply int_list_total, wt_arr_Forall, H. Qed.

Lemma wt_variant_inv p : forall vs idx, wt_variant wt vs idx p = true ->
  exists t, nth_ty idx vs = Some t /\ wt t p = true.
Proof.
  induction vs as [|t vs IH]; intros idx; cbn [wt_variant nth_ty]; [discriminate|].
  destruct (idx =? 0); [eauto|apply IH].
Qed.

Lemma nth_ty_lt : forall vs idx t, nth_ty idx vs = Some t -> idx < N.of_nat (length vs).
Proof.
  induction vs as [|t' vs IH]; intros idx t; cbn [nth_ty length]; [discriminate|].
  destruct (N.eqb_spec idx 0) as [->|NZ]; [lia|]. intro H. apply IH in H. lia.
Qed.

Lemma env_typed_gen {K} (eqb : K -> K -> bool) : forall (fields : list (K * ty)) vs,
  wt_fields wt (map snd fields) vs = true ->
  forall f t, assoc eqb f fields = Some t ->
  exists x, assoc eqb f (combine (map fst fields) vs) = Some x /\ wt t x = true.
Proof.
  induction fields as [|[f' t'] fields IH]; intros vs H f t A; cbn [assoc] in A; [discriminate|].
  cbn [map fst snd] in H. apply wt_fields_cons_inv in H. destruct H as (v & vs' & -> & Hv & H).
  cbn [map fst combine assoc]. destruct (eqb f f').
  - injection A as <-. eauto.
  - eapply IH; eauto.
Qed.

Ltac norm_len L :=
  match type of L with _ < ?e => let n := eval vm_compute in e in change e with n in L end.

Ltac inv_wt := repeat match goal with
  | H : wt (TTuple _) ?y = true |- _ => apply wt_tuple_inv in H; destruct H as (? & -> & H)
  | H : wt_fields wt (_ :: _) ?y = true |- _ =>
      let W := fresh "W" in apply wt_fields_cons_inv in H; destruct H as (? & ? & -> & W & H)
  | H : wt_fields wt [] ?y = true |- _ => apply wt_fields_nil_inv in H; subst y
  | H : wt TBytes ?y = true |- _ => apply wt_bytes_inv in H; destruct H as [? ->]
  | H : wt (TInt _) ?y = true |- _ => apply wt_int_inv in H; destruct H as [? ->]
  | H : wt TUnit ?y = true |- _ => apply wt_unit_inv in H; subst y
  end.
