(* ------------------------------------------------------------------------- *)
(*  BS.Codec.ImageCodec                                                      *)
(*                                                                           *)
(*  Executable model of `image_to_bin` / `bin_to_image`                      *)
(*  (/repo/src/networking/assets/image_serde.rs).  Definitions only; proofs  *)
(*  are in ImageCodecProofs.v.  Driven by the GENERATED tables of            *)
(*  BSGen.ImageLayout (fields and wire types of `struct ImageData`, what     *)
(*  initialises each field, which field each argument of `Image::new` is     *)
(*  taken from, both dimension tables).                                      *)
(*                                                                           *)
(*  The texture format is carried as its NAME ON THE WIRE: wgpu-types'       *)
(*  `TextureFormat` serializes as a string (u64 length + name), which        *)
(*  BSGen.FormatNames tabulates from the real serializer for every format.   *)
(*  That the real deserializer maps a name back to the format it came from   *)
(*  is checked by the correspondence runs (every uncompressed format), the   *)
(*  model contributes that distinct formats have distinct names              *)
(*  (ImageCodecProofs.format_names_injective).                               *)
(*                                                                           *)
(*  Not modelled: `Image::new` debug-asserts that the data length is         *)
(*  volume x pixel size (a debug build panics otherwise); the property       *)
(*  quantifies over images that satisfy it, and the codec itself never       *)
(*  looks at the relation between extent and data.                           *)
(* ------------------------------------------------------------------------- *)

From Coq Require Import List NArith Bool.
From BS Require Import Codec.Schema Codec.Lz4 Codec.CodecTypes.
From BSGen Require Import ImageLayout.
Import ListNotations.
Local Open Scope N_scope.

Record image := mkImage {
  width : N;                 (* u32 *)
  height : N;                (* u32 *)
  depth_or_layers : N;       (* u32 *)
  dim : dimension;
  format : list N;           (* wire name of the TextureFormat *)
  data : list N              (* pixel bytes *)
}.

(* ---- tables of the source --------------------------------------------------- *)

Definition ImageData_ty : ty := TTuple (map snd imagedata_fields).

(* `match image.texture_descriptor.dimension { .. }` *)
Definition dim_to_num (d : dimension) : N :=
  match assoc dimension_eqb d dim_enc_table with Some n => n | None => 256 end.

(* `match img.dimensions { 1 => .., .., _ => .. }` *)
Definition num_to_dim (n : N) : dimension :=
  match assoc N.eqb n dim_dec_table with Some d => d | None => dim_dec_default end.

Definition ifield_source (f : ifield) : option isource := assoc ifield_eqb f image_enc_sources.

(* ---- Image -> ImageData ---------------------------------------------------------- *)

Definition ifield_val (i : image) (f : ifield) : val :=
  match ifield_source f with
  | Some ISrcWidth => VInt (width i)
  | Some ISrcHeight => VInt (height i)
  | Some ISrcDepth => VInt (depth_or_layers i)
  | Some ISrcDimension => VInt (dim_to_num (dim i))
  | Some ISrcFormat => VBytes (format i)
  | Some ISrcData => VSeq (tmap VInt (data i))     (* Vec<u8> through serde derive: a seq of u8 *)
  | None => VUnit
  end.

Definition image_data_of (i : image) : val :=
  VTuple (map (fun ft => ifield_val i (fst ft)) imagedata_fields).

(* `Some(compress::compress(&bincode::serialize(&img).ok()?))`; [None] only for an [image] that
   is not a Rust value (bincode cannot fail on an ImageData) *)
Definition image_to_bin (i : image) : option bytes :=
  match enc ImageData_ty (image_data_of i) with
  | Some b => Some (compress b)
  | None => None
  end.

(* ---- ImageData -> Image ------------------------------------------------------------ *)

Definition ienv := list (ifield * val).

(* the field an argument of `Image::new` is taken from *)
Definition arg_val (e : ienv) (s : isource) : option val :=
  match assoc isource_eqb s image_dec_targets with
  | Some f => assoc ifield_eqb f e
  | None => None
  end.

Definition arg_int (e : ienv) (s : isource) : option N :=
  match arg_val e s with Some (VInt n) => Some n | _ => None end.

Definition bytes_of_seq (v : val) : option (list N) :=
  match v with
  | VSeq l => all_some (fun x => match x with VInt n => Some n | _ => None end) l
  | _ => None
  end.

Definition image_of_env (e : ienv) : option image :=
  match arg_int e ISrcWidth, arg_int e ISrcHeight, arg_int e ISrcDepth, arg_int e ISrcDimension,
        arg_val e ISrcFormat, arg_val e ISrcData with
  | Some w, Some h, Some d, Some n, Some (VBytes f), Some dv =>
    match bytes_of_seq dv with
    | Some bs => Some (mkImage w h d (num_to_dim n) f bs)
    | None => None
    end
  | _, _, _, _, _, _ => None
  end.

Definition image_of_data (v : val) : option image :=
  match v with
  | VTuple vs => image_of_env (combine (map fst imagedata_fields) vs)
  | _ => None
  end.

(* [Ok (Some i)]: returns `Some(image)`; [Ok None]: decompression or bincode failed, returns `None`
   (a failed decompression used to panic on `unwrap`: repaired by 1d88107) *)
Definition bin_to_image (bs : bytes) : outcome (option image) :=
  match decompress bs with
  | inl _ => Ok None
  | inr raw =>
    match dec ImageData_ty raw with
    | None => Ok None
    | Some (v, _) => match image_of_data v with Some i => Ok (Some i) | None => Stuck end
    end
  end.

(* ---- stack-safe variants (extracted and run; equal to the above) ----------------------- *)

Definition image_to_bin_fast (i : image) : option bytes :=
  match enc_fast ImageData_ty (image_data_of i) with
  | Some b => Some (compress b)
  | None => None
  end.

Definition bin_to_image_fast (bs : bytes) : outcome (option image) :=
  match decompress bs with
  | inl _ => Ok None
  | inr raw =>
    match dec_fast ImageData_ty raw with
    | None => Ok None
    | Some (v, _) => match image_of_data v with Some i => Ok (Some i) | None => Stuck end
    end
  end.

(* ---- the images the property speaks about -------------------------------------------------- *)

(* [i] is a Rust value: u32 extents, a byte string as format name, bytes as data *)
Definition wf_image (i : image) : Prop :=
  width i < 2 ^ 32 /\ height i < 2 ^ 32 /\ depth_or_layers i < 2 ^ 32
  /\ N.of_nat (length (format i)) < 2 ^ 64 /\ Forall (fun x => x < 256) (format i)
  /\ N.of_nat (length (data i)) < 2 ^ 64 /\ Forall (fun x => x < 256) (data i).
