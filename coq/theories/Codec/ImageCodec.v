(* placeholder, being written *)
