(* ------------------------------------------------------------------------- *)
(*  BS.Codec.SchemaProofs                                                    *)
(*                                                                           *)
(*  Proofs about the wire-schema universe of Schema.v:                       *)
(*   - little-endian helpers: le_bytes_length, le_bytes_bound,               *)
(*     le_value_le_bytes, le_value_bound, le_bytes_le_value;                 *)
(*   - enc_wt / enc_some_wt : well-typed = encodable;                        *)
(*   - dec_enc              : decode (encode v ++ rest) = (v, rest);         *)
(*   - enc_bytes_wf         : the encoder only emits bytes;                  *)
(*   - reenc_same, enc_inj  : corollaries;                                   *)
(*   - enc_dec              : the decoder accepts only canonical encodings   *)
(*                            (and every accepted input re-encodes to the    *)
(*                            prefix that was consumed); dec_wt;             *)
(*   - reflect_roundtrip, reflect_canonical: the ReflectSerializer envelope. *)
(*  No axioms; see the Print Assumptions at the end.                         *)
(* ------------------------------------------------------------------------- *)

From Coq Require Import List NArith ZArith Bool Lia ZifyBool ZifyN.
From BS Require Import Codec.Schema.
Import ListNotations.
Local Open Scope N_scope.

Arguments N.add : simpl never.
Arguments N.sub : simpl never.
Arguments N.mul : simpl never.
Arguments N.div : simpl never.
Arguments N.modulo : simpl never.
Arguments N.pow : simpl never.
Arguments N.eqb : simpl never.
Arguments N.ltb : simpl never.
Arguments N.leb : simpl never.
Arguments N.shiftl : simpl never.
Arguments N.shiftr : simpl never.
Arguments N.land : simpl never.
Arguments N.lor : simpl never.
Arguments N.of_nat : simpl never.
Arguments N.pred : simpl never.
Arguments N.succ : simpl never.
(* div/mod by constants in [lia] goals; local: importers keep their own setting *)
Local Ltac Zify.zify_post_hook ::= Z.div_mod_to_equations.

(* ---------------------------------------------------------------------- *)
(*  Little-endian integers                                                 *)
(* ---------------------------------------------------------------------- *)

Lemma pow8_succ n : 2 ^ (8 * N.of_nat (S n)) = 256 * 2 ^ (8 * N.of_nat n).
Proof.
  replace (8 * N.of_nat (S n)) with (8 + 8 * N.of_nat n) by lia.
  rewrite N.pow_add_r. reflexivity.
Qed.

Lemma le_bytes_length n v : length (le_bytes n v) = n.
Proof. revert v; induction n; intros; cbn [le_bytes length]; auto. Qed.

Lemma le_bytes_bound n v : Forall (fun b => b < 256) (le_bytes n v).
Proof.
  revert v; induction n; intros; cbn [le_bytes]; constructor; auto. lia.
Qed.

Lemma le_value_le_bytes n v : v < 2 ^ (8 * N.of_nat n) -> le_value (le_bytes n v) = v.
Proof.
  revert v; induction n; intros v H.
  - cbn in *. lia.
  - cbn [le_bytes le_value]. rewrite pow8_succ in H.
    rewrite IHn; [lia|].
    generalize dependent (2 ^ (8 * N.of_nat n)). intros. lia.
Qed.

Lemma le_value_bound bs : Forall (fun b => b < 256) bs -> le_value bs < 2 ^ (8 * N.of_nat (length bs)).
Proof.
  induction 1; cbn [le_value length].
  - cbn. lia.
  - rewrite pow8_succ. generalize dependent (2 ^ (8 * N.of_nat (length l))). intros. lia.
Qed.

Lemma le_bytes_le_value bs : Forall (fun b => b < 256) bs -> le_bytes (length bs) (le_value bs) = bs.
Proof.
  induction 1; cbn [le_value length le_bytes]; auto.
  f_equal.
  - lia.
  - etransitivity; [|exact IHForall]. f_equal. lia.
Qed.

(* ---- take / takeN ---- *)

Lemma take_app h rest :
  Forall (fun b => b < 256) h -> take (length h) (h ++ rest) = Some (h, rest).
Proof.
  induction 1; cbn [length app take]; auto.
  unfold byte_ok. replace (x <? 256) with true by lia. rewrite IHForall. reflexivity.
Qed.

Lemma take_inv n : forall bs h r,
  take n bs = Some (h, r) ->
  bs = h ++ r /\ length h = n /\ Forall (fun b => b < 256) h.
Proof.
  induction n; intros bs h r; cbn [take].
  - intros [= <- <-]. auto.
  - destruct bs as [|b bs]; [discriminate|].
    unfold byte_ok. destruct (N.ltb_spec b 256); [|discriminate].
    destruct (take n bs) as [[h' t']|] eqn:E; [|discriminate].
    intros [= <- <-]. destruct (IHn _ _ _ E) as (-> & <- & F).
    cbn [app length]. auto.
Qed.

Lemma takeN_app h rest :
  Forall (fun b => b < 256) h -> takeN (N.of_nat (length h)) (h ++ rest) = Some (h, rest).
Proof.
  induction 1; cbn [length app].
  - destruct rest; reflexivity.
  - cbn [takeN]. replace (N.of_nat (S (length l)) =? 0) with false by lia.
    unfold byte_ok. replace (x <? 256) with true by lia.
    replace (N.pred (N.of_nat (S (length l)))) with (N.of_nat (length l)) by lia.
    rewrite IHForall. reflexivity.
Qed.

Lemma takeN_inv : forall bs k h r,
  takeN k bs = Some (h, r) ->
  bs = h ++ r /\ N.of_nat (length h) = k /\ Forall (fun b => b < 256) h.
Proof.
  induction bs as [|b bs IH]; intros k h r; cbn [takeN].
  - destruct (N.eqb_spec k 0); [|discriminate]. intros [= <- <-]. cbn. auto.
  - destruct (N.eqb_spec k 0).
    + intros [= <- <-]. cbn. auto.
    + unfold byte_ok. destruct (N.ltb_spec b 256); [|discriminate].
      destruct (takeN (N.pred k) bs) as [[h' t']|] eqn:E; [|discriminate].
      intros [= <- <-]. destruct (IH _ _ _ E) as (-> & L & F).
      cbn [app length]. repeat split; auto. lia.
Qed.

(* ---- integers ---- *)

Lemma fits_spec n v : fits n v = true <-> v < 2 ^ (8 * N.of_nat n).
Proof. unfold fits. lia. Qed.

Lemma dec_int_enc n v rest :
  fits n v = true -> dec_int n (le_bytes n v ++ rest) = Some (v, rest).
Proof.
  intros F. unfold dec_int.
  rewrite <- (le_bytes_length n v) at 1.
  rewrite take_app by apply le_bytes_bound.
  rewrite le_value_le_bytes by (apply fits_spec; exact F). reflexivity.
Qed.

Lemma dec_int_inv n bs v r :
  dec_int n bs = Some (v, r) -> fits n v = true /\ bs = le_bytes n v ++ r.
Proof.
  unfold dec_int. destruct (take n bs) as [[h t]|] eqn:E; [|discriminate].
  intros [= <- <-]. destruct (take_inv _ _ _ _ E) as (-> & <- & F). split.
  - apply fits_spec. apply le_value_bound; exact F.
  - rewrite le_bytes_le_value by exact F. reflexivity.
Qed.

(* ---- bool ---- *)

Lemma dec_bool_enc b rest : dec_bool (enc_bool b ++ rest) = Some (b, rest).
Proof. destruct b; reflexivity. Qed.

Lemma dec_bool_inv bs b r : dec_bool bs = Some (b, r) -> bs = enc_bool b ++ r.
Proof.
  destruct bs as [|x bs]; cbn [dec_bool]; [discriminate|].
  destruct (N.eqb_spec x 0); [intros [= <- <-]; subst; reflexivity|].
  destruct (N.eqb_spec x 1); [intros [= <- <-]; subst; reflexivity|discriminate].
Qed.

(* ---- char ---- *)

Ltac case_cmp :=
  match goal with
  | |- context [?a <? ?b] => destruct (N.ltb_spec a b)
  | |- context [?a <=? ?b] => destruct (N.leb_spec a b)
  | |- context [?a =? ?b] => destruct (N.eqb_spec a b)
  end.

Lemma enc_char_ok c : char_ok c = true <-> exists bs, enc_char c = Some bs.
Proof.
  unfold char_ok, enc_char. split.
  - intros H. repeat (case_cmp; try lia; cbn [andb]); eauto.
  - intros [bs H]. revert H. repeat (case_cmp; try lia; cbn [andb]); try discriminate.
Qed.

Lemma enc_char_bound c bs : enc_char c = Some bs -> Forall (fun b => b < 256) bs.
Proof.
  unfold enc_char. repeat (case_cmp; cbn [andb]); try discriminate;
  intros [= <-]; repeat constructor; lia.
Qed.

Lemma enc_char_nonempty c bs : enc_char c = Some bs -> bs <> [].
Proof.
  unfold enc_char. repeat (case_cmp; cbn [andb]); try discriminate;
  intros [= <-]; discriminate.
Qed.

Ltac cmp_step := case_cmp; try lia; cbv iota; cbn [andb].

Lemma dec_char_enc c bs rest :
  enc_char c = Some bs -> dec_char (bs ++ rest) = Some (c, rest).
Proof.
  unfold enc_char. repeat cmp_step; try discriminate; intros [= <-];
  cbn [app dec_char]; unfold utf8_width, second3_ok, second4_ok, is_cont, in_range;
  repeat cmp_step; try reflexivity; do 2 f_equal; lia.
Qed.

Lemma dec_char_inv bs c r :
  dec_char bs = Some (c, r) -> exists pre, enc_char c = Some pre /\ bs = pre ++ r.
Proof.
  destruct bs as [|b0 bs]; cbn [dec_char]; [discriminate|].
  unfold utf8_width. repeat cmp_step; try discriminate.
  - intros [= <- <-]. exists [b0]. split; [|reflexivity].
    unfold enc_char. repeat cmp_step. reflexivity.
  - destruct bs as [|b1 bs]; [discriminate|].
    unfold is_cont, in_range. repeat cmp_step; try discriminate.
    intros [= <- <-]. eexists. split.
    + unfold enc_char. repeat cmp_step. reflexivity.
    + cbn [app]. repeat f_equal; lia.
  - destruct bs as [|b1 [|b2 bs]]; try discriminate.
    unfold second3_ok, is_cont, in_range. repeat cmp_step; try discriminate;
    (intros [= <- <-]; eexists; split;
     [ unfold enc_char; repeat cmp_step; reflexivity
     | cbn [app]; repeat f_equal; lia ]).
  - destruct bs as [|b1 [|b2 [|b3 bs]]]; try discriminate.
    unfold second4_ok, is_cont, in_range. repeat cmp_step; try discriminate;
    (intros [= <- <-]; eexists; split;
     [ unfold enc_char; repeat cmp_step; reflexivity
     | cbn [app]; repeat f_equal; lia ]).
Qed.

Lemma Some_inj {A} (a b : A) : Some a = Some b -> a = b.
Proof. congruence. Qed.

(* [H : Some x = Some y]: replace [y] by [x] everywhere without reducing [x] *)
Ltac some_inv H := apply Some_inj in H; subst.

Arguments le_bytes : simpl never.

(* ---- byte strings ---- *)

Lemma forallb_byte_ok bs : forallb byte_ok bs = true <-> Forall (fun b => b < 256) bs.
Proof.
  induction bs as [|b bs IH]; cbn [forallb].
  - split; auto.
  - rewrite andb_true_iff, IH. unfold byte_ok. split.
    + intros [H1 H2]. constructor; auto. lia.
    + intros H. inversion H; subst. split; auto. lia.
Qed.

Lemma fits8_len_ok n : fits 8 n = len_ok n.
Proof. reflexivity. Qed.

Lemma dec_bytes_enc b bs rest :
  enc_bytes b = Some bs -> dec_bytes (bs ++ rest) = Some (b, rest).
Proof.
  unfold enc_bytes, dec_bytes; cbv zeta.
  destruct (len_ok (N.of_nat (length b))) eqn:L; cbn [andb]; [|discriminate].
  destruct (forallb byte_ok b) eqn:F; [|discriminate].
  intros H; some_inv H. rewrite <- app_assoc.
  rewrite dec_int_enc by (rewrite fits8_len_ok; exact L).
  apply takeN_app. apply forallb_byte_ok; exact F.
Qed.

Lemma dec_bytes_inv bs b r :
  dec_bytes bs = Some (b, r) -> exists pre, enc_bytes b = Some pre /\ bs = pre ++ r.
Proof.
  unfold dec_bytes, enc_bytes; cbv zeta.
  destruct (dec_int 8 bs) as [[n t]|] eqn:E; [|discriminate].
  intros T. apply dec_int_inv in E. destruct E as (F & ->).
  apply takeN_inv in T. destruct T as (-> & <- & B).
  rewrite fits8_len_ok in F. rewrite F.
  apply forallb_byte_ok in B. rewrite B. cbn [andb].
  eexists. split; [reflexivity|]. rewrite app_assoc. reflexivity.
Qed.

Lemma enc_bytes_bound b bs : enc_bytes b = Some bs -> Forall (fun x => x < 256) bs.
Proof.
  unfold enc_bytes; cbv zeta.
  destruct (len_ok (N.of_nat (length b))); cbn [andb]; [|discriminate].
  destruct (forallb byte_ok b) eqn:F; [|discriminate].
  intros H; some_inv H. apply Forall_app. split.
  - apply le_bytes_bound.
  - apply forallb_byte_ok; exact F.
Qed.

(* ---- induction principles for the nested inductives ---- *)

Section TyInd.
  Variable P : ty -> Prop.
  Hypothesis HUnit : P TUnit.
  Hypothesis HInt : forall n, P (TInt n).
  Hypothesis HBool : P TBool.
  Hypothesis HChar : P TChar.
  Hypothesis HBytes : P TBytes.
  Hypothesis HOpt : forall t, P t -> P (TOpt t).
  Hypothesis HSeq : forall t, P t -> P (TSeq t).
  Hypothesis HArr : forall n t, P t -> P (TArr n t).
  Hypothesis HTuple : forall ts, Forall P ts -> P (TTuple ts).
  Hypothesis HEnum : forall vs, Forall P vs -> P (TEnum vs).

  Fixpoint ty_ind' (t : ty) : P t :=
    let all :=
      fix all (l : list ty) : Forall P l :=
        match l with
        | [] => Forall_nil P
        | x :: r => Forall_cons x (ty_ind' x) (all r)
        end in
    match t with
    | TUnit => HUnit
    | TInt n => HInt n
    | TBool => HBool
    | TChar => HChar
    | TBytes => HBytes
    | TOpt t' => HOpt t' (ty_ind' t')
    | TSeq t' => HSeq t' (ty_ind' t')
    | TArr n t' => HArr n t' (ty_ind' t')
    | TTuple ts => HTuple ts (all ts)
    | TEnum vs => HEnum vs (all vs)
    end.
End TyInd.

Section ValInd.
  Variable P : val -> Prop.
  Hypothesis HUnit : P VUnit.
  Hypothesis HInt : forall n, P (VInt n).
  Hypothesis HBool : forall b, P (VBool b).
  Hypothesis HChar : forall c, P (VChar c).
  Hypothesis HBytes : forall bs, P (VBytes bs).
  Hypothesis HNone : P (VOpt None).
  Hypothesis HSome : forall x, P x -> P (VOpt (Some x)).
  Hypothesis HSeq : forall l, Forall P l -> P (VSeq l).
  Hypothesis HArr : forall l, Forall P l -> P (VArr l).
  Hypothesis HTuple : forall l, Forall P l -> P (VTuple l).
  Hypothesis HEnum : forall idx p, P p -> P (VEnum idx p).

  Fixpoint val_ind' (v : val) : P v :=
    let all :=
      fix all (l : list val) : Forall P l :=
        match l with
        | [] => Forall_nil P
        | x :: r => Forall_cons x (val_ind' x) (all r)
        end in
    match v with
    | VUnit => HUnit
    | VInt n => HInt n
    | VBool b => HBool b
    | VChar c => HChar c
    | VBytes bs => HBytes bs
    | VOpt None => HNone
    | VOpt (Some x) => HSome x (val_ind' x)
    | VSeq l => HSeq l (all l)
    | VArr l => HArr l (all l)
    | VTuple l => HTuple l (all l)
    | VEnum idx p => HEnum idx p (val_ind' p)
    end.
End ValInd.

(* ---- small list facts ---- *)

Lemma app_nonempty_l {A} (a b : list A) : a <> [] -> a ++ b <> [].
Proof. destruct a; cbn; congruence. Qed.

Lemma app_nonempty_r {A} (a b : list A) : b <> [] -> a ++ b <> [].
Proof. destruct a; cbn; congruence. Qed.

Lemma le_bytes_nonempty n v : le_bytes (S n) v <> [].
Proof. cbn [le_bytes]. discriminate. Qed.

Lemma nonempty_length {A} (a : list A) : a <> [] -> (1 <= length a)%nat.
Proof. destruct a; cbn; [congruence|lia]. Qed.

Lemma Forall_wf (Q : ty -> Prop) ts :
  Forall (fun t => wf_ty t = true -> Q t) ts -> forallb wf_ty ts = true -> Forall Q ts.
Proof.
  induction 1; cbn [forallb]; intros W; constructor;
  apply andb_true_iff in W; destruct W; auto.
Qed.

(* ---------------------------------------------------------------------- *)
(*  Generic lemmas about the list-level helpers                            *)
(* ---------------------------------------------------------------------- *)

Section ItemLemmas.
  Variable e : val -> option bytes.
  Variable d : bytes -> option (val * bytes).

  (* bytes *)
  Hypothesis e_bound : forall v bs, e v = Some bs -> Forall (fun b => b < 256) bs.

  Lemma enc_list_bound l : forall bs, enc_list e l = Some bs -> Forall (fun b => b < 256) bs.
  Proof.
    induction l as [|x l IH]; cbn [enc_list]; intros bs H.
    - some_inv H. constructor.
    - destruct (e x) as [a|] eqn:Ex; [|discriminate].
      destruct (enc_list e l) as [b|]; [|discriminate].
      some_inv H. apply Forall_app. eauto.
  Qed.

  Lemma enc_arr_bound n : forall l bs, enc_arr e n l = Some bs -> Forall (fun b => b < 256) bs.
  Proof.
    induction n as [|n IH]; intros [|x l] bs H; cbn [enc_arr] in H; try discriminate.
    - some_inv H. constructor.
    - destruct (e x) as [a|] eqn:Ex; [|discriminate].
      destruct (enc_arr e n l) as [b|] eqn:El; [|discriminate].
      some_inv H. apply Forall_app. eauto.
  Qed.
End ItemLemmas.

Section ItemRT.
  Variable e : val -> option bytes.
  Variable d : bytes -> option (val * bytes).
  Hypothesis rt : forall v bs rest, e v = Some bs -> d (bs ++ rest) = Some (v, rest).

  Lemma dec_arr_enc n : forall l bs rest,
    enc_arr e n l = Some bs -> dec_arr d n (bs ++ rest) = Some (l, rest).
  Proof.
    induction n as [|n IH]; intros [|x l] bs rest H; cbn [enc_arr] in H; try discriminate.
    - some_inv H. reflexivity.
    - destruct (e x) as [a|] eqn:Ex; [|discriminate].
      destruct (enc_arr e n l) as [b|] eqn:El; [|discriminate].
      some_inv H. rewrite <- app_assoc. cbn [dec_arr].
      rewrite (rt _ _ _ Ex). rewrite (IH _ _ _ El). reflexivity.
  Qed.

  Hypothesis nonempty : forall v bs, e v = Some bs -> bs <> [].

  Lemma dec_seq_enc l : forall bs rest budget,
    enc_list e l = Some bs ->
    (length (bs ++ rest) <= length budget)%nat ->
    dec_seq d budget (N.of_nat (length l)) (bs ++ rest) = Some (l, rest).
  Proof.
    induction l as [|x l IH]; intros bs rest budget H L; cbn [enc_list] in H.
    - some_inv H. destruct budget; reflexivity.
    - destruct (e x) as [a|] eqn:Ex; [|discriminate].
      destruct (enc_list e l) as [b|] eqn:El; [|discriminate].
      some_inv H. rewrite <- app_assoc in *.
      pose proof (nonempty_length _ (nonempty _ _ Ex)) as La.
      rewrite app_length in L.
      destruct budget as [|b0 budget]; cbn [length] in L; [lia|].
      cbn [dec_seq length].
      replace (N.of_nat (S (length l)) =? 0) with false by lia.
      replace (N.pred (N.of_nat (S (length l)))) with (N.of_nat (length l)) by lia.
      rewrite (rt _ _ _ Ex). rewrite (IH _ _ _ eq_refl) by lia. reflexivity.
  Qed.
End ItemRT.

Section ItemInv.
  Variable e : val -> option bytes.
  Variable d : bytes -> option (val * bytes).
  Hypothesis inv : forall bs v r, d bs = Some (v, r) -> exists pre, e v = Some pre /\ bs = pre ++ r.

  Lemma dec_arr_inv n : forall bs l r,
    dec_arr d n bs = Some (l, r) -> exists pre, enc_arr e n l = Some pre /\ bs = pre ++ r.
  Proof.
    induction n as [|n IH]; intros bs l r H; cbn [dec_arr] in H.
    - injection H as <- <-. exists []. auto.
    - destruct (d bs) as [[x t]|] eqn:Ed; [|discriminate].
      destruct (dec_arr d n t) as [[xs t']|] eqn:El; [|discriminate].
      injection H as <- <-.
      destruct (inv _ _ _ Ed) as (a & Ea & ->).
      destruct (IH _ _ _ El) as (b & Eb & ->).
      exists (a ++ b). cbn [enc_arr]. rewrite Ea, Eb. split; [reflexivity|].
      rewrite app_assoc. reflexivity.
  Qed.

  Lemma dec_seq_inv budget : forall k bs l r,
    dec_seq d budget k bs = Some (l, r) ->
    exists pre, enc_list e l = Some pre /\ bs = pre ++ r /\ N.of_nat (length l) = k.
  Proof.
    induction budget as [|b0 budget IH]; intros k bs l r H; cbn [dec_seq] in H.
    - destruct (N.eqb_spec k 0); [|discriminate].
      injection H as <- <-. exists []. cbn. auto.
    - destruct (N.eqb_spec k 0).
      + injection H as <- <-. exists []. cbn. auto.
      + destruct (d bs) as [[x t]|] eqn:Ed; [|discriminate].
        destruct (dec_seq d budget (N.pred k) t) as [[xs t']|] eqn:El; [|discriminate].
        injection H as <- <-.
        destruct (inv _ _ _ Ed) as (a & Ea & ->).
        destruct (IH _ _ _ _ El) as (b & Eb & -> & Lk).
        exists (a ++ b). cbn [enc_list length]. rewrite Ea, Eb.
        repeat split; [rewrite app_assoc; reflexivity | lia].
  Qed.
End ItemInv.

Section FieldLemmas.
  Variable e : ty -> val -> option bytes.
  Variable d : ty -> bytes -> option (val * bytes).

  Lemma enc_fields_bound ts :
    Forall (fun t => forall v bs, e t v = Some bs -> Forall (fun b => b < 256) bs) ts ->
    forall vs bs, enc_fields e ts vs = Some bs -> Forall (fun b => b < 256) bs.
  Proof.
    induction 1 as [|t ts Ht _ IH]; intros [|v vs] bs E; cbn [enc_fields] in E; try discriminate.
    - some_inv E. constructor.
    - destruct (e t v) as [a|] eqn:Ea; [|discriminate].
      destruct (enc_fields e ts vs) as [b|] eqn:Eb; [|discriminate].
      some_inv E. apply Forall_app. eauto.
  Qed.

  Lemma enc_variant_bound ts :
    Forall (fun t => forall v bs, e t v = Some bs -> Forall (fun b => b < 256) bs) ts ->
    forall idx p bs, enc_variant e ts idx p = Some bs -> Forall (fun b => b < 256) bs.
  Proof.
    induction 1 as [|t ts Ht _ IH]; intros idx p bs E; cbn [enc_variant] in E; [discriminate|].
    destruct (idx =? 0); eauto.
  Qed.

  Lemma dec_fields_enc ts :
    Forall (fun t => forall v bs rest, e t v = Some bs -> d t (bs ++ rest) = Some (v, rest)) ts ->
    forall vs bs rest, enc_fields e ts vs = Some bs -> dec_fields d ts (bs ++ rest) = Some (vs, rest).
  Proof.
    induction 1 as [|t ts Ht _ IH]; intros [|v vs] bs rest E; cbn [enc_fields] in E; try discriminate.
    - some_inv E. reflexivity.
    - destruct (e t v) as [a|] eqn:Ea; [|discriminate].
      destruct (enc_fields e ts vs) as [b|] eqn:Eb; [|discriminate].
      some_inv E. rewrite <- app_assoc. cbn [dec_fields].
      rewrite (Ht _ _ _ Ea). rewrite (IH _ _ _ Eb). reflexivity.
  Qed.

  Lemma dec_variant_enc ts :
    Forall (fun t => forall v bs rest, e t v = Some bs -> d t (bs ++ rest) = Some (v, rest)) ts ->
    forall idx p bs rest, enc_variant e ts idx p = Some bs ->
      dec_variant d ts idx (bs ++ rest) = Some (p, rest).
  Proof.
    induction 1 as [|t ts Ht _ IH]; intros idx p bs rest E; cbn [enc_variant] in E; [discriminate|].
    cbn [dec_variant]. destruct (idx =? 0); eauto.
  Qed.

  Lemma dec_fields_inv ts :
    Forall (fun t => forall bs v r, d t bs = Some (v, r) -> exists pre, e t v = Some pre /\ bs = pre ++ r) ts ->
    forall bs vs r, dec_fields d ts bs = Some (vs, r) ->
      exists pre, enc_fields e ts vs = Some pre /\ bs = pre ++ r.
  Proof.
    induction 1 as [|t ts Ht _ IH]; intros bs vs r H; cbn [dec_fields] in H.
    - injection H as <- <-. exists []. auto.
    - destruct (d t bs) as [[x t1]|] eqn:Ed; [|discriminate].
      destruct (dec_fields d ts t1) as [[xs t2]|] eqn:El; [|discriminate].
      injection H as <- <-.
      destruct (Ht _ _ _ Ed) as (a & Ea & ->).
      destruct (IH _ _ _ El) as (b & Eb & ->).
      exists (a ++ b). cbn [enc_fields]. rewrite Ea, Eb. split; [reflexivity|].
      rewrite app_assoc. reflexivity.
  Qed.

  Lemma dec_variant_inv ts :
    Forall (fun t => forall bs v r, d t bs = Some (v, r) -> exists pre, e t v = Some pre /\ bs = pre ++ r) ts ->
    forall idx bs p r, dec_variant d ts idx bs = Some (p, r) ->
      exists pre, enc_variant e ts idx p = Some pre /\ bs = pre ++ r.
  Proof.
    induction 1 as [|t ts Ht _ IH]; intros idx bs p r H; cbn [dec_variant] in H; [discriminate|].
    cbn [enc_variant]. destruct (idx =? 0); eauto.
  Qed.
End FieldLemmas.

(* ---- all emitted bytes are bytes ---- *)

Theorem enc_bytes_wf : forall t v bs, enc t v = Some bs -> Forall (fun b => (b < 256)%N) bs.
Proof.
  induction t using ty_ind'; intros v bs E; destruct v; cbn [enc] in E; try discriminate.
  - some_inv E. constructor.
  - unfold enc_int in E. destruct (fits n n0); [|discriminate]. some_inv E. apply le_bytes_bound.
  - some_inv E. destruct b; repeat constructor.
  - eapply enc_char_bound; eauto.
  - eapply enc_bytes_bound; eauto.
  - destruct o as [x|].
    + destruct (enc t x) as [b|] eqn:Ex; [|discriminate]. some_inv E.
      constructor; [lia|eauto].
    + some_inv E. repeat constructor.
  - cbv zeta in E. destruct (len_ok _); [|discriminate].
    destruct (enc_list (enc t) l) as [b|] eqn:El; [|discriminate]. some_inv E.
    apply Forall_app. split; [apply le_bytes_bound|].
    eapply enc_list_bound; eauto.
  - eapply enc_arr_bound; eauto.
  - eapply enc_fields_bound; eauto.
  - destruct (fits 4 idx); [|discriminate].
    destruct (enc_variant enc vs idx v) as [b|] eqn:Ev; [|discriminate]. some_inv E.
    apply Forall_app. split; [apply le_bytes_bound|].
    eapply enc_variant_bound; eauto.
Qed.

(* ---- sized types produce at least one byte ---- *)

Lemma enc_sized : forall t, sized t = true -> forall v bs, enc t v = Some bs -> bs <> [].
Proof.
  induction t using ty_ind'; intros S v bs E; cbn [sized] in S; try discriminate;
  destruct v; cbn [enc] in E; try discriminate.
  - destruct n; [discriminate|]. unfold enc_int in E.
    destruct (fits _ _); [|discriminate]. some_inv E. apply le_bytes_nonempty.
  - some_inv E. discriminate.
  - eapply enc_char_nonempty; eauto.
  - unfold enc_bytes in E. destruct (_ && _); [|discriminate]. some_inv E.
    apply app_nonempty_l, le_bytes_nonempty.
  - destruct o as [x|].
    + destruct (enc t x); [|discriminate]. some_inv E. discriminate.
    + some_inv E. discriminate.
  - cbv zeta in E. destruct (len_ok _); [|discriminate].
    destruct (enc_list _ _); [|discriminate]. some_inv E.
    apply app_nonempty_l, le_bytes_nonempty.
  - destruct n; [discriminate|]. destruct l as [|x l]; cbn [enc_arr] in E; [discriminate|].
    destruct (enc t x) as [a|] eqn:Ex; [|discriminate].
    destruct (enc_arr _ _ _); [|discriminate]. some_inv E.
    apply app_nonempty_l. eauto.
  - revert l bs E. induction H as [|t ts Ht _ IH]; intros vs bs E; cbn [existsb] in S; [discriminate|].
    destruct vs as [|v vs]; cbn [enc_fields] in E; [discriminate|].
    destruct (enc t v) as [a|] eqn:Ea; [|discriminate].
    destruct (enc_fields enc ts vs) as [b|] eqn:Eb; [|discriminate]. some_inv E.
    apply orb_true_iff in S. destruct S as [S|S].
    + apply app_nonempty_l. eauto.
    + apply app_nonempty_r. eauto.
  - destruct (fits 4 idx); [|discriminate].
    destruct (enc_variant _ _ _ _); [|discriminate]. some_inv E.
    apply app_nonempty_l, le_bytes_nonempty.
Qed.

(* ---- decode after encode ---- *)

Theorem dec_enc : forall t v bs rest,
  wf_ty t = true -> enc t v = Some bs -> dec t (bs ++ rest) = Some (v, rest).
Proof.
  intros t v bs rest W; revert v bs rest.
  induction t using ty_ind'; intros v bs rest E; cbn [wf_ty] in W;
  destruct v; cbn [enc] in E; try discriminate; cbn [dec].
  - some_inv E. reflexivity.
  - unfold enc_int in E. destruct (fits n n0) eqn:F; [|discriminate]. some_inv E.
    rewrite dec_int_enc by exact F. reflexivity.
  - some_inv E. rewrite dec_bool_enc. reflexivity.
  - rewrite (dec_char_enc _ _ _ E). reflexivity.
  - rewrite (dec_bytes_enc _ _ _ E). reflexivity.
  - destruct o as [x|].
    + destruct (enc t x) as [b|] eqn:Ex; [|discriminate]. some_inv E.
      cbn [app]. change (1 =? 0) with false. change (1 =? 1) with true. cbv iota.
      rewrite (IHt W _ _ _ Ex). reflexivity.
    + some_inv E. reflexivity.
  - cbv zeta in E. destruct (len_ok _) eqn:L; [|discriminate].
    destruct (enc_list (enc t) l) as [b|] eqn:El; [|discriminate]. some_inv E.
    apply andb_true_iff in W. destruct W as [S W].
    rewrite <- app_assoc. rewrite dec_int_enc by (rewrite fits8_len_ok; exact L).
    rewrite (dec_seq_enc (enc t) (dec t) (IHt W) (enc_sized t S) _ _ _ _ El) by lia.
    reflexivity.
  - rewrite (dec_arr_enc (enc t) (dec t) (IHt W) _ _ _ _ E). reflexivity.
  - rewrite (dec_fields_enc enc dec ts (Forall_wf _ _ H W) _ _ _ E). reflexivity.
  - destruct (fits 4 idx) eqn:F; [|discriminate].
    destruct (enc_variant enc vs idx v) as [b|] eqn:Ev; [|discriminate]. some_inv E.
    rewrite <- app_assoc. rewrite dec_int_enc by exact F.
    rewrite (dec_variant_enc enc dec vs (Forall_wf _ _ H W) _ _ _ _ Ev). reflexivity.
Qed.

Corollary reenc_same : forall t v bs rest v' rest',
  wf_ty t = true -> enc t v = Some bs -> dec t (bs ++ rest) = Some (v', rest') -> enc t v' = Some bs.
Proof.
  intros t v bs rest v' rest' W E D.
  rewrite (dec_enc _ _ _ rest W E) in D. injection D as <- <-. exact E.
Qed.

Corollary enc_inj : forall t v1 v2 bs,
  wf_ty t = true -> enc t v1 = Some bs -> enc t v2 = Some bs -> v1 = v2.
Proof.
  intros t v1 v2 bs W E1 E2.
  pose proof (dec_enc _ _ _ [] W E1) as D1.
  pose proof (dec_enc _ _ _ [] W E2) as D2.
  congruence.
Qed.

(* ---- the decoder accepts only canonical encodings ---- *)

Lemma enc_dec_gen : forall t bs v rest,
  dec t bs = Some (v, rest) -> exists pre, enc t v = Some pre /\ bs = pre ++ rest.
Proof.
  induction t using ty_ind'; intros bs v rest D; cbn [dec] in D.
  - injection D as <- <-. exists []. auto.
  - destruct (dec_int n bs) as [[x r]|] eqn:E; [|discriminate]. injection D as <- <-.
    apply dec_int_inv in E. destruct E as (F & ->).
    eexists. cbn [enc]. unfold enc_int. rewrite F. auto.
  - destruct (dec_bool bs) as [[x r]|] eqn:E; [|discriminate]. injection D as <- <-.
    apply dec_bool_inv in E. subst. eexists. cbn [enc]. auto.
  - destruct (dec_char bs) as [[x r]|] eqn:E; [|discriminate]. injection D as <- <-.
    apply dec_char_inv in E. exact E.
  - destruct (dec_bytes bs) as [[x r]|] eqn:E; [|discriminate]. injection D as <- <-.
    apply dec_bytes_inv in E. exact E.
  - destruct bs as [|tag r]; [discriminate|].
    destruct (N.eqb_spec tag 0).
    + injection D as <- <-. subst. exists [0]. auto.
    + destruct (N.eqb_spec tag 1); [|discriminate].
      destruct (dec t r) as [[x r']|] eqn:E; [|discriminate]. injection D as <- <-.
      destruct (IHt _ _ _ E) as (pre & Ep & ->). subst.
      exists (1 :: pre). cbn [enc]. rewrite Ep. auto.
  - destruct (dec_int 8 bs) as [[k r]|] eqn:E; [|discriminate].
    destruct (dec_seq (dec t) r k r) as [[l r']|] eqn:El; [|discriminate]. injection D as <- <-.
    apply dec_int_inv in E. destruct E as (F & ->).
    destruct (dec_seq_inv (enc t) (dec t) IHt _ _ _ _ _ El) as (pre & Ep & -> & Lk).
    cbn [enc]. cbv zeta. rewrite Lk, <- fits8_len_ok, F, Ep.
    eexists. split; [reflexivity|]. rewrite app_assoc. reflexivity.
  - destruct (dec_arr (dec t) n bs) as [[l r]|] eqn:E; [|discriminate]. injection D as <- <-.
    exact (dec_arr_inv (enc t) (dec t) IHt _ _ _ _ E).
  - destruct (dec_fields dec ts bs) as [[l r]|] eqn:E; [|discriminate]. injection D as <- <-.
    exact (dec_fields_inv enc dec ts H _ _ _ E).
  - destruct (dec_int 4 bs) as [[idx r]|] eqn:E; [|discriminate].
    destruct (dec_variant dec vs idx r) as [[p r']|] eqn:Ev; [|discriminate]. injection D as <- <-.
    apply dec_int_inv in E. destruct E as (F & ->).
    destruct (dec_variant_inv enc dec vs H _ _ _ _ Ev) as (pre & Ep & ->).
    cbn [enc]. rewrite F, Ep.
    eexists. split; [reflexivity|]. rewrite app_assoc. reflexivity.
Qed.

Theorem enc_dec : forall t bs v rest,
  dec t bs = Some (v, rest) -> wf_ty t = true -> exists pre, enc t v = Some pre /\ bs = pre ++ rest.
Proof. intros. eapply enc_dec_gen; eauto. Qed.

(* ---- well-typed values are exactly the encodable ones ---- *)

Definition encodable {A} (e : A -> option bytes) (v : A) : Prop := exists bs, e v = Some bs.

Section WtItem.
  Variable w : val -> bool.
  Variable e : val -> option bytes.

  Section Fwd.
    Hypothesis we : forall v, w v = true -> encodable e v.

    Lemma wt_enc_list l : forallb w l = true -> encodable (enc_list e) l.
    Proof.
      induction l as [|x l IH]; cbn [forallb]; intros H.
      - exists []. reflexivity.
      - apply andb_true_iff in H. destruct H as [Hx Hl].
        destruct (we _ Hx) as [a Ea]. destruct (IH Hl) as [b Eb].
        exists (a ++ b). cbn [enc_list]. rewrite Ea, Eb. reflexivity.
    Qed.

    Lemma wt_enc_arr n : forall l, wt_arr w n l = true -> encodable (enc_arr e n) l.
    Proof.
      induction n as [|n IH]; intros [|x l] H; cbn [wt_arr] in H; try discriminate.
      - exists []. reflexivity.
      - apply andb_true_iff in H. destruct H as [Hx Hl].
        destruct (we _ Hx) as [a Ea]. destruct (IH _ Hl) as [b Eb].
        exists (a ++ b). cbn [enc_arr]. rewrite Ea, Eb. reflexivity.
    Qed.
  End Fwd.

  Section Bwd.
    Hypothesis ew : forall v, encodable e v -> w v = true.

    Lemma enc_list_wt l : encodable (enc_list e) l -> forallb w l = true.
    Proof.
      induction l as [|x l IH]; cbn [forallb]; intros [bs H]; auto.
      cbn [enc_list] in H.
      destruct (e x) as [a|] eqn:Ea; [|discriminate].
      destruct (enc_list e l) as [b|] eqn:Eb; [|discriminate].
      rewrite ew by (exists a; exact Ea). rewrite IH by (exists b; exact Eb). reflexivity.
    Qed.

    Lemma enc_arr_wt n : forall l, encodable (enc_arr e n) l -> wt_arr w n l = true.
    Proof.
      induction n as [|n IH]; intros [|x l] [bs H]; cbn [enc_arr] in H; try discriminate; cbn [wt_arr]; auto.
      destruct (e x) as [a|] eqn:Ea; [|discriminate].
      destruct (enc_arr e n l) as [b|] eqn:Eb; [|discriminate].
      rewrite ew by (exists a; exact Ea). rewrite IH by (exists b; exact Eb). reflexivity.
    Qed.
  End Bwd.
End WtItem.

Section WtField.
  Variable w : ty -> val -> bool.
  Variable e : ty -> val -> option bytes.

  Lemma wt_enc_fields ts :
    Forall (fun t => forall v, w t v = true -> encodable (e t) v) ts ->
    forall vs, wt_fields w ts vs = true -> encodable (enc_fields e ts) vs.
  Proof.
    induction 1 as [|t ts Ht _ IH]; intros [|v vs] H; cbn [wt_fields] in H; try discriminate.
    - exists []. reflexivity.
    - apply andb_true_iff in H. destruct H as [Hx Hl].
      destruct (Ht _ Hx) as [a Ea]. destruct (IH _ Hl) as [b Eb].
      exists (a ++ b). cbn [enc_fields]. rewrite Ea, Eb. reflexivity.
  Qed.

  Lemma wt_enc_variant ts :
    Forall (fun t => forall v, w t v = true -> encodable (e t) v) ts ->
    forall idx p, wt_variant w ts idx p = true -> encodable (enc_variant e ts idx) p.
  Proof.
    induction 1 as [|t ts Ht _ IH]; intros idx p H; cbn [wt_variant] in H; [discriminate|].
    unfold encodable. cbn [enc_variant]. destruct (idx =? 0).
    - apply Ht; exact H.
    - apply IH; exact H.
  Qed.

  Lemma enc_fields_wt ts :
    Forall (fun t => forall v, encodable (e t) v -> w t v = true) ts ->
    forall vs, encodable (enc_fields e ts) vs -> wt_fields w ts vs = true.
  Proof.
    induction 1 as [|t ts Ht _ IH]; intros [|v vs] [bs H]; cbn [enc_fields] in H; try discriminate;
    cbn [wt_fields]; auto.
    destruct (e t v) as [a|] eqn:Ea; [|discriminate].
    destruct (enc_fields e ts vs) as [b|] eqn:Eb; [|discriminate].
    rewrite Ht by (exists a; exact Ea). rewrite IH by (exists b; exact Eb). reflexivity.
  Qed.

  Lemma enc_variant_wt ts :
    Forall (fun t => forall v, encodable (e t) v -> w t v = true) ts ->
    forall idx p, encodable (enc_variant e ts idx) p -> wt_variant w ts idx p = true.
  Proof.
    induction 1 as [|t ts Ht _ IH]; intros idx p [bs H]; cbn [enc_variant] in H; [discriminate|].
    cbn [wt_variant]. destruct (idx =? 0).
    - apply Ht. exists bs; exact H.
    - apply IH. exists bs; exact H.
  Qed.
End WtField.

Lemma enc_wt_gen : forall t v, wt t v = true -> exists bs, enc t v = Some bs.
Proof.
  induction t using ty_ind'; intros v Hw; destruct v; cbn [wt] in Hw; try discriminate; cbn [enc].
  - eauto.
  - unfold enc_int. rewrite Hw. eauto.
  - eauto.
  - apply enc_char_ok; exact Hw.
  - unfold enc_bytes; cbv zeta. rewrite Hw. eauto.
  - destruct o as [x|]; [|eauto].
    destruct (IHt _ Hw) as [b ->]. eauto.
  - cbv zeta. apply andb_true_iff in Hw. destruct Hw as [L F]. rewrite L.
    destruct (wt_enc_list (wt t) (enc t) IHt _ F) as [b ->]. eauto.
  - exact (wt_enc_arr (wt t) (enc t) IHt _ _ Hw).
  - exact (wt_enc_fields wt enc ts H _ Hw).
  - apply andb_true_iff in Hw. destruct Hw as [F V]. rewrite F.
    destruct (wt_enc_variant wt enc vs H _ _ V) as [b ->]. eauto.
Qed.

Theorem enc_wt : forall t v, wf_ty t = true -> wt t v = true -> exists bs, enc t v = Some bs.
Proof. intros t v _. apply enc_wt_gen. Qed.

(* the converse: only well-typed values are encodable *)
Theorem enc_some_wt : forall t v bs, enc t v = Some bs -> wt t v = true.
Proof.
  intros t v bs E. assert (X : encodable (enc t) v) by (exists bs; exact E). clear bs E.
  revert v X. induction t using ty_ind'; intros v [bs E]; destruct v; cbn [enc] in E;
  try discriminate; cbn [wt]; auto.
  - unfold enc_int in E. destruct (fits n n0); [reflexivity|discriminate].
  - apply enc_char_ok. eauto.
  - unfold enc_bytes in E; cbv zeta in E. destruct (_ && _); [reflexivity|discriminate].
  - destruct o as [x|]; [|reflexivity].
    destruct (enc t x) as [b|] eqn:Ex; [|discriminate]. apply IHt. exists b; exact Ex.
  - cbv zeta in E. destruct (len_ok _); [|discriminate]. cbn [andb].
    destruct (enc_list (enc t) l) as [b|] eqn:El; [|discriminate].
    apply (enc_list_wt (wt t) (enc t) IHt). exists b; exact El.
  - apply (enc_arr_wt (wt t) (enc t) IHt). exists bs; exact E.
  - apply (enc_fields_wt wt enc ts H). exists bs; exact E.
  - destruct (fits 4 idx); [|discriminate]. cbn [andb].
    destruct (enc_variant enc vs idx v) as [b|] eqn:Ev; [|discriminate].
    apply (enc_variant_wt wt enc vs H). exists b; exact Ev.
Qed.

(* every decoded value is well typed *)
Corollary dec_wt : forall t bs v rest, dec t bs = Some (v, rest) -> wt t v = true.
Proof.
  intros t bs v rest D. destruct (enc_dec_gen _ _ _ _ D) as (pre & E & _).
  eapply enc_some_wt; eauto.
Qed.

(* ---- reflect envelope ---- *)

Theorem reflect_roundtrip : forall lookup path t v bs rest,
  lookup path = Some t -> wf_ty t = true -> Forall (fun b => (b < 256)%N) path ->
  enc_reflect path t v = Some bs -> dec_reflect lookup (bs ++ rest) = Some (path, v, rest).
Proof.
  intros lookup path t v bs rest Lk W _ E. unfold enc_reflect in E.
  destruct (enc_bytes path) as [p|] eqn:Ep; [|discriminate].
  destruct (enc t v) as [b|] eqn:Eb; [|discriminate]. some_inv E.
  unfold dec_reflect. rewrite <- !app_assoc.
  rewrite dec_int_enc by reflexivity. change (1 =? 1) with true. cbv iota.
  rewrite (dec_bytes_enc _ _ _ Ep). rewrite Lk. rewrite (dec_enc _ _ _ _ W Eb). reflexivity.
Qed.

Theorem reflect_canonical : forall lookup bs path v rest,
  dec_reflect lookup bs = Some (path, v, rest) ->
  exists t pre, lookup path = Some t /\ enc_reflect path t v = Some pre /\ bs = pre ++ rest.
Proof.
  intros lookup bs path v rest D. unfold dec_reflect in D.
  destruct (dec_int 8 bs) as [[c r]|] eqn:Ec; [|discriminate].
  destruct (N.eqb_spec c 1); [|discriminate]. subst c.
  destruct (dec_bytes r) as [[p r']|] eqn:Ep; [|discriminate].
  destruct (lookup p) as [t|] eqn:Lk; [|discriminate].
  destruct (dec t r') as [[x r'']|] eqn:Ed; [|discriminate].
  injection D as <- <- <-.
  apply dec_int_inv in Ec. destruct Ec as (_ & ->).
  apply dec_bytes_inv in Ep. destruct Ep as (pp & Epp & ->).
  apply enc_dec_gen in Ed. destruct Ed as (pb & Epb & ->).
  exists t, (le_bytes 8 1 ++ pp ++ pb). split; [exact Lk|]. split.
  - unfold enc_reflect. rewrite Epp, Epb. reflexivity.
  - rewrite <- !app_assoc. reflexivity.
Qed.

(* ---------------------------------------------------------------------- *)
(*  The stack-safe variants compute the same functions                     *)
(* ---------------------------------------------------------------------- *)

Lemma lenN_acc_spec {A} (l : list A) : forall acc, lenN_acc l acc = acc + N.of_nat (length l).
Proof.
  induction l as [|x l IH]; intros acc; cbn [lenN_acc length].
  - lia.
  - rewrite IH. lia.
Qed.

Lemma lenN_spec {A} (l : list A) : lenN l = N.of_nat (length l).
Proof. unfold lenN. rewrite lenN_acc_spec. lia. Qed.

Lemma pos_split_spec k : forall p,
  pos_split k p = (Npos p mod 2 ^ N.of_nat k, Npos p / 2 ^ N.of_nat k).
Proof.
  induction k as [|k IH]; intros p.
  - cbn [pos_split]. change (2 ^ N.of_nat 0) with 1. f_equal; lia.
  - replace (2 ^ N.of_nat (S k)) with (2 * 2 ^ N.of_nat k)
      by (rewrite Nat2N.inj_succ, N.pow_succ_r'; reflexivity).
    assert (HP : 2 ^ N.of_nat k <> 0) by (apply N.pow_nonzero; discriminate).
    cbn [pos_split]. destruct p as [p|p|].
    + rewrite IH. rewrite N.succ_double_spec.
      change (N.pos p~1) with (2 * N.pos p + 1).
      generalize dependent (2 ^ N.of_nat k). intros P _ HP.
      pose proof (N.div_mod (N.pos p) P HP) as E.
      pose proof (N.mod_lt (N.pos p) P HP) as L.
      f_equal.
      * apply N.mod_unique with (q := N.pos p / P); lia.
      * apply N.div_unique with (r := 2 * (N.pos p mod P) + 1); lia.
    + rewrite IH. rewrite N.double_spec.
      change (N.pos p~0) with (2 * N.pos p).
      rewrite N.mul_mod_distr_l, N.div_mul_cancel_l by (auto; discriminate). reflexivity.
    + rewrite N.mod_small, N.div_small by lia. reflexivity.
Qed.

Lemma split_byte_spec v : split_byte v = (v mod 256, v / 256).
Proof.
  destruct v as [|p]; [reflexivity|]. exact (pos_split_spec 8 p).
Qed.

Lemma le_push_spec n : forall v acc, le_push n v acc = rev (le_bytes n v) ++ acc.
Proof.
  induction n as [|n IH]; intros v acc; [reflexivity|].
  change (le_bytes (S n) v) with (v mod 256 :: le_bytes n (v / 256)).
  cbn [le_push rev]. rewrite split_byte_spec. rewrite IH, <- app_assoc. reflexivity.
Qed.

Lemma push_checked_spec bs : forall acc,
  push_checked bs acc = if forallb byte_ok bs then Some (rev bs ++ acc) else None.
Proof.
  induction bs as [|b bs IH]; intros acc; cbn [push_checked forallb rev]; [reflexivity|].
  destruct (byte_ok b); cbn [andb]; [|reflexivity].
  rewrite IH, <- app_assoc. reflexivity.
Qed.

(* what an accumulator-passing encoder must do, given the result of the specification *)
Definition into (o : option bytes) (acc : bytes) : option bytes :=
  match o with
  | Some bs => Some (rev bs ++ acc)
  | None => None
  end.

Lemma enc_bytes_into_spec bs acc : enc_bytes_into bs acc = into (enc_bytes bs) acc.
Proof.
  unfold enc_bytes_into, enc_bytes; cbv zeta. rewrite lenN_spec.
  destruct (len_ok _); cbn [andb]; [|reflexivity].
  rewrite push_checked_spec. destruct (forallb byte_ok bs); [|reflexivity].
  cbn [into]. rewrite le_push_spec, rev_app_distr, <- app_assoc. reflexivity.
Qed.

Section IntoItem.
  Variable ei : val -> bytes -> option bytes.
  Variable e : val -> option bytes.
  Hypothesis ei_spec : forall v acc, ei v acc = into (e v) acc.

  Lemma enc_list_into_spec l : forall acc, enc_list_into ei l acc = into (enc_list e l) acc.
  Proof.
    induction l as [|x l IH]; intros acc; cbn [enc_list_into enc_list]; [reflexivity|].
    rewrite ei_spec. destruct (e x) as [a|]; cbn [into]; [|reflexivity].
    rewrite IH. destruct (enc_list e l) as [b|]; cbn [into]; [|reflexivity].
    rewrite rev_app_distr, <- app_assoc. reflexivity.
  Qed.

  Lemma enc_arr_into_spec n : forall l acc, enc_arr_into ei n l acc = into (enc_arr e n l) acc.
  Proof.
    induction n as [|n IH]; intros [|x l] acc; cbn [enc_arr_into enc_arr]; try reflexivity.
    rewrite ei_spec. destruct (e x) as [a|]; cbn [into]; [|reflexivity].
    rewrite IH. destruct (enc_arr e n l) as [b|]; cbn [into]; [|reflexivity].
    rewrite rev_app_distr, <- app_assoc. reflexivity.
  Qed.
End IntoItem.

Section IntoField.
  Variable ef : ty -> val -> bytes -> option bytes.
  Variable e : ty -> val -> option bytes.

  Lemma enc_fields_into_spec ts :
    Forall (fun t => forall v acc, ef t v acc = into (e t v) acc) ts ->
    forall vs acc, enc_fields_into ef ts vs acc = into (enc_fields e ts vs) acc.
  Proof.
    induction 1 as [|t ts Ht _ IH]; intros [|v vs] acc; cbn [enc_fields_into enc_fields]; try reflexivity.
    rewrite Ht. destruct (e t v) as [a|]; cbn [into]; [|reflexivity].
    rewrite IH. destruct (enc_fields e ts vs) as [b|]; cbn [into]; [|reflexivity].
    rewrite rev_app_distr, <- app_assoc. reflexivity.
  Qed.

  Lemma enc_variant_into_spec ts :
    Forall (fun t => forall v acc, ef t v acc = into (e t v) acc) ts ->
    forall idx p acc, enc_variant_into ef ts idx p acc = into (enc_variant e ts idx p) acc.
  Proof.
    induction 1 as [|t ts Ht _ IH]; intros idx p acc; cbn [enc_variant_into enc_variant]; [reflexivity|].
    destruct (idx =? 0); auto.
  Qed.
End IntoField.

Lemma enc_into_spec : forall t v acc, enc_into t v acc = into (enc t v) acc.
Proof.
  induction t using ty_ind'; intros v acc; destruct v; cbn [enc_into enc]; try reflexivity.
  - unfold enc_int. destruct (fits n n0); cbn [into]; [|reflexivity].
    rewrite le_push_spec. reflexivity.
  - destruct (enc_char c); cbn [into]; [|reflexivity]. rewrite rev_append_rev. reflexivity.
  - apply enc_bytes_into_spec.
  - destruct o as [x|]; [|reflexivity].
    rewrite IHt. destruct (enc t x) as [b|]; cbn [into rev]; [|reflexivity].
    rewrite <- app_assoc. reflexivity.
  - cbv zeta. rewrite lenN_spec. destruct (len_ok _); [|reflexivity].
    rewrite (enc_list_into_spec _ _ IHt).
    destruct (enc_list (enc t) l) as [b|]; cbn [into]; [|reflexivity].
    rewrite le_push_spec, rev_app_distr, <- app_assoc. reflexivity.
  - apply (enc_arr_into_spec _ _ IHt).
  - apply (enc_fields_into_spec _ _ _ H).
  - destruct (fits 4 idx); [|reflexivity].
    rewrite (enc_variant_into_spec _ _ _ H).
    destruct (enc_variant enc vs idx v) as [b|]; cbn [into]; [|reflexivity].
    rewrite le_push_spec, rev_app_distr, <- app_assoc. reflexivity.
Qed.

Theorem enc_fast_eq : forall t v, enc_fast t v = enc t v.
Proof.
  intros t v. unfold enc_fast. rewrite enc_into_spec.
  destruct (enc t v) as [bs|]; cbn [into]; [|reflexivity].
  rewrite rev_append_rev, !app_nil_r, rev_involutive. reflexivity.
Qed.

Theorem wt_fast_eq : forall t v, wt_fast t v = wt t v.
Proof.
  intros t v. unfold wt_fast. rewrite enc_into_spec.
  destruct (enc t v) as [bs|] eqn:E; cbn [into].
  - symmetry. eapply enc_some_wt; eauto.
  - destruct (wt t v) eqn:W; [|reflexivity].
    destruct (enc_wt_gen _ _ W) as [bs E']. congruence.
Qed.

(* ---- decoder ---- *)

Lemma takeN_acc_spec bs : forall k acc,
  takeN_acc k bs acc =
  match takeN k bs with
  | Some (h, r) => Some (rev acc ++ h, r)
  | None => None
  end.
Proof.
  induction bs as [|b bs IH]; intros k acc; cbn [takeN_acc takeN].
  - destruct (k =? 0); [|reflexivity]. rewrite rev_append_rev. reflexivity.
  - destruct (k =? 0); [rewrite rev_append_rev; reflexivity|].
    destruct (byte_ok b); [|reflexivity].
    rewrite IH. destruct (takeN (N.pred k) bs) as [[h r]|]; [|reflexivity].
    cbn [rev]. rewrite <- app_assoc. reflexivity.
Qed.

Lemma dec_bytes_fast_eq bs : dec_bytes_fast bs = dec_bytes bs.
Proof.
  unfold dec_bytes_fast, dec_bytes. destruct (dec_int 8 bs) as [[n r]|]; [|reflexivity].
  rewrite takeN_acc_spec. destruct (takeN n r) as [[h t]|]; reflexivity.
Qed.

Section DecExt.
  Variable d1 d2 : bytes -> option (val * bytes).
  Hypothesis ext : forall bs, d1 bs = d2 bs.

  Lemma dec_arr_ext n : forall bs, dec_arr d1 n bs = dec_arr d2 n bs.
  Proof.
    induction n as [|n IH]; intros bs; cbn [dec_arr]; [reflexivity|].
    rewrite ext. destruct (d2 bs) as [[x r]|]; [|reflexivity]. rewrite IH. reflexivity.
  Qed.

  Lemma dec_seq_acc_spec budget : forall k bs acc,
    dec_seq_acc d1 budget k bs acc =
    match dec_seq d2 budget k bs with
    | Some (xs, r) => Some (rev acc ++ xs, r)
    | None => None
    end.
  Proof.
    induction budget as [|b0 budget IH]; intros k bs acc; cbn [dec_seq_acc dec_seq].
    - destruct (k =? 0); [|reflexivity]. rewrite rev_append_rev. reflexivity.
    - destruct (k =? 0); [rewrite rev_append_rev; reflexivity|].
      rewrite ext. destruct (d2 bs) as [[x r]|]; [|reflexivity].
      rewrite IH. destruct (dec_seq d2 budget (N.pred k) r) as [[xs r']|]; [|reflexivity].
      cbn [rev]. rewrite <- app_assoc. reflexivity.
  Qed.
End DecExt.

Section DecFieldExt.
  Variable d1 d2 : ty -> bytes -> option (val * bytes).

  Lemma dec_fields_ext ts :
    Forall (fun t => forall bs, d1 t bs = d2 t bs) ts ->
    forall bs, dec_fields d1 ts bs = dec_fields d2 ts bs.
  Proof.
    induction 1 as [|t ts Ht _ IH]; intros bs; cbn [dec_fields]; [reflexivity|].
    rewrite Ht. destruct (d2 t bs) as [[x r]|]; [|reflexivity]. rewrite IH. reflexivity.
  Qed.

  Lemma dec_variant_ext ts :
    Forall (fun t => forall bs, d1 t bs = d2 t bs) ts ->
    forall idx bs, dec_variant d1 ts idx bs = dec_variant d2 ts idx bs.
  Proof.
    induction 1 as [|t ts Ht _ IH]; intros idx bs; cbn [dec_variant]; [reflexivity|].
    destruct (idx =? 0); auto.
  Qed.
End DecFieldExt.

Theorem dec_fast_eq : forall t bs, dec_fast t bs = dec t bs.
Proof.
  induction t using ty_ind'; intros bs; cbn [dec_fast dec]; try reflexivity.
  - rewrite dec_bytes_fast_eq. reflexivity.
  - destruct bs as [|tag r]; [reflexivity|]. rewrite IHt. reflexivity.
  - destruct (dec_int 8 bs) as [[k r]|]; [|reflexivity].
    rewrite (dec_seq_acc_spec _ _ IHt). destruct (dec_seq (dec t) r k r) as [[l r']|]; reflexivity.
  - rewrite (dec_arr_ext _ _ IHt). reflexivity.
  - rewrite (dec_fields_ext _ _ _ H). reflexivity.
  - destruct (dec_int 4 bs) as [[idx r]|]; [|reflexivity].
    rewrite (dec_variant_ext _ _ _ H). reflexivity.
Qed.

Theorem enc_reflect_fast_eq : forall path t v, enc_reflect_fast path t v = enc_reflect path t v.
Proof.
  intros path t v. unfold enc_reflect_fast, enc_reflect.
  rewrite enc_bytes_into_spec. destruct (enc_bytes path) as [p|]; cbn [into]; [|reflexivity].
  rewrite enc_into_spec. destruct (enc t v) as [b|]; cbn [into]; [|reflexivity].
  rewrite le_push_spec, rev_append_rev, !app_nil_r, !rev_app_distr, !rev_involutive, <- app_assoc.
  reflexivity.
Qed.

Theorem dec_reflect_fast_eq : forall lookup bs, dec_reflect_fast lookup bs = dec_reflect lookup bs.
Proof.
  intros lookup bs. unfold dec_reflect_fast, dec_reflect.
  destruct (dec_int 8 bs) as [[c r]|]; [|reflexivity].
  destruct (c =? 1); [|reflexivity].
  rewrite dec_bytes_fast_eq. destruct (dec_bytes r) as [[p r']|]; [|reflexivity].
  destruct (lookup p) as [t|]; [|reflexivity].
  rewrite dec_fast_eq. reflexivity.
Qed.

(* the round-trip theorems, restated for the functions that are actually run *)

Corollary dec_fast_enc_fast : forall t v bs rest,
  wf_ty t = true -> enc_fast t v = Some bs -> dec_fast t (bs ++ rest) = Some (v, rest).
Proof. intros t v bs rest W E. rewrite enc_fast_eq in E. rewrite dec_fast_eq. apply dec_enc; assumption. Qed.

Corollary enc_fast_dec_fast : forall t bs v rest,
  dec_fast t bs = Some (v, rest) -> exists pre, enc_fast t v = Some pre /\ bs = pre ++ rest.
Proof.
  intros t bs v rest D. rewrite dec_fast_eq in D.
  destruct (enc_dec_gen _ _ _ _ D) as (pre & E & ->).
  exists pre. rewrite enc_fast_eq. auto.
Qed.

Corollary reflect_roundtrip_fast : forall lookup path t v bs rest,
  lookup path = Some t -> wf_ty t = true ->
  enc_reflect_fast path t v = Some bs ->
  dec_reflect_fast lookup (bs ++ rest) = Some (path, v, rest).
Proof.
  intros lookup path t v bs rest Lk W E.
  rewrite enc_reflect_fast_eq in E. rewrite dec_reflect_fast_eq.
  assert (Forall (fun b => b < 256) path) as F.
  { unfold enc_reflect, enc_bytes in E; cbv zeta in E.
    destruct (len_ok _); cbn [andb] in E; [|discriminate].
    destruct (forallb byte_ok path) eqn:B; [|discriminate].
    apply forallb_byte_ok; exact B. }
  eapply reflect_roundtrip; eauto.
Qed.

(* ---------------------------------------------------------------------- *)
(*  A use of [val_ind']: equality of values is decidable                   *)
(* ---------------------------------------------------------------------- *)

Lemma list_eq_dec_Forall {A} (l1 : list A) :
  Forall (fun x => forall y, x = y \/ x <> y) l1 -> forall l2, l1 = l2 \/ l1 <> l2.
Proof.
  induction 1 as [|x l1 Hx _ IH]; intros [|y l2]; try (right; discriminate); [left; reflexivity|].
  destruct (Hx y) as [->|Ne]; [|right; congruence].
  destruct (IH l2) as [->|Ne]; [left; reflexivity|right; congruence].
Qed.

Lemma val_eq_dec_prop : forall v1 v2 : val, v1 = v2 \/ v1 <> v2.
Proof.
  induction v1 using val_ind'; intros v2; destruct v2; try (right; discriminate).
  - left; reflexivity.
  - destruct (N.eq_dec n n0) as [->|]; [left; reflexivity|right; congruence].
  - destruct (bool_dec b b0) as [->|]; [left; reflexivity|right; congruence].
  - destruct (N.eq_dec c c0) as [->|]; [left; reflexivity|right; congruence].
  - destruct (list_eq_dec N.eq_dec bs bs0) as [->|]; [left; reflexivity|right; congruence].
  - destruct o; [right; discriminate|left; reflexivity].
  - destruct o as [y|]; [|right; discriminate].
    destruct (IHv1 y) as [->|]; [left; reflexivity|right; congruence].
  - destruct (list_eq_dec_Forall _ H l0) as [->|]; [left; reflexivity|right; congruence].
  - destruct (list_eq_dec_Forall _ H l0) as [->|]; [left; reflexivity|right; congruence].
  - destruct (list_eq_dec_Forall _ H l0) as [->|]; [left; reflexivity|right; congruence].
  - destruct (N.eq_dec idx idx0) as [->|]; [|right; congruence].
    destruct (IHv1 v2) as [->|]; [left; reflexivity|right; congruence].
Qed.

(* ---------------------------------------------------------------------- *)
(*  Sanity tests (expected bytes computed from the real Rust code)         *)
(* ---------------------------------------------------------------------- *)

(* struct { value: i32 = 3, name: String = "name" } *)
Example ex_struct :
  enc (TTuple [TInt 4; TBytes]) (VTuple [VInt 3; VBytes [110;97;109;101]])
  = Some [3;0;0;0; 4;0;0;0;0;0;0;0; 110;97;109;101].
Proof. vm_compute; reflexivity. Qed.

Example ex_opt_none : enc (TOpt (TInt 2)) (VOpt None) = Some [0].
Proof. vm_compute; reflexivity. Qed.

Example ex_opt_some : enc (TOpt (TInt 2)) (VOpt (Some (VInt 258))) = Some [1;2;1].
Proof. vm_compute; reflexivity. Qed.

Example ex_enum :
  enc (TEnum [TUnit; TTuple [TInt 1]]) (VEnum 1 (VTuple [VInt 7])) = Some [1;0;0;0;7].
Proof. vm_compute; reflexivity. Qed.

Example ex_seq_arr :
  enc (TSeq (TArr 2 (TInt 4))) (VSeq [VArr [VInt 1; VInt 2]])
  = Some [1;0;0;0;0;0;0;0; 1;0;0;0; 2;0;0;0].
Proof. vm_compute; reflexivity. Qed.

Example ex_char_euro : enc TChar (VChar 0x20AC) = Some [0xE2;0x82;0xAC].
Proof. vm_compute; reflexivity. Qed.

(* more chars: one per width class and the class boundaries *)
Example ex_char_widths :
  map (fun c => enc TChar (VChar c)) [0x41; 0x7F; 0x80; 0xE9; 0x7FF; 0x800; 0xD7FF; 0xE000; 0xFFFF; 0x10000; 0x1F600; 0x10FFFF]
  = [Some [0x41]; Some [0x7F]; Some [0xC2;0x80]; Some [0xC3;0xA9]; Some [0xDF;0xBF];
     Some [0xE0;0xA0;0x80]; Some [0xED;0x9F;0xBF]; Some [0xEE;0x80;0x80]; Some [0xEF;0xBF;0xBF];
     Some [0xF0;0x90;0x80;0x80]; Some [0xF0;0x9F;0x98;0x80]; Some [0xF4;0x8F;0xBF;0xBF]].
Proof. vm_compute; reflexivity. Qed.

Example ex_char_reject_enc :
  map (fun c => enc TChar (VChar c)) [0xD800; 0xDFFF; 0x110000] = [None; None; None].
Proof. vm_compute; reflexivity. Qed.

(* decoding, with trailing bytes *)
Example ex_dec_struct :
  dec (TTuple [TInt 4; TBytes]) [3;0;0;0; 4;0;0;0;0;0;0;0; 110;97;109;101; 9;9]
  = Some (VTuple [VInt 3; VBytes [110;97;109;101]], [9;9]).
Proof. vm_compute; reflexivity. Qed.

Example ex_dec_seq :
  dec (TSeq (TArr 2 (TInt 4))) [1;0;0;0;0;0;0;0; 1;0;0;0; 2;0;0;0]
  = Some (VSeq [VArr [VInt 1; VInt 2]], []).
Proof. vm_compute; reflexivity. Qed.

Example ex_dec_enum :
  dec (TEnum [TUnit; TTuple [TInt 1]]) [1;0;0;0;7] = Some (VEnum 1 (VTuple [VInt 7]), []).
Proof. vm_compute; reflexivity. Qed.

(* rejections: bool 2, option tag 2, variant index out of range, short input,
   a length larger than the input (even 2^64-1: no blow-up), overlong / surrogate /
   too large / truncated UTF-8, a lone continuation byte, a non-byte *)
Example ex_dec_reject :
  [ dec TBool [2]; dec (TOpt TUnit) [2]; dec (TEnum [TUnit; TUnit]) [2;0;0;0];
    dec (TInt 4) [1;2;3]; dec TBytes [5;0;0;0;0;0;0;0; 1;2;3;4];
    dec (TSeq (TInt 1)) [255;255;255;255;255;255;255;255; 1;2;3];
    dec TChar [0xC0;0x80]; dec TChar [0xE0;0x80;0x80]; dec TChar [0xED;0xA0;0x80];
    dec TChar [0xF4;0x90;0x80;0x80]; dec TChar [0xF5;0x80;0x80;0x80]; dec TChar [0xE2;0x82];
    dec TChar [0x80]; dec (TInt 1) [256] ]
  = [None; None; None; None; None; None; None; None; None; None; None; None; None; None].
Proof. vm_compute; reflexivity. Qed.

(* the reflect envelope: MyCompo { value: 3, name: "name" } registered under the path "T" *)
Example ex_reflect :
  enc_reflect [84] (TTuple [TInt 4; TBytes]) (VTuple [VInt 3; VBytes [110;97;109;101]])
  = Some [1;0;0;0;0;0;0;0; 1;0;0;0;0;0;0;0; 84; 3;0;0;0; 4;0;0;0;0;0;0;0; 110;97;109;101].
Proof. vm_compute; reflexivity. Qed.

Example ex_wf :
  wf_ty (TEnum [TUnit; TTuple [TBytes; TOpt (TSeq (TArr 3 (TInt 4))); TSeq TBytes]]) = true
  /\ wf_ty (TSeq TUnit) = false /\ wf_ty (TSeq (TArr 0 (TInt 1))) = false
  /\ wf_ty (TSeq (TTuple [TUnit; TInt 1])) = true.
Proof. vm_compute; auto. Qed.

(* the stack-safe variants on the same data *)
Example ex_fast :
  enc_fast (TTuple [TInt 4; TBytes; TSeq (TArr 2 (TInt 4)); TEnum [TUnit; TTuple [TInt 1]]; TChar])
           (VTuple [VInt 3; VBytes [110;97;109;101]; VSeq [VArr [VInt 1; VInt 2]];
                    VEnum 1 (VTuple [VInt 7]); VChar 0x20AC])
  = Some [3;0;0;0; 4;0;0;0;0;0;0;0; 110;97;109;101;
          1;0;0;0;0;0;0;0; 1;0;0;0; 2;0;0;0; 1;0;0;0;7; 0xE2;0x82;0xAC]
  /\ dec_fast (TTuple [TInt 4; TBytes; TSeq (TArr 2 (TInt 4)); TEnum [TUnit; TTuple [TInt 1]]; TChar])
         [3;0;0;0; 4;0;0;0;0;0;0;0; 110;97;109;101;
          1;0;0;0;0;0;0;0; 1;0;0;0; 2;0;0;0; 1;0;0;0;7; 0xE2;0x82;0xAC; 5]
  = Some (VTuple [VInt 3; VBytes [110;97;109;101]; VSeq [VArr [VInt 1; VInt 2]];
                  VEnum 1 (VTuple [VInt 7]); VChar 0x20AC], [5]).
Proof. vm_compute; auto. Qed.

(* ---------------------------------------------------------------------- *)

Print Assumptions le_value_le_bytes.
Print Assumptions le_bytes_le_value.
Print Assumptions enc_wt.
Print Assumptions enc_some_wt.
Print Assumptions dec_enc.
Print Assumptions enc_bytes_wf.
Print Assumptions reenc_same.
Print Assumptions enc_inj.
Print Assumptions enc_dec.
Print Assumptions dec_wt.
Print Assumptions reflect_roundtrip.
Print Assumptions reflect_canonical.
Print Assumptions enc_fast_eq.
Print Assumptions dec_fast_eq.
Print Assumptions wt_fast_eq.
Print Assumptions enc_reflect_fast_eq.
Print Assumptions dec_reflect_fast_eq.
Print Assumptions dec_fast_enc_fast.
Print Assumptions enc_fast_dec_fast.
Print Assumptions reflect_roundtrip_fast.
Print Assumptions val_eq_dec_prop.
