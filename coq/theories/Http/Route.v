(* Model of the HTTP asset endpoint of src/networking/assets/mod.rs:
   the three caches behind `serve_mesh / serve_image / serve_audio` (HashMap::insert of the encoded bytes),
   the URL `format!("{}/mesh/{}", base_url, id)`, and the router `respond`.
   Definitions only; proofs are in RouteProofs.v. Bytes and characters are N. *)
From Coq Require Import List NArith Bool.
From BS Require Import Http.UuidText.
Import ListNotations.
Local Open Scope N_scope.

Inductive class := CImage | CMesh | CAudio.

Definition class_eqb (a b : class) : bool :=
  match a, b with
  | CImage, CImage | CMesh, CMesh | CAudio, CAudio => true
  | _, _ => false
  end.

(* "/image/" "/mesh/" "/audio/" *)
Definition seg (k : class) : list N :=
  match k with
  | CImage => [47; 105; 109; 97; 103; 101; 47]
  | CMesh => [47; 109; 101; 115; 104; 47]
  | CAudio => [47; 97; 117; 100; 105; 111; 47]
  end.

Definition cache := list (nibbles * list N).     (* association list: uuid -> body *)

Fixpoint lookup (c : cache) (id : nibbles) : option (list N) :=
  match c with
  | [] => None
  | (k, b) :: c' => if list_eqb k id then Some b else lookup c' id
  end.

(* HashMap insert: the latest bytes served for an id replace earlier ones
   (since the fix: commit for defect S6; before it `entry().or_insert_with` kept the first) *)
Fixpoint put (c : cache) (id : nibbles) (b : list N) : cache :=
  match c with
  | [] => [(id, b)]
  | (k, v) :: c' => if list_eqb k id then (k, b) :: c' else (k, v) :: put c' id b
  end.

Record caches := { c_image : cache; c_mesh : cache; c_audio : cache }.

Definition empty_caches : caches := {| c_image := []; c_mesh := []; c_audio := [] |}.

Definition cache_of (cs : caches) (k : class) : cache :=
  match k with CImage => c_image cs | CMesh => c_mesh cs | CAudio => c_audio cs end.

Definition serve (cs : caches) (k : class) (id : nibbles) (body : list N) : caches :=
  match k with
  | CImage => {| c_image := put (c_image cs) id body; c_mesh := c_mesh cs; c_audio := c_audio cs |}
  | CMesh => {| c_image := c_image cs; c_mesh := put (c_mesh cs) id body; c_audio := c_audio cs |}
  | CAudio => {| c_image := c_image cs; c_mesh := c_mesh cs; c_audio := put (c_audio cs) id body |}
  end.

(* the path part of the advertised URL (what `Request::url()` reports for it) *)
Definition path_of (k : class) (id : nibbles) : list N := seg k ++ to_string id.

(* base_url: "http://ADDR:PORT" or, for IPv6, "http://[ADDR]:PORT" *)
Definition http_scheme : list N := [104; 116; 116; 112; 58; 47; 47].
Definition base_url (ipv6 : bool) (addr port : list N) : list N :=
  if ipv6 then http_scheme ++ [91] ++ addr ++ [93; 58] ++ port
  else http_scheme ++ addr ++ [58] ++ port.
Definition url_of (ipv6 : bool) (addr port : list N) (k : class) (id : nibbles) : list N :=
  base_url ipv6 addr port ++ path_of k id.

(* str::strip_prefix / str::contains *)
Fixpoint strip_prefix (p s : list N) : option (list N) :=
  match p, s with
  | [], _ => Some s
  | x :: p', y :: s' => if x =? y then strip_prefix p' s' else None
  | _ :: _, [] => None
  end.

Definition starts_with (p s : list N) : bool :=
  match strip_prefix p s with Some _ => true | None => false end.

Fixpoint contains (p s : list N) : bool :=
  starts_with p s || match s with [] => false | _ :: s' => contains p s' end.

Inductive response :=
| R200 (body : list N) (content_length : option N)   (* None: chunked transfer, no Content-Length *)
| R404
| R449
| R500dropped.                                       (* request dropped without an answer: tiny_http answers 500 *)

Definition status (r : response) : N :=
  match r with R200 _ _ => 200 | R404 => 404 | R449 => 449 | R500dropped => 500 end.

(* `respond`, for one request. [poisoned k]: the RwLock of class k is poisoned.
   [http10]: request line says HTTP/1.0 (tiny_http then never chunks). *)
Definition route (url : list N) : option (class * list N) :=
  if contains (seg CImage) url then
    match strip_prefix (seg CImage) url with Some r => Some (CImage, r) | None => None end
  else if contains (seg CMesh) url then
    match strip_prefix (seg CMesh) url with Some r => Some (CMesh, r) | None => None end
  else if contains (seg CAudio) url then
    match strip_prefix (seg CAudio) url with Some r => Some (CAudio, r) | None => None end
  else None.

Definition respond1 (cs : caches) (poisoned : class -> bool) (threshold : N) (http10 : bool)
    (url : list N) : response :=
  match route url with
  | None => R500dropped
  | Some (k, rest) =>
      match parse rest with
      | None => R500dropped
      | Some id =>
          if poisoned k then R449
          else match lookup (cache_of cs k) id with
               | None => R404
               | Some body =>
                   let len := N.of_nat (length body) in
                   R200 body (if http10 || (len <? threshold) then Some len else None)
               end
      end
  end.

(* A history of the endpoint: publications and requests in any interleaving. *)
Inductive op :=
| Publish (k : class) (id : nibbles) (body : list N)
| Get (http10 : bool) (url : list N).

Definition step (threshold : N) (cs : caches) (o : op) : caches * option response :=
  match o with
  | Publish k id body => (serve cs k id body, None)
  | Get h url => (cs, Some (respond1 cs (fun _ => false) threshold h url))
  end.

Fixpoint run (threshold : N) (cs : caches) (ops : list op) : caches * list response :=
  match ops with
  | [] => (cs, [])
  | o :: ops' =>
      let '(cs', r) := step threshold cs o in
      let '(cs'', rs) := run threshold cs' ops' in
      (cs'', match r with Some x => x :: rs | None => rs end)
  end.

(* SyncAssetTransfer::request: the download is always started (the early return when this
   peer's *mesh* cache held the id — defect S12 — was removed by the repair 19e1d6e). *)
Definition request_starts_download (cs : caches) (k : class) (id : nibbles) : bool := true.
