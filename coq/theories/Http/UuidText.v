(* Textual form of uuids: model of `Uuid::to_string` (hyphenated lower-case) and of
   `Uuid::parse_str` (uuid 1.x `try_parse`: 32 hex digits | hyphenated 36 | {hyphenated} 38 |
   urn:uuid:hyphenated 45; hex digits of either case). A uuid is its 32 nibbles, most
   significant first (a list of N, each < 16): this is the representation the HTTP model
   and the driver use; the 128-bit number never has to be formed. *)
From Coq Require Import List NArith Bool Lia.
Import ListNotations.
Local Open Scope N_scope.

Definition nibbles := list N.

Definition wf_uuid (u : nibbles) : Prop := length u = 32%nat /\ Forall (fun d => d < 16) u.

Definition wf_uuidb (u : nibbles) : bool :=
  Nat.eqb (length u) 32 && forallb (fun d => d <? 16) u.

(* '0'..'9' = 48..57, 'a'..'f' = 97..102, 'A'..'F' = 65..70, '-' = 45, '{' 123, '}' 125 *)
Definition hexchar (d : N) : N := if d <? 10 then 48 + d else 87 + d.

Definition unhex (c : N) : option N :=
  if (48 <=? c) && (c <=? 57) then Some (c - 48)
  else if (97 <=? c) && (c <=? 102) then Some (c - 87)
  else if (65 <=? c) && (c <=? 70) then Some (c - 55)
  else None.

Fixpoint unhex_all (s : list N) : option (list N) :=
  match s with
  | [] => Some []
  | c :: s' =>
      match unhex c, unhex_all s' with
      | Some d, Some ds => Some (d :: ds)
      | _, _ => None
      end
  end.

Definition dash : N := 45.

(* 8-4-4-4-12 *)
Definition to_string (u : nibbles) : list N :=
  let h := map hexchar u in
  firstn 8 h ++ [dash] ++ firstn 4 (skipn 8 h) ++ [dash] ++ firstn 4 (skipn 12 h) ++ [dash]
  ++ firstn 4 (skipn 16 h) ++ [dash] ++ skipn 20 h.

Definition parse_simple (s : list N) : option nibbles :=
  if Nat.eqb (length s) 32 then unhex_all s else None.

Definition is_dash (o : option N) : bool :=
  match o with Some c => c =? dash | None => false end.

Definition parse_hyphenated (s : list N) : option nibbles :=
  if Nat.eqb (length s) 36
     && is_dash (nth_error s 8) && is_dash (nth_error s 13)
     && is_dash (nth_error s 18) && is_dash (nth_error s 23)
  then unhex_all (firstn 8 s ++ firstn 4 (skipn 9 s) ++ firstn 4 (skipn 14 s)
                  ++ firstn 4 (skipn 19 s) ++ skipn 24 s)
  else None.

Definition urn_prefix : list N := [117; 114; 110; 58; 117; 117; 105; 100; 58]. (* "urn:uuid:" *)

Fixpoint list_eqb (a b : list N) : bool :=
  match a, b with
  | [], [] => true
  | x :: a', y :: b' => (x =? y) && list_eqb a' b'
  | _, _ => false
  end.

Definition parse (s : list N) : option nibbles :=
  let n := length s in
  if Nat.eqb n 32 then parse_simple s
  else if Nat.eqb n 36 then parse_hyphenated s
  else if Nat.eqb n 38 then
    match s with
    | c :: s' =>
        if (c =? 123) && (match nth_error s 37 with Some d => d =? 125 | None => false end)
        then parse_hyphenated (firstn 36 s') else None
    | [] => None
    end
  else if Nat.eqb n 45 then
    if list_eqb (firstn 9 s) urn_prefix then parse_hyphenated (skipn 9 s) else None
  else None.

(* ---------------------------------------------------------------------------------- *)

Lemma unhex_hexchar d : d < 16 -> unhex (hexchar d) = Some d.
Proof.
  intros Hd. unfold hexchar, unhex.
  destruct (d <? 10) eqn:E.
  - apply N.ltb_lt in E.
    replace ((48 <=? 48 + d) && (48 + d <=? 57)) with true.
    + f_equal. lia.
    + symmetry. apply andb_true_iff. split; apply N.leb_le; lia.
  - apply N.ltb_ge in E.
    replace ((48 <=? 87 + d) && (87 + d <=? 57)) with false.
    + replace ((97 <=? 87 + d) && (87 + d <=? 102)) with true.
      * f_equal. lia.
      * symmetry. apply andb_true_iff. split; apply N.leb_le; lia.
    + symmetry. apply andb_false_iff. right. apply N.leb_gt. lia.
Qed.

Lemma unhex_all_map_hexchar u :
  Forall (fun d => d < 16) u -> unhex_all (map hexchar u) = Some u.
Proof.
  induction 1 as [|d u Hd _ IH]; cbn [map unhex_all]; [reflexivity|].
  rewrite (unhex_hexchar d Hd), IH. reflexivity.
Qed.

Lemma hexchar_not_dash d : d < 16 -> hexchar d <> dash.
Proof.
  unfold hexchar, dash. intros Hd. destruct (d <? 10); lia.
Qed.

(* A list of length 32 is literally 32 conses: lets every firstn/skipn/nth_error compute. *)
Lemma length32_inv {A} (l : list A) : length l = 32%nat ->
  exists a0 a1 a2 a3 a4 a5 a6 a7 a8 a9 a10 a11 a12 a13 a14 a15
         a16 a17 a18 a19 a20 a21 a22 a23 a24 a25 a26 a27 a28 a29 a30 a31,
    l = [a0;a1;a2;a3;a4;a5;a6;a7;a8;a9;a10;a11;a12;a13;a14;a15;
         a16;a17;a18;a19;a20;a21;a22;a23;a24;a25;a26;a27;a28;a29;a30;a31].
Proof.
  intros H.
  do 32 (destruct l as [|? l]; [discriminate H|]).
  destruct l; [|discriminate H].
  repeat eexists.
Qed.

Theorem parse_to_string u : wf_uuid u -> parse (to_string u) = Some u.
Proof.
  intros [Hlen Hall].
  pose proof (unhex_all_map_hexchar u Hall) as Hun.
  destruct (length32_inv u Hlen) as
    (a0&a1&a2&a3&a4&a5&a6&a7&a8&a9&a10&a11&a12&a13&a14&a15&
     a16&a17&a18&a19&a20&a21&a22&a23&a24&a25&a26&a27&a28&a29&a30&a31&->).
  unfold parse, to_string.
  cbn [map firstn skipn app length Nat.eqb].
  unfold parse_hyphenated.
  cbn [length Nat.eqb nth_error is_dash andb firstn skipn app].
  change (dash =? dash) with true. cbn [andb].
  cbn [map] in Hun. exact Hun.
Qed.

(* The textual form never parses to a different uuid, and has no '/' or '?' in it. *)
Lemma to_string_length u : length u = 32%nat -> length (to_string u) = 36%nat.
Proof.
  intros Hlen.
  destruct (length32_inv u Hlen) as
    (a0&a1&a2&a3&a4&a5&a6&a7&a8&a9&a10&a11&a12&a13&a14&a15&
     a16&a17&a18&a19&a20&a21&a22&a23&a24&a25&a26&a27&a28&a29&a30&a31&->).
  reflexivity.
Qed.

Theorem to_string_inj u v : wf_uuid u -> wf_uuid v -> to_string u = to_string v -> u = v.
Proof.
  intros Hu Hv E.
  pose proof (parse_to_string u Hu) as Pu.
  pose proof (parse_to_string v Hv) as Pv.
  rewrite E in Pu. rewrite Pu in Pv. injection Pv. auto.
Qed.
