(* Proofs about the HTTP endpoint model (Route.v). *)
From Coq Require Import List NArith Bool Lia.
From BS Require Import Http.UuidText Http.Route.
Import ListNotations.
Local Open Scope N_scope.

(* ---------- list_eqb, lookup, or_insert ------------------------------------------- *)

Lemma list_eqb_refl a : list_eqb a a = true.
Proof. induction a as [|x a IH]; cbn; [reflexivity|]. rewrite N.eqb_refl, IH. reflexivity. Qed.

Lemma list_eqb_eq a b : list_eqb a b = true <-> a = b.
Proof.
  split; [|intros ->; apply list_eqb_refl].
  revert b; induction a as [|x a IH]; intros [|y b]; cbn; try discriminate; auto.
  intros H. apply andb_true_iff in H as [H1 H2]. apply N.eqb_eq in H1. f_equal; auto.
Qed.

Lemma lookup_put_same c id b : lookup (put c id b) id = Some b.
Proof.
  induction c as [|[k v] c IH]; cbn [put lookup].
  - rewrite list_eqb_refl. reflexivity.
  - destruct (list_eqb k id) eqn:E; cbn [lookup]; rewrite E; auto.
Qed.

Lemma lookup_put_other c id id' b : id <> id' -> lookup (put c id b) id' = lookup c id'.
Proof.
  intros Hne. induction c as [|[k v] c IH]; cbn [put lookup].
  - destruct (list_eqb id id') eqn:Q; [apply list_eqb_eq in Q; contradiction|reflexivity].
  - destruct (list_eqb k id) eqn:E; cbn [lookup].
    + apply list_eqb_eq in E. subst k.
      destruct (list_eqb id id') eqn:Q; [apply list_eqb_eq in Q; contradiction|reflexivity].
    + destruct (list_eqb k id'); auto.
Qed.

Lemma cache_of_serve_same cs k id b :
  cache_of (serve cs k id b) k = put (cache_of cs k) id b.
Proof. destruct k; reflexivity. Qed.

Lemma cache_of_serve_other cs k k' id b :
  k <> k' -> cache_of (serve cs k id b) k' = cache_of cs k'.
Proof. destruct k, k'; intros H; try reflexivity; contradiction. Qed.

Lemma class_eq_dec (a b : class) : {a = b} + {a <> b}.
Proof. decide equality. Qed.

(* ---------- a publication stays until the same (class, id) is published again --------- *)

Fixpoint published_in (ops : list op) (k : class) (id : nibbles) : bool :=
  match ops with
  | [] => false
  | Publish k' id' _ :: ops' => (class_eqb k k' && list_eqb id' id) || published_in ops' k id
  | Get _ _ :: ops' => published_in ops' k id
  end.

Lemma class_eqb_eq a b : class_eqb a b = true <-> a = b.
Proof. destruct a, b; cbn; split; intros; try reflexivity; discriminate. Qed.

Lemma run_keeps th ops : forall cs k id b0,
  lookup (cache_of cs k) id = Some b0 -> published_in ops k id = false ->
  lookup (cache_of (fst (run th cs ops)) k) id = Some b0.
Proof.
  induction ops as [|o ops IH]; intros cs k id b0 H Hp; cbn [run]; [exact H|].
  destruct (step th cs o) as [cs' r] eqn:Es.
  specialize (IH cs' k id b0).
  destruct (run th cs' ops) as [cs'' rs]. cbn [fst] in *.
  destruct o as [k' id' b|h url]; cbn [step] in Es; injection Es as <- <-; cbn [published_in] in Hp.
  - apply orb_false_iff in Hp as [Hp1 Hp2]. apply IH; [|exact Hp2].
    destruct (class_eq_dec k' k) as [->|Hne].
    + rewrite cache_of_serve_same, lookup_put_other; [exact H|].
      intros ->. rewrite list_eqb_refl in Hp1. destruct k; discriminate.
    + rewrite cache_of_serve_other by exact Hne. exact H.
  - apply IH; assumption.
Qed.

(* a GET never changes what later requests see *)
Theorem get_preserves_state th cs h url : fst (step th cs (Get h url)) = cs.
Proof. reflexivity. Qed.

(* ---------- routing of the advertised path ------------------------------------------ *)

Definition uuidchar (c : N) : Prop := (48 <= c <= 57) \/ (97 <= c <= 102) \/ c = 45.

Lemma hexchar_uuidchar d : d < 16 -> uuidchar (hexchar d).
Proof. unfold uuidchar, hexchar. intros H. destruct (d <? 10) eqn:E; [apply N.ltb_lt in E|apply N.ltb_ge in E]; lia. Qed.

Lemma Forall_firstn {A} (P : A -> Prop) n l : Forall P l -> Forall P (firstn n l).
Proof. intros H; revert n; induction H; intros [|n]; cbn; auto. Qed.

Lemma Forall_skipn {A} (P : A -> Prop) n l : Forall P l -> Forall P (skipn n l).
Proof. intros H; revert n; induction H; intros [|n]; cbn; auto. Qed.

Lemma to_string_uuidchars u : Forall (fun d => d < 16) u -> Forall uuidchar (to_string u).
Proof.
  intros H. unfold to_string.
  assert (Hh : Forall uuidchar (map hexchar u)).
  { induction H; cbn; constructor; auto using hexchar_uuidchar. }
  assert (Hd : uuidchar dash) by (unfold uuidchar, dash; lia).
  repeat (apply Forall_app; split); auto using Forall_firstn, Forall_skipn.
Qed.

Lemma strip_prefix_app p s : strip_prefix p (p ++ s) = Some s.
Proof. induction p as [|x p IH]; cbn; [reflexivity|]. rewrite N.eqb_refl. exact IH. Qed.

Lemma starts_with_app p s : starts_with p (p ++ s) = true.
Proof. unfold starts_with. rewrite strip_prefix_app. reflexivity. Qed.

Lemma contains_app_prefix p s : contains p (p ++ s) = true.
Proof.
  destruct (p ++ s) eqn:E; cbn [contains].
  - rewrite <- E, starts_with_app. reflexivity.
  - rewrite <- E, starts_with_app. reflexivity.
Qed.

Lemma starts_with_cons_ne c p x s : c <> x -> starts_with (c :: p) (x :: s) = false.
Proof. intros H. unfold starts_with. cbn. destruct (c =? x) eqn:E; [apply N.eqb_eq in E; contradiction|reflexivity]. Qed.

Lemma starts_with_cons_eq c p s : starts_with (c :: p) (c :: s) = starts_with p s.
Proof. unfold starts_with. cbn. rewrite N.eqb_refl. reflexivity. Qed.

(* no uuid character is '/', 'i', 'm' or 'u' *)
Lemma contains_no_first c p s :
  Forall (fun x => x <> c) s -> contains (c :: p) s = false.
Proof.
  induction 1 as [|x s Hx _ IH]; cbn [contains]; [reflexivity|].
  rewrite starts_with_cons_ne by congruence. cbn [orb]. exact IH.
Qed.

Lemma uuidchars_no c s : ~ uuidchar c -> Forall uuidchar s -> Forall (fun x => x <> c) s.
Proof. intros Hc H. induction H; constructor; auto. intros ->. contradiction. Qed.

Ltac not_uuidchar := unfold uuidchar; lia.

(* a segment never occurs inside (other segment ++ uuid text) *)
Lemma starts_with_nil_r c p : starts_with (c :: p) [] = false.
Proof. reflexivity. Qed.

(* tail of a segment after its leading '/', against uuid text: 'i…', 'm…', 'a' 'u'… *)
Lemma sw_image t : Forall uuidchar t -> starts_with [105; 109; 97; 103; 101; 47] t = false.
Proof.
  intros H. destruct H as [|x t Hx Ht]; [reflexivity|].
  apply starts_with_cons_ne. intros <-. revert Hx. not_uuidchar.
Qed.
Lemma sw_mesh t : Forall uuidchar t -> starts_with [109; 101; 115; 104; 47] t = false.
Proof.
  intros H. destruct H as [|x t Hx Ht]; [reflexivity|].
  apply starts_with_cons_ne. intros <-. revert Hx. not_uuidchar.
Qed.
Lemma sw_audio t : Forall uuidchar t -> starts_with [97; 117; 100; 105; 111; 47] t = false.
Proof.
  intros H. destruct H as [|x t Hx Ht]; [reflexivity|].
  destruct (N.eq_dec 97 x) as [<-|Hne]; [|apply starts_with_cons_ne; exact Hne].
  rewrite starts_with_cons_eq.
  destruct Ht as [|y t Hy Ht]; [reflexivity|].
  apply starts_with_cons_ne. intros <-. revert Hy. not_uuidchar.
Qed.

Lemma contains_uuid_text k t : Forall uuidchar t -> contains (seg k) t = false.
Proof.
  intros H. destruct k; cbn [seg]; apply contains_no_first;
    apply uuidchars_no; auto; not_uuidchar.
Qed.

Lemma contains_other k k' t :
  k <> k' -> Forall uuidchar t -> contains (seg k') (seg k ++ t) = false.
Proof.
  intros Hne Ht.
  pose proof (contains_uuid_text k' t Ht) as Hc.
  pose proof (sw_image t Ht) as Hi. pose proof (sw_mesh t Ht) as Hm. pose proof (sw_audio t Ht) as Ha.
  destruct k, k'; try contradiction; cbn [seg app];
  repeat (cbn [contains];
          first [ rewrite starts_with_cons_ne by lia
                | rewrite starts_with_cons_eq ]; cbn [orb]);
  rewrite ?Hi, ?Hm, ?Ha; cbn [orb]; exact Hc.
Qed.

Theorem route_path_of k t : Forall uuidchar t -> route (seg k ++ t) = Some (k, t).
Proof.
  intros Ht. unfold route.
  destruct k.
  - rewrite contains_app_prefix, strip_prefix_app. reflexivity.
  - rewrite (contains_other CMesh CImage) by (auto; discriminate).
    rewrite contains_app_prefix, strip_prefix_app. reflexivity.
  - rewrite (contains_other CAudio CImage) by (auto; discriminate).
    rewrite (contains_other CAudio CMesh) by (auto; discriminate).
    rewrite contains_app_prefix, strip_prefix_app. reflexivity.
Qed.

(* ---------- the answers --------------------------------------------------------------- *)

Definition no_poison : class -> bool := fun _ => false.

Definition expected_length (th : N) (h : bool) (body : list N) : option N :=
  let len := N.of_nat (length body) in if h || (len <? th) then Some len else None.

Lemma respond_path cs th h k id :
  wf_uuid id ->
  respond1 cs no_poison th h (path_of k id) =
    match lookup (cache_of cs k) id with
    | None => R404
    | Some body => R200 body (expected_length th h body)
    end.
Proof.
  intros Hwf. unfold respond1, path_of.
  rewrite route_path_of by (apply to_string_uuidchars; apply Hwf).
  rewrite parse_to_string by exact Hwf. reflexivity.
Qed.

(* Every GET of the advertised path answers 200 with exactly the bytes of the LATEST
   publication of that (class, uuid), whatever further history of other publications (other
   ids, other classes) and requests follows, with Content-Length iff the body is below the
   threshold (or the client speaks HTTP/1.0). *)
Theorem published_get_200 th cs k id body ops h :
  wf_uuid id ->
  published_in ops k id = false ->
  respond1 (fst (run th (serve cs k id body) ops)) no_poison th h (path_of k id)
  = R200 body (expected_length th h body).
Proof.
  intros Hwf Hnone. rewrite respond_path by exact Hwf.
  erewrite run_keeps; [reflexivity| |exact Hnone].
  rewrite cache_of_serve_same, lookup_put_same. reflexivity.
Qed.

Theorem unknown_404 cs th h k id :
  wf_uuid id -> lookup (cache_of cs k) id = None ->
  respond1 cs no_poison th h (path_of k id) = R404.
Proof. intros Hwf Hn. rewrite respond_path by exact Hwf. rewrite Hn. reflexivity. Qed.

(* known uuid requested under another class in which it was never published *)
Theorem wrong_class_404 th k k' id body h :
  wf_uuid id -> k <> k' ->
  respond1 (serve empty_caches k id body) no_poison th h (path_of k' id) = R404.
Proof.
  intros Hwf Hne. apply unknown_404; [exact Hwf|].
  rewrite cache_of_serve_other by exact Hne. destruct k'; reflexivity.
Qed.

(* Every request whatsoever is answered by a total function; a 200 is given only for a url
   that routes to (class, uuid text) of something published, and carries those bytes;
   everything else is an error status. *)
Theorem respond_sound cs p th h url body cl :
  respond1 cs p th h url = R200 body cl ->
  exists k rest id, route url = Some (k, rest) /\ parse rest = Some id
                    /\ lookup (cache_of cs k) id = Some body
                    /\ cl = expected_length th h body.
Proof.
  unfold respond1. destruct (route url) as [[k rest]|] eqn:Er; [|discriminate].
  destruct (parse rest) as [id|] eqn:Ep; [|discriminate].
  destruct (p k); [discriminate|].
  destruct (lookup (cache_of cs k) id) as [b|] eqn:E; [|discriminate].
  intros H. injection H as <- <-. exists k, rest, id. repeat split; auto.
Qed.

Theorem malformed_is_error cs p th h url :
  (route url = None \/ exists k rest, route url = Some (k, rest) /\ parse rest = None) ->
  400 <= status (respond1 cs p th h url).
Proof.
  unfold respond1. intros [->|(k & rest & -> & ->)]; cbn; lia.
Qed.

Theorem never_below_200 cs p th h url : 200 <= status (respond1 cs p th h url).
Proof.
  unfold respond1. destruct (route url) as [[k rest]|]; [|cbn; lia].
  destruct (parse rest); [|cbn; lia]. destruct (p k); [cbn; lia|].
  destruct (lookup _ _); cbn; lia.
Qed.

Theorem content_length_iff th h body :
  expected_length th h body = Some (N.of_nat (length body)) <->
  (h = true \/ N.of_nat (length body) < th).
Proof.
  unfold expected_length. destruct h; cbn [orb].
  - split; auto.
  - destruct (N.ltb_spec (N.of_nat (length body)) th); split; intros; auto; try discriminate.
    destruct H0; [discriminate|lia].
Qed.

Definition id0 : nibbles := repeat 0 32.

Lemma run_app th ops1 ops2 cs :
  fst (run th cs (ops1 ++ ops2)) = fst (run th (fst (run th cs ops1)) ops2).
Proof.
  revert cs; induction ops1 as [|o ops1 IH]; intros cs; cbn [app run]; [reflexivity|].
  destruct (step th cs o) as [cs' r].
  specialize (IH cs').
  destruct (run th cs' (ops1 ++ ops2)) as [c1 r1]. destruct (run th cs' ops1) as [c2 r2].
  cbn [fst] in *. exact IH.
Qed.

Theorem C14_get_returns_published th ops1 k id body ops2 h :
  wf_uuid id ->
  published_in ops2 k id = false ->
  respond1 (fst (run th empty_caches (ops1 ++ Publish k id body :: ops2))) no_poison th h (path_of k id)
  = R200 body (expected_length th h body).
Proof.
  intros Hwf Hp.
  rewrite run_app. cbn [run].
  destruct (step th (fst (run th empty_caches ops1)) (Publish k id body)) as [cs' r] eqn:Es.
  cbn [step] in Es. injection Es as <- <-.
  pose proof (published_get_200 th (fst (run th empty_caches ops1)) k id body ops2 h Hwf Hp) as P.
  destruct (run th (serve (fst (run th empty_caches ops1)) k id body) ops2) as [c rs] eqn:Er.
  cbn [fst] in *. exact P.
Qed.

(* never published under (class, id): 404 after any history *)
Lemma never_published_none th ops : forall cs k id,
  lookup (cache_of cs k) id = None -> published_in ops k id = false ->
  lookup (cache_of (fst (run th cs ops)) k) id = None.
Proof.
  induction ops as [|o ops IH]; intros cs k id Hn Hp; cbn [run]; [exact Hn|].
  destruct (step th cs o) as [cs' r] eqn:Es.
  specialize (IH cs' k id).
  destruct (run th cs' ops) as [cs'' rs]. cbn [fst] in *.
  destruct o as [k' id' b|h url]; cbn [step] in Es; injection Es as <- <-; cbn [published_in] in Hp.
  - apply orb_false_iff in Hp as [Hp1 Hp2]. apply IH; [|exact Hp2].
    destruct (class_eq_dec k' k) as [->|Hne].
    + rewrite cache_of_serve_same, lookup_put_other; [exact Hn|].
      intros ->. rewrite list_eqb_refl in Hp1. destruct k; discriminate.
    + rewrite cache_of_serve_other by exact Hne. exact Hn.
  - apply IH; assumption.
Qed.

Theorem C14_never_published_404 th ops k id h :
  wf_uuid id -> published_in ops k id = false ->
  respond1 (fst (run th empty_caches ops)) no_poison th h (path_of k id) = R404.
Proof.
  intros Hwf Hp. apply unknown_404; [exact Hwf|].
  apply never_published_none; [destruct k; reflexivity|exact Hp].
Qed.

(* `request`: an announced asset is always fetched, whatever this peer serves itself. *)
Theorem request_always_starts_download cs id k : request_starts_download cs k id = true.
Proof. reflexivity. Qed.

(* non-vacuity: a concrete interleaved history meets the hypotheses of the main theorem *)
Example C14_nonvacuous :
  let id1 := repeat 3 32 in
  let ops1 := [Publish CImage id0 [9;9]; Get false (path_of CMesh id0); Publish CMesh id1 [7]] in
  let ops2 := [Get false (path_of CMesh id0); Publish CAudio id1 [8]; Get true (path_of CMesh id0); Get false (path_of CAudio id0)] in
  wf_uuid id0 /\ published_in ops2 CMesh id0 = false /\
  snd (run 4 empty_caches ((Publish CMesh id0 [6] :: ops1) ++ Publish CMesh id0 [1;2;3;4;5] :: ops2))
  = [R200 [6] (Some 1); R200 [1;2;3;4;5] None; R200 [1;2;3;4;5] (Some 5); R404].
Proof.
  cbn zeta. split; [split; [reflexivity|repeat constructor]|]. split; vm_compute; reflexivity.
Qed.
