(* C16 — Skinned-mesh joints and bind poses are translated between peers.
   Statements only; proofs are `exact`. Model: Sync/Model.v (to_skinned_mapper, to_skinned_mesh,
   apply_component_change), mirrors src/lib_priv.rs. *)
From stdpp Require Import gmap list.
From Coq Require Import NArith.
From BS Require Import Sync.Types Sync.Model Sync.Observe Sync.Proofs.Skin Sync.Proofs.Tracker.
Local Open Scope N_scope.

(* For any two peers A (sender) and B (receiver), whatever their local entity-id spaces, any
   joint list (any length including 0, any order, repeats) whose joints are synchronised
   entities on A with replicas on B, and any bind-pose list: what A announces decodes on B to a
   SkinnedMesh with the same number of joints, in the same order, each joint being B's replica
   of the same uuid, and equal inverse bind poses. *)
Theorem C16_joints_translated :
  forall (A B : peer_state) (joints : list ent) (poses : list N) (u : ent -> uuid) (rep : ent -> ent),
    Forall (fun j => t_e2u A !! j = Some (u j)) joints ->
    Forall (fun j => t_u2e B !! (u j) = Some (rep j)) joints ->
    to_skinned_mapper A joints poses = VMapper (u <$> joints) poses /\
    to_skinned_mesh B (u <$> joints) poses = VSkin (rep <$> joints) poses.
Proof. exact skin_roundtrip. Qed.

Theorem C16_same_joint_count :
  forall A B joints poses u rep,
    Forall (fun j => t_e2u A !! j = Some (u j)) joints ->
    Forall (fun j => t_u2e B !! (u j) = Some (rep j)) joints ->
    exists js', to_skinned_mesh B (u <$> joints) poses = VSkin js' poses /\ length js' = length joints.
Proof. exact skin_same_length. Qed.

(* a received mapper is installed on the replica as exactly the translated mesh (replacing any
   previous value: after the S17 fix the component is inserted, not patched) *)
Theorem C16_received_mapper_installed :
  forall (pr : peer_state) (e : ent) (en : entity) (u : uuid) (us : list uuid) (ps : list N),
    memN T_MAPPER (p_registry pr) = true -> memN T_SKIN (p_registry pr) = true ->
    p_ents pr !! e = Some en -> en_sync en = Some u ->
    let '(pr', changed) := apply_component_change pr e T_MAPPER (VMapper us ps) in
    changed = true /\
    exists en', p_ents pr' !! e = Some en' /\
                (c_val <$> (en_comps en' !! T_SKIN)) = Some (to_skinned_mesh pr us ps).
Proof. exact skin_apply. Qed.

(* outside the property's hypothesis: a joint that is not a synchronised entity is dropped *)
Theorem C16_unsynchronised_joint_dropped :
  forall A joints poses,
    match to_skinned_mapper A joints poses with
    | VMapper us _ => (length us <= length joints)%nat
    | _ => False
    end.
Proof. exact skin_unknown_joint_dropped. Qed.

(* The snapshot path: a peer B that HOLDS a skin it received (joints = its own replicas) announces it
   again to a later joiner C. B names exactly the uuids it received, in the same order, and C ends
   with its replicas of A's joints - provided B's tracker is consistent in the direction
   uuid_to_entity -> entity_to_uuid (tracker_ok). *)
Theorem C16_reannounced_skin_names_the_same_joints :
  forall (A B C : peer_state) (joints : list ent) (ps : list N) (u : ent -> uuid) (repB repC : ent -> ent),
    Forall (fun j => t_e2u A !! j = Some (u j)) joints ->
    tracker_ok B ->
    Forall (fun j => t_u2e B !! (u j) = Some (repB j)) joints ->
    Forall (fun j => t_u2e C !! (u j) = Some (repC j)) joints ->
    to_skinned_mapper A joints ps = VMapper (u <$> joints) ps /\
    to_skinned_mesh B (u <$> joints) ps = VSkin (repB <$> joints) ps /\
    to_skinned_mapper B (repB <$> joints) ps = VMapper (u <$> joints) ps /\
    to_skinned_mesh C (u <$> joints) ps = VSkin (repC <$> joints) ps.
Proof. exact skin_via_snapshot. Qed.

(* ... and that consistency holds in EVERY reachable state of EVERY peer of the frame-level model, for all
   system orders, oracles and interleavings, as long as the application puts SyncMark on entities of its
   own only (never on a network replica): an invariant proved by induction over frames and operations *)
Theorem C16_tracker_consistent_on_every_run :
  forall n tr, marks_script_only n tr ->
    forall p pr, grun (init_global n) tr !! p = Some pr -> tracker_ok pr.
Proof. exact grun_tracker_ok. Qed.

(* the premise is needed: an application that marks a replica makes entity_created_on_* register the same
   entity under a second uuid; the first uuid keeps pointing at it while entity_to_uuid is overwritten
   (the Added<SyncMark> queries have no Without<SyncEntity> filter). Outside the property: C01 quantifies
   over spawn / despawn operations *)
Theorem C16_marking_a_replica_breaks_the_tracker :
  exists n tr p pr, Hierarchy.hier_conforming n tr /\ grun (init_global n) tr !! p = Some pr /\ ~ tracker_ok pr.
Proof. exact tracker_ok_refuted. Qed.

Print Assumptions C16_joints_translated.
Print Assumptions C16_same_joint_count.
Print Assumptions C16_received_mapper_installed.
Print Assumptions C16_unsynchronised_joint_dropped.
Print Assumptions C16_reannounced_skin_names_the_same_joints.
Print Assumptions C16_tracker_consistent_on_every_run.
Print Assumptions C16_marking_a_replica_breaks_the_tracker.
