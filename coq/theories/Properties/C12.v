(* C12 — Component, material and message wire encoding is lossless.
   Statements only; every proof is `exact <lemma>`. Models: Codec/Schema.v (bincode over a
   universe of wire schemas, the ReflectSerializer envelope) and Codec/ProtoCodec.v (the protocol
   Message). Source tie: BSGen.ProtoLayout is regenerated from /repo/src/proto.rs and lib.rs on
   every run and the message model is DEFINED over it; the schema of every component type is
   derived by the harness from the real TypeRegistry and replayed against Schema.v.
   NOT proved (checked by the correspondence runs only, REFLCHK flags): that `FromReflect`
   rebuilds an equal concrete Rust value and that `reflect_partial_eq` holds. *)
From Coq Require Import List NArith.
From BS Require Import Codec.Schema Codec.SchemaProofs Codec.CodecTypes Codec.ProtoCodec Codec.ProtoCodecProofs.
From BSGen Require Import ProtoLayout.
Import ListNotations.
Local Open Scope N_scope.

(* ---- the code's declarative fragments are the ones the model was written for ---------- *)

(* the wire layout of `enum Message` (variant order = wire index, fields, types) and of
   `SyncConnectionParameters::Socket` *)
Theorem C12_source_message_layout :
  message_variants =
  [(K_EntitySpawn, [(P_id, TBytes)]);
   (K_EntityParented, [(P_entity_id, TBytes); (P_parent_id, TBytes)]);
   (K_EntityDelete, [(P_id, TBytes)]);
   (K_ComponentUpdated, [(P_id, TBytes); (P_name, TBytes); (P_data, TSeq (TInt 1))]);
   (K_StandardMaterialUpdated, [(P_id, TBytes); (P_material, TSeq (TInt 1))]);
   (K_MeshUpdated, [(P_id, TBytes); (P_url, TBytes)]);
   (K_ImageUpdated, [(P_id, TBytes); (P_url, TBytes)]);
   (K_AudioUpdated, [(P_id, TBytes); (P_url, TBytes)]);
   (K_PromoteToHost, []);
   (K_NewHost, [(P_params, TEnum [TTuple [TEnum [TArr 4 (TInt 1); TArr 16 (TInt 1)]; TInt 2; TInt 2; TInt 8]])]);
   (K_RequestInitialSync, []);
   (K_FinishedInitialSync, [])]
  /\ map fst sync_params_fields = [S_ip; S_port; S_web_port; S_max_transfer].
Proof. exact source_message_layout. Qed.

(* ---- the property, messages ----------------------------------------------------------------- *)

(* Every protocol message of every kind, with any field values (uuids, strings and blobs of any
   length, either address family, all port and size values): encoding succeeds, and decoding the
   bytes -- followed by anything -- returns exactly that message. *)
Theorem C12_message_roundtrip :
  forall m, wf_msg m -> exists bs, encode m = Some bs /\ forall rest, decode (bs ++ rest) = Some m.
Proof. exact ProtoCodecProofs.C12_message_roundtrip. Qed.

Theorem C12_message_bytes_determine_message :
  forall m1 m2 bs, encode m1 = Some bs -> encode m2 = Some bs -> m1 = m2.
Proof. exact encode_injective. Qed.

(* ---- the property, components and materials ------------------------------------------------- *)

(* For EVERY wire schema (any nesting of structs, tuple structs, enums, options, lists, arrays,
   maps, strings, chars, integers and floats of every width) and every value of it, under any
   type path: the bytes of `reflect_to_bin` decode -- on a peer that resolves the path to the
   same schema, whatever bytes follow -- to the same path and the same value, and whatever the
   decoder returns on those bytes re-encodes to the same bytes. *)
Theorem C12_component_roundtrip :
  forall lookup path t v,
  lookup path = Some t -> wf_ty t = true -> wt t v = true ->
  N.of_nat (length path) < 2 ^ 64 -> Forall (fun b => b < 256) path ->
  exists bs,
    enc_reflect path t v = Some bs
    /\ (forall rest, dec_reflect lookup (bs ++ rest) = Some (path, v, rest))
    /\ (forall rest path' v' rest',
          dec_reflect lookup (bs ++ rest) = Some (path', v', rest') ->
          enc_reflect path' t v' = Some bs).
Proof. exact ProtoCodecProofs.C12_component_roundtrip. Qed.

(* distinct values of a schema have distinct bytes *)
Theorem C12_component_bytes_determine_value :
  forall path t v1 v2 bs,
  wf_ty t = true -> enc_reflect path t v1 = Some bs -> enc_reflect path t v2 = Some bs -> v1 = v2.
Proof. exact C12_component_injective. Qed.

(* the decoder accepts only what the encoder produces *)
Theorem C12_component_decoder_accepts_only_encodings :
  forall lookup bs path v rest, dec_reflect lookup bs = Some (path, v, rest) ->
  exists t pre, lookup path = Some t /\ enc_reflect path t v = Some pre /\ bs = pre ++ rest.
Proof. exact reflect_canonical. Qed.

(* the hypotheses are met by one message of every kind (both address families) *)
Theorem C12_wf_is_inhabited : Forall wf_msg ex_wmsgs /\ length ex_wmsgs = 13%nat.
Proof. exact (conj ex_msgs_wf eq_refl). Qed.

(* the functions the correspondence check runs are the ones the theorems are about *)
Theorem C12_executed_model_is_specified_model :
  (forall m, encode_fast m = encode m) /\ (forall bs, decode_fast bs = decode bs)
  /\ (forall path t v, enc_reflect_fast path t v = enc_reflect path t v)
  /\ (forall lookup bs, dec_reflect_fast lookup bs = dec_reflect lookup bs).
Proof. exact (conj encode_fast_eq (conj decode_fast_eq (conj enc_reflect_fast_eq dec_reflect_fast_eq))). Qed.

(* the message decoder returns None only where bincode itself fails: every value bincode
   produces for the Message schema is one of the twelve messages *)
Theorem C12_message_decoder_fails_only_where_bincode_fails :
  forall bs, decode bs = None -> dec message_ty bs = None.
Proof. exact decode_none_only_if_bincode_fails. Qed.

Print Assumptions C12_source_message_layout.
Print Assumptions C12_message_roundtrip.
Print Assumptions C12_message_bytes_determine_message.
Print Assumptions C12_component_roundtrip.
Print Assumptions C12_component_bytes_determine_value.
Print Assumptions C12_component_decoder_accepts_only_encodings.
Print Assumptions C12_wf_is_inhabited.
Print Assumptions C12_executed_model_is_specified_model.
Print Assumptions C12_message_decoder_fails_only_where_bincode_fails.
