(* C07 — Host promotion hands the session over intact.
   Statements only; proofs are `exact`. Model: the event-level promotion protocol (Abs/Promotion.v):
   per peer the server transport, ServerState, clients_id(), unread ServerEvents, the client
   transport and its target, ClientState, the RenetClient link with renet's absorbing disconnected
   state, host_promotion_in_progress and the resource_added / resource_removed edges; FIFO
   channels of PromoteToHost / NewHost / RequestInitialSync; atomic events for the application
   request, single deliveries, every state system (server created / removed, client connecting,
   verify_client_connected, client removed, client_connected notification) and renet's
   notifications (connect, link down, time-out). Mirrors src/server/mod.rs, src/client/mod.rs,
   src/{server,client}/receiver.rs, src/networking/mod.rs. Every interleaving of the atomic
   events (a superset of what frames can produce). Tie: on every run the observable roles of
   every peer after every real frame must be the projection of a state the extracted `explore`
   reaches from the promotion request, and the final session a settled one (ocaml/drv_absprom.ml).
   This file is about the hand-over of ROLES; that entities, values and links survive it and that
   later writes and joins work is checked on the frame-level model by the per-frame
   correspondence and the oracle (one client), and then falls under C01/C02/C03/C05. *)
From stdpp Require Import gmap list.
From Coq Require Import NArith.
From BS Require Import Abs.Promotion Abs.PromotionProofs Abs.PromotionMeasure Abs.PromotionAllN.
Local Open Scope N_scope.

(* ONE client: whatever the interleaving, the hand-over terminates (a measure drops with every
   event: at most 36 events), every run that cannot be continued has handed the session over —
   peer 1 is nothing but the host of [0], peer 0 nothing but its connected client, ServerState
   Disconnected, flags and edges clear, no traffic — and every run can be completed to such a state *)
Theorem C07_single_client_promotion :
  forall tr s, all_internal tr -> run (promoted 1 1) tr = Some s ->
    (length tr + measure s <= measure (promoted 1 1%N))%nat
    /\ (stable s -> handed_over s 1 0)
    /\ (~ stable s -> exists e s', internal e = true /\ step s e = Some s' /\ (measure s' < measure s)%nat)
    /\ (exists tr' s', all_internal tr' /\ run s tr' = Some s' /\ stable s' /\ handed_over s' 1 0).
Proof. exact PromotionProofs.C07_single_client_promotion. Qed.

Theorem C07_single_client : C07_statement 1 1.
Proof. exact PromotionProofs.C07_single_client. Qed.

(* sessions of ANY size, any events (arbitrary promotions included): the role invariant *)
Theorem C07_roles_invariant :
  forall n tr s, run (session n) tr = Some s -> roles_inv s.
Proof. exact PromotionProofs.promotion_preserves_roles_invariant. Qed.

(* one promotion in a session of ANY size, at every point of every run: at most the old host and
   the promoted peer host; the promoted peer keeps hosting once it does *)
Theorem C07_at_most_two_hosts :
  forall n k tr s, k ∈ client_ids n -> all_internal tr -> run (promoted n k) tr = Some s ->
    forall p, p ∈ hosts s -> p = host \/ p = k.
Proof. exact PromotionProofs.at_most_two_hosts. Qed.

Theorem C07_promoted_host_keeps_hosting :
  forall n k tr s tr' s', k ∈ client_ids n -> all_internal tr -> run (promoted n k) tr = Some s ->
    all_internal tr' -> run s tr' = Some s' ->
    pget hosting false s k = true -> pget hosting false s' k = true.
Proof. exact PromotionProofs.promoted_host_keeps_hosting. Qed.

(* TWO and THREE clients (finding S8, repaired by 7fb659b and b8e47f4): whatever the interleaving, the
   hand-over terminates (at most 50 / 64 events), every run that cannot be continued is the goal
   state — exactly the promoted peer hosts, every other peer (the former host included) is nothing
   but its connected client with a live link and clear flags, no traffic — and every run can be
   completed to such a state. (A state is stable only when the former host has learnt, through
   renet's time-out, that its remaining clients are gone.) *)
Theorem C07_two_clients_promotion :
  forall tr s, all_internal tr -> run (promoted 2 1) tr = Some s ->
    (length tr + measure s <= measure (promoted 2 1%N))%nat
    /\ (stable s -> session_ok s 1 /\ promotion_outcome s 1 /\ length (pget clients [] s 1) = 2%nat)
    /\ (~ stable s -> exists e s', internal e = true /\ step s e = Some s' /\ (measure s' < measure s)%nat)
    /\ (exists tr' s', all_internal tr' /\ run s tr' = Some s' /\ stable s' /\ session_ok s' 1 /\ promotion_outcome s' 1).
Proof. exact PromotionProofs.C07_two_clients_promotion. Qed.

Theorem C07_three_clients_promotion :
  forall tr s, all_internal tr -> run (promoted 3 1) tr = Some s ->
    (length tr + measure s <= measure (promoted 3 1%N))%nat
    /\ (stable s -> session_ok s 1 /\ promotion_outcome s 1 /\ length (pget clients [] s 1) = 3%nat)
    /\ (~ stable s -> exists e s', internal e = true /\ step s e = Some s' /\ (measure s' < measure s)%nat)
    /\ (exists tr' s', all_internal tr' /\ run s tr' = Some s' /\ stable s' /\ session_ok s' 1 /\ promotion_outcome s' 1).
Proof. exact PromotionProofs.C07_three_clients_promotion. Qed.

(* ANY number of clients, ANY choice of the promoted client (Abs/PromotionMeasure.v, Abs/PromotionAllN.v:
   a progress invariant over the phases of the hand-over, proved by induction over the events, no
   exploration): whatever the interleaving, the hand-over terminates (the measure drops with every
   event), every run that cannot be continued is the goal state -- exactly the promoted peer hosts,
   all n other peers (the former host included) are in its client table and are nothing but its
   connected clients with a live link and clear flags, no traffic --, a run that can be continued has
   an event that makes progress, and every run can be completed to the goal state *)
Theorem C07_any_number_of_clients :
  forall n k, k ∈ client_ids n ->
  forall tr s, all_internal tr -> run (promoted n k) tr = Some s ->
    (length tr + measure s <= measure (promoted n k))%nat
    /\ (stable s -> session_ok s k /\ promotion_outcome s k /\ length (pget clients [] s k) = n)
    /\ (~ stable s -> exists e s', internal e = true /\ step s e = Some s' /\ (measure s' < measure s)%nat)
    /\ (exists tr' s', all_internal tr' /\ run s tr' = Some s' /\ stable s' /\ session_ok s' k /\ promotion_outcome s' k).
Proof. exact PromotionAllN.C07_all_n_promotion. Qed.

Theorem C07_full_statement_for_all : forall n k, k ∈ client_ids n -> C07_statement n k.
Proof. exact PromotionAllN.C07_all_n. Qed.

(* the instances with up to three clients were first obtained by exhaustive exploration (kept: they
   cross-check the invariant); for EVERY number of clients the safety half: at every point of every
   run at most the old host and
   the promoted peer host, every other client is still an ordinary client of the old host or has
   moved to the new one with a fresh RenetClient that is never dead, its flags never set, and the
   old host — while it still has its server after handling NewHost — is closing *)
Theorem C07_up_to_three_clients_and_safety_for_all :
  C07_statement 1 1 /\ C07_statement 2 1 /\ C07_statement 2 2 /\ C07_statement 3 1 /\
  forall n k tr s, k ∈ client_ids n -> all_internal tr -> run (promoted n k) tr = Some s ->
    roles_inv s /\ spi k s /\
    (forall p, p ∈ hosts s -> p = host \/ p = k) /\
    (forall c, c ∈ client_ids n -> c <> k ->
       exists x, ps s !! c = Some x /\ (untouched s c x \/ moved s k c x) /\
                 flag x = false /\ closing x = false /\ sticky x = false /\ ~ stranded x) /\
    (forall x0, ps s !! host = Some x0 -> hosting x0 = true ->
       closing x0 = true \/ (closing x0 = false /\ client_of x0 = None /\ flag x0 = false)).
Proof. exact PromotionProofs.C07_all_n_partial. Qed.

(* Repeated promotions (finding S9, repaired by 7fb659b): in a two-peer session the promotion back
   hands the session over again whether or not the kick of the first hand-over reached the new
   host's RenetClient — and so does every further promotion of the chain *)
Theorem C07_chain : C07_chain_statement.
Proof. exact PromotionProofs.C07_chain. Qed.

Theorem C07_chain_forever :
  forall i F, chain_end i F ->
    handed_over F (host_at i) (host_at (S i)) /\
    step F (EPromote (host_at i) (host_at (S i))) = Some (promote_in F (host_at i) (host_at (S i))) /\
    forall tr s, all_internal tr -> run (promote_in F (host_at i) (host_at (S i))) tr = Some s ->
      (length tr + measure s <= measure (promote_in F (host_at i) (host_at (S i))))%nat /\
      (stable s -> handed_over s (host_at (S i)) (host_at i) /\ chain_end (S i) s) /\
      (exists tr' s', all_internal tr' /\ run s tr' = Some s' /\ stable s' /\ handed_over s' (host_at (S i)) (host_at i)).
Proof. exact PromotionProofs.C07_chain_forever. Qed.

Print Assumptions C07_single_client_promotion.
Print Assumptions C07_single_client.
Print Assumptions C07_roles_invariant.
Print Assumptions C07_at_most_two_hosts.
Print Assumptions C07_promoted_host_keeps_hosting.
Print Assumptions C07_two_clients_promotion.
Print Assumptions C07_three_clients_promotion.
Print Assumptions C07_up_to_three_clients_and_safety_for_all.
Print Assumptions C07_any_number_of_clients.
Print Assumptions C07_full_statement_for_all.
Print Assumptions C07_chain.
Print Assumptions C07_chain_forever.
