(* C02 — Component values converge to the most recent write on every peer.
   Statements only; proofs are `exact`. Model: the event-level value pipeline of ONE component
   key (Abs/Values.v: write, change-detector run with its token, send, delivery with
   relay-if-changed on the host, join with snapshot), mirroring sync_detect /
   signal_component_changed / react_on_changed_components / apply_component_change of
   Sync/Model.v (src/lib_priv.rs, server|client/receiver.rs). Any number of clients, every
   interleaving of the atomic events of all peers (a superset of what frames can produce). *)
From stdpp Require Import gmap list.
From Coq Require Import NArith.
From BS Require Import Abs.Values Abs.ValuesProofs.

(* Writers separated by a drain (between two writes by different peers the system is quiescent at
   least once), and a joiner does not write before its join has settled: then at EVERY quiescent
   state every peer of the session holds the value of the most recent write — whoever wrote it,
   for writes in consecutive events, for receivers that apply several updates before their
   detector runs, for any number of peers and any interleaving, with joins anywhere. *)
Theorem C02_values_converge :
  forall n tr s',
    vrun (vinit n) tr = Some s' ->
    drain_separated (vinit n) tr -> joiners_settled (vinit n) tr ->
    vquiescent s' ->
    forall p, peers s' p -> pcur s' p = last (written tr).
Proof. exact ValuesProofs.C02_values_converge. Qed.

Theorem C02_every_quiescent_state :
  forall n tr1 tr2 s1,
    drain_separated (vinit n) (tr1 ++ tr2) -> joiners_settled (vinit n) (tr1 ++ tr2) ->
    is_Some (vrun (vinit n) (tr1 ++ tr2)) ->
    vrun (vinit n) tr1 = Some s1 -> vquiescent s1 ->
    forall p, peers s1 p -> pcur s1 p = last (written tr1).
Proof. exact ValuesProofs.C02_every_quiescent_state. Qed.

(* a client joining at any moment ends with the host's value = the most recent write *)
Theorem C02_joiner_gets_current_value :
  forall n tr1 c tr2 s',
    let tr := tr1 ++ VJoin c :: tr2 in
    vrun (vinit n) tr = Some s' -> drain_separated (vinit n) tr -> joiners_settled (vinit n) tr -> vquiescent s' ->
    c ∈ vconn s' /\ pcur s' c = pcur s' host /\ pcur s' c = last (written tr).
Proof. exact ValuesProofs.join_gets_current_value_drain_separated. Qed.

(* Known finding S22: drain separation alone is not enough — a client that writes in the window
   between its join and the settling of its snapshot loses the write (the snapshot's token
   swallows it). The hypothesis `joiners_settled` above is exactly what excludes this class. *)
Theorem C02_refuted_in_join_window :
  exists n tr s' p,
    vrun (vinit n) tr = Some s' /\ drain_separated (vinit n) tr /\ vquiescent s' /\ peers s' p /\
    pcur s' p <> last (written tr) /\ ~ joiners_settled (vinit n) tr.
Proof. exact ValuesProofs.C02_join_write_refuted. Qed.

Print Assumptions C02_values_converge.
Print Assumptions C02_every_quiescent_state.
Print Assumptions C02_joiner_gets_current_value.
Print Assumptions C02_refuted_in_join_window.
