(* C02 — Component values converge to the most recent write on every peer.
   Statements only; proofs are `exact`. Model: the event-level value pipeline of ONE component
   key (Abs/Values.v: write, change-detector run with its token, send, delivery with
   relay-if-changed on the host, join with snapshot), mirroring sync_detect /
   signal_component_changed / react_on_changed_components / apply_component_change of
   Sync/Model.v (src/lib_priv.rs, server|client/receiver.rs). Any number of clients, every
   interleaving of the atomic events of all peers (a superset of what frames can produce). *)
From stdpp Require Import gmap list.
From Coq Require Import NArith.
From BS Require Import Abs.Values Abs.ValuesProofs Abs.ValuesCausal.

(* Writers separated by a drain (between two writes by different peers the system is quiescent at
   least once), and a joiner does not write while its snapshot is still on its way to it: then at EVERY quiescent
   state every peer of the session holds the value of the most recent write — whoever wrote it,
   for writes in consecutive events, for receivers that apply several updates before their
   detector runs, for any number of peers and any interleaving, with joins anywhere. *)
Theorem C02_values_converge :
  forall n tr s',
    vrun (vinit n) tr = Some s' ->
    drain_separated (vinit n) tr -> joiners_received (vinit n) tr ->
    vquiescent s' ->
    forall p, peers s' p -> pcur s' p = last (written tr).
Proof. exact ValuesProofs.C02_values_converge. Qed.

Theorem C02_every_quiescent_state :
  forall n tr1 tr2 s1,
    drain_separated (vinit n) (tr1 ++ tr2) -> joiners_received (vinit n) (tr1 ++ tr2) ->
    is_Some (vrun (vinit n) (tr1 ++ tr2)) ->
    vrun (vinit n) tr1 = Some s1 -> vquiescent s1 ->
    forall p, peers s1 p -> pcur s1 p = last (written tr1).
Proof. exact ValuesProofs.C02_every_quiescent_state. Qed.

(* a client joining at any moment ends with the host's value = the most recent write *)
Theorem C02_joiner_gets_current_value :
  forall n tr1 c tr2 s',
    let tr := tr1 ++ VJoin c :: tr2 in
    vrun (vinit n) tr = Some s' -> drain_separated (vinit n) tr -> joiners_received (vinit n) tr -> vquiescent s' ->
    c ∈ vconn s' /\ pcur s' c = pcur s' host /\ pcur s' c = last (written tr).
Proof. exact ValuesProofs.join_gets_current_value_drain_separated. Qed.

(* The premise `joiners_received` (a client that joined since the last quiescent state does not
   write while its snapshot is still travelling towards it) cannot be dropped in this abstraction,
   where the key exists on a joiner from the start: the joiner's announcement would cross its
   snapshot. In the real code a joiner has the entity only once the snapshot (or a live spawn)
   delivered it, so a fresh joiner cannot write earlier. Before the repair e13e196 the stronger
   `joiners_settled` was needed (defect S22: a write in the window between a network apply and the
   next detector run was swallowed); that history now converges (ValuesProofs.C02_join_write_example). *)
Theorem C02_refuted_in_join_window :
  exists n tr s' p q,
    vrun (vinit n) tr = Some s' /\ drain_separated (vinit n) tr /\ vquiescent s' /\ peers s' p /\ peers s' q /\
    pcur s' p <> last (written tr) /\ pcur s' p <> pcur s' q /\ ~ joiners_received (vinit n) tr.
Proof. exact ValuesProofs.C02_join_window_refuted. Qed.

(* The same under a WEAKER, causal premise (Abs/ValuesCausal.v): the session need not be drained
   between two writers. A peer other than the author w of the previous write writes as soon as
   everything w wrote has reached it: w's detector has run and w is not armed, w's link to the host
   and the host's link to the writer are empty. Writes of one peer at any pace, joins at any moment;
   `joiners_received` is implied. Then at every quiescent state every peer holds the last write. *)
Theorem C02_causal_converge :
  forall n tr s',
    vrun (vinit n) tr = Some s' -> causally_ordered (vinit n) tr = true -> vquiescent s' ->
    forall p, peers s' p -> pcur s' p = last (written tr).
Proof. exact ValuesCausal.C02_causal_converge_strong. Qed.

Theorem C02_causal_every_quiescent_state :
  forall n tr1 tr2 s1,
    causally_ordered (vinit n) (tr1 ++ tr2) = true -> vrun (vinit n) tr1 = Some s1 -> vquiescent s1 ->
    forall p, peers s1 p -> pcur s1 p = last (written tr1).
Proof. exact ValuesCausal.C02_causal_every_quiescent_state. Qed.

(* the premise means what it should: a peer allowed to write displays the most recent write *)
Theorem C02_causal_writer_is_current :
  forall n tr1 p v tr2 s,
    causally_ordered (vinit n) (tr1 ++ VWrite p v :: tr2) = true -> vrun (vinit n) tr1 = Some s ->
    is_Some (vstep s (VWrite p v)) -> pcur s p = last (written tr1).
Proof. exact ValuesCausal.causal_writer_is_current. Qed.

(* every drain-separated history (with the join premise) is causally ordered: the theorem above
   subsumes C02_values_converge; the inclusion is strict (ValuesCausal.C02_causal_nonvacuous) *)
Theorem C02_drain_separated_is_causal :
  forall n tr, drain_separated (vinit n) tr -> joiners_received (vinit n) tr -> causally_ordered (vinit n) tr = true.
Proof. exact ValuesCausal.drain_separated_is_causal. Qed.

Theorem C02_causal_implies_joiners_received :
  forall n tr, causally_ordered (vinit n) tr = true -> joiners_received (vinit n) tr.
Proof. exact ValuesCausal.causal_implies_joiners_received. Qed.

(* "p displays the value of the previous write" is NOT enough, whatever is added about links being
   empty: comparing values cannot tell whether the message of the previous write has arrived
   (A -> B -> A by the previous author; a re-write of the displayed value not yet announced) *)
Theorem C02_value_comparison_is_not_enough :
  exists n tr s' p q,
    vrun (vinit n) tr = Some s' /\ naive_causal side_all_links (vinit n) tr = true /\
    naive_causal side_links (vinit n) tr = true /\ naive_causal side_idle (vinit n) tr = true /\
    joiners_received (vinit n) tr /\ vquiescent s' /\ peers s' p /\ peers s' q /\
    pcur s' p <> last (written tr) /\ pcur s' p <> pcur s' q.
Proof. exact ValuesCausal.C02_naive_causal_refuted. Qed.

(* every local write is announced unless a network apply overtakes it before the detector runs;
   a peer becomes armed (will emit) only by its own write *)
Theorem C02_armed_only_by_write :
  forall s e s' p,
    vstep s e = Some s' -> varmed s p = false -> varmed s' p = true -> exists v, e = VWrite p v.
Proof. exact ValuesProofs.armed_only_by_write. Qed.

Theorem C02_write_arms :
  forall s p v s', vstep s (VWrite p v) = Some s' -> varmed s' p = true.
Proof. exact ValuesProofs.write_arms. Qed.

Print Assumptions C02_values_converge.
Print Assumptions C02_every_quiescent_state.
Print Assumptions C02_joiner_gets_current_value.
Print Assumptions C02_refuted_in_join_window.
Print Assumptions C02_armed_only_by_write.
Print Assumptions C02_write_arms.
Print Assumptions C02_causal_converge.
Print Assumptions C02_causal_every_quiescent_state.
Print Assumptions C02_causal_writer_is_current.
Print Assumptions C02_drain_separated_is_causal.
Print Assumptions C02_causal_implies_joiners_received.
Print Assumptions C02_value_comparison_is_not_enough.
