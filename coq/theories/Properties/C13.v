(* C13 — Image wire encoding is lossless.
   Statements only; every proof is `exact <lemma>`. Model: Codec/ImageCodec.v (image_to_bin /
   bin_to_image over the bincode model Codec/Schema.v and the lz4 model Codec/Lz4.v). Source tie:
   BSGen.ImageLayout is regenerated from /repo/src/networking/assets/image_serde.rs on every run
   and the model is DEFINED over its tables; BSGen.FormatNames is regenerated from the real
   TextureFormat serializer (harness, `bsh codec-formats`). *)
From Coq Require Import List NArith.
From BS Require Import Codec.Schema Codec.Lz4 Codec.CodecTypes Codec.ImageCodec Codec.ImageCodecProofs.
From BSGen Require Import ImageLayout FormatNames.
Import ListNotations.
Local Open Scope N_scope.

(* ---- the code's declarative fragments are the ones the model was written for ---------- *)

Theorem C13_source_dimension_tables_inverse :
  forallb (fun p => dimension_eqb (num_to_dim (snd p)) (fst p)) dim_enc_table = true
  /\ forallb (fun p => dim_to_num (snd p) =? fst p) dim_dec_table = true
  /\ forallb (fun d => existsb (fun p => dimension_eqb (fst p) d) dim_enc_table) all_dimensions = true
  /\ map fst dim_dec_table = [1; 2; 3] /\ dim_dec_default = Dim2.
Proof. exact source_dimension_tables_inverse. Qed.

(* the wire layout of `struct ImageData` (field order and types) *)
Theorem C13_source_layout :
  imagedata_fields =
  [(I_width, TInt 4); (I_height, TInt 4); (I_depth_or_array_layers, TInt 4); (I_dimensions, TInt 1);
   (I_format, TBytes); (I_data, TSeq (TInt 1))].
Proof. exact source_image_layout. Qed.

(* every argument of `Image::new` comes from the field that was initialised from the same part
   of the image; all six parts are transported *)
Theorem C13_source_wiring :
  Forall (fun p => ifield_source (snd p) = Some (fst p)) image_dec_targets
  /\ forallb (fun s => existsb (fun p => isource_eqb (fst p) s) image_dec_targets) all_isources = true.
Proof. exact source_image_wiring. Qed.

(* ---- the property ------------------------------------------------------------------------ *)

(* For every image -- any width, height, depth / layer count (u32, zero included), any of the
   three dimensions, any format name, any pixel bytes of any length (no bound) -- encoding
   succeeds and decoding returns `Some` of exactly that image. *)
Theorem C13_image_lossless :
  forall i, wf_image i -> exists bs, image_to_bin i = Some bs /\ bin_to_image bs = Ok (Some i).
Proof. exact ImageCodecProofs.C13_image_lossless. Qed.

(* Finite statement over the table the real serializer produced ([format_count] rows: every
   TextureFormat variant, Astc once per block and channel): two formats with the same name on
   the wire are the same format, so "same format name" above is "same format". *)
Theorem C13_format_names_injective :
  forall r1 r2, In r1 format_table -> In r2 format_table -> wire_name r1 = wire_name r2 -> r1 = r2.
Proof. exact format_names_injective. Qed.

Theorem C13_format_table_is_complete_and_distinct :
  NoDup (map wire_name format_table) /\ NoDup (map debug_name format_table)
  /\ N.of_nat (length format_table) = format_count
  /\ N.of_nat (length (filter is_uncompressed format_table)) = uncompressed_count.
Proof. exact (conj (proj1 format_names_nodup) (conj (proj2 format_names_nodup) format_table_size)). Qed.

(* every real format name gives well-formed images, e.g. this 2x1x3 one *)
Theorem C13_wf_is_inhabited :
  Forall (fun r => N.of_nat (length (wire_name r)) < 2 ^ 64 /\ Forall (fun x => x < 256) (wire_name r))
         format_table
  /\ wf_image ex_image.
Proof. exact (conj format_names_are_bytes ex_image_wf). Qed.

Theorem C13_executed_model_is_specified_model :
  (forall i, image_to_bin_fast i = image_to_bin i) /\ (forall bs, bin_to_image_fast bs = bin_to_image bs).
Proof. exact (conj image_to_bin_fast_eq bin_to_image_fast_eq). Qed.

(* on EVERY byte string bin_to_image panics in decompress, returns None (bincode failure) or an
   image: the model-internal outcome Stuck is reached by no input *)
Theorem C13_decoder_never_stuck : forall bs, bin_to_image bs <> Stuck.
Proof. exact bin_to_image_never_stuck. Qed.

Print Assumptions C13_source_dimension_tables_inverse.
Print Assumptions C13_source_layout.
Print Assumptions C13_source_wiring.
Print Assumptions C13_image_lossless.
Print Assumptions C13_format_names_injective.
Print Assumptions C13_format_table_is_complete_and_distinct.
Print Assumptions C13_wf_is_inhabited.
Print Assumptions C13_executed_model_is_specified_model.
Print Assumptions C13_decoder_never_stuck.
