(* C06 — Assets published under a uuid replicate with identical content.
   Statements only; proofs are `exact`. Model: the event-level abstraction of the replication of
   ONE uuid (Abs/Assets.v), after the repairs 2185395 (serve_* replace), ecf3dec (one debounce per
   applied update) and 19e1d6e (request always fetches).
   Part A, a URL class (mesh / image / audio): per peer the store Assets<T>[uuid], the number of
   unread asset events, the debounce counter, the served HTTP cache entry, the pending downloads;
   events APublish (application inserts content), AReact1 / AReact (react_on_changed_*: an event
   is debounced or the CURRENT content is served and this peer announced as owner), ADeliver (the
   announcement is handled: download queued; the host relays it), ADownload (GET from the
   owner's cache at that moment + process_*_assets), AJoin (snapshot: the host serves its copy).
   Part M, materials: content inline in the message.
   Content equality itself (bytes -> mesh / image) is C11 / C13; what the HTTP endpoint returns is
   C14. Any number of clients, every interleaving of the atomic events. The frame-level model
   (Sync/Model.v: insert_asset, react_on_changed_assets, request_asset, process_assets, serve_all)
   is tied to the code by the per-frame correspondence with finished downloads as oracle input. *)
From stdpp Require Import gmap list.
From Coq Require Import NArith.
From BS Require Import Abs.Assets Abs.AssetsProofs.
From BS Require Abs.Downloads Abs.DownloadsProofs.
Local Open Scope N_scope.

(* the general form: the publisher changes only at quiescent states (the SAME peer may publish and
   overwrite at any pace), fresh clients join at ANY moment (also while the host is still downloading
   the asset: the defect S26 is repaired, 8b1d5d0): at every quiescent state every peer holds the last
   published content *)
Theorem C06_publishers_hand_over_at_quiescence :
  forall n w0 tr s',
    arun (ainit n) tr = Some s' -> fresh_joins tr -> handover_at_quiescence w0 (ainit n) tr = true ->
    aquiescent s' ->
    forall q, peers s' q -> pstore s' q = last (published tr).
Proof. exact AssetsProofs.C06_handover_any_join. Qed.

(* ONE publisher (host, client, or a client that joined later), any pace, overwrites included *)
Theorem C06_single_publisher :
  forall n w tr s',
    arun (ainit n) tr = Some s' -> only_publisher w tr -> fresh_joins tr -> aquiescent s' ->
    forall q, peers s' q -> pstore s' q = last (published tr).
Proof. exact AssetsProofs.C06_single_publisher_any_join. Qed.

(* several publishers, every publication and join at a quiescent state *)
Theorem C06_drain_separated :
  forall n tr s',
    arun (ainit n) tr = Some s' -> fresh_joins tr -> ops_at_quiescence (ainit n) tr = true -> aquiescent s' ->
    forall q, peers s' q -> pstore s' q = last (published tr).
Proof. exact AssetsProofs.C06_drain_separated. Qed.

(* a fresh client joining at ANY moment ends with the host's content *)
Theorem C06_join_gets_asset :
  forall n w0 tr1 c tr2 s',
    let tr := tr1 ++ AJoin c None :: tr2 in
    arun (ainit n) tr = Some s' -> fresh_joins tr -> handover_at_quiescence w0 (ainit n) tr = true ->
    aquiescent s' ->
    c ∈ aconn s' /\ pstore s' c = pstore s' host /\ pstore s' c = last (published tr).
Proof. exact AssetsProofs.join_gets_asset_any_join. Qed.

(* no echo: a peer that never published never announces anything (its debounce counter covers
   exactly its unread events), in every reachable state, whatever the joins *)
Theorem C06_no_echo :
  forall n w tr s',
    arun (ainit n) tr = Some s' -> only_publisher w tr ->
    forall q, q <> w -> ptok s' q = pevents s' q /\ originates s' q = false.
Proof. exact AssetsProofs.no_echo. Qed.

(* traffic of EVERY run (any publishers, any pace, any joins) and of one publication *)
Theorem C06_traffic_bound :
  forall n tr s',
    arun (ainit n) tr = Some s' ->
    (total_sent (ainit n) tr <= length (published tr) * (n + length (joins tr)) + length (joins tr))%nat /\
    (total_downloads (ainit n) tr <= total_sent (ainit n) tr)%nat.
Proof. exact AssetsProofs.traffic_bound. Qed.

Theorem C06_publication_cost :
  forall n tr0 s p c rest s',
    arun (ainit n) tr0 = Some s -> aquiescent s -> Forall plain rest -> arun s (APublish p c :: rest) = Some s' ->
    (total_sent s (APublish p c :: rest) <= length (aconn s))%nat /\
    (total_downloads s (APublish p c :: rest) <= length (aconn s))%nat.
Proof. exact AssetsProofs.publication_cost. Qed.

(* materials: no join window at all *)
Theorem C06_materials_hand_over_at_quiescence :
  forall n w0 tr s',
    mrun (minit n) tr = Some s' -> mhandover_at_quiescence w0 (minit n) tr = true -> mquiescent s' ->
    forall q, mpeers s' q -> mpstore s' q = last (mpublished tr).
Proof. exact AssetsProofs.M06_handover. Qed.

Theorem C06_materials_single_publisher :
  forall n w tr s',
    mrun (minit n) tr = Some s' -> monly_publisher w tr -> mquiescent s' ->
    forall q, mpeers s' q -> mpstore s' q = last (mpublished tr).
Proof. exact AssetsProofs.M06_single_publisher. Qed.

Theorem C06_materials_no_echo :
  forall n w tr s',
    mrun (minit n) tr = Some s' -> monly_publisher w tr ->
    forall q, q <> w -> mptok s' q = mpevents s' q /\ moriginates s' q = None.
Proof. exact AssetsProofs.mno_echo. Qed.

Theorem C06_materials_traffic_bound :
  forall n tr s',
    mrun (minit n) tr = Some s' ->
    (mtotal_sent (minit n) tr <= length (mpublished tr) * (n + length (mjoins tr)) + length (mjoins tr))%nat.
Proof. exact AssetsProofs.mtraffic_bound. Qed.

(* S26 (repaired by 8b1d5d0; reproduced on the real code before: corpus/proto/S26_*.scn): a client joining
   while the host's own download of an announced version is pending used to be told nothing (first
   publication) or given the host's OLD copy for ever (overwrite). The snapshot now hands on the owner
   the host was told to fetch from; what a join costs and what it carries: *)
Theorem C06_join_cost :
  forall s c pre s',
    awf s -> astep s (AJoin c pre) = Some s' ->
    sent1 s (AJoin c pre) = (if decide (pstore s host <> None \/ ppending s host <> []) then 1 else 0)%nat /\
    length (link s' host c) = sent1 s (AJoin c pre) /\
    (forall o, o ∈ link s' host c -> if decide (ppending s host = []) then o = host else last (ppending s host) = Some o).
Proof. exact AssetsProofs.join_cost. Qed.

(* outside the property: publishers that are not separated by a drain may end quiescent and disagree *)
Theorem C06_concurrent_publishers_may_disagree :
  exists n tr s',
    arun (ainit n) tr = Some s' /\ no_joins tr /\ aquiescent s' /\ published tr = [10; 20] /\
    ops_at_quiescence (ainit n) tr = false /\ handover_at_quiescence 1 (ainit n) tr = false /\
    pstore s' 0 = Some 20 /\ pstore s' 1 = Some 20 /\ pstore s' 2 = Some 10.
Proof. exact AssetsProofs.concurrent_publishers_disagree. Qed.

(* "every timing of the asynchronous HTTP download relative to frames and to further operations":
   the registry of pending downloads of ONE asset on ONE receiving peer (Abs/Downloads.v: requests
   are numbered, a download fetches whatever version the publisher's cache holds when its response
   is built, downloads arrive in ANY order, a download that arrives after a download of a later
   request is dropped, the registry entry is forgotten and re-created). Tie: the instrumented
   registry logs every step in lock order and the extracted model must take the same decisions
   (ocaml/drv_absdl.ml). For every interleaving of publications, requests, fetches, arrivals, thread
   ends and applications, without failed downloads: once nothing is on its way the peer holds the
   publisher's latest version *)
Theorem C06_downloads_any_order :
  forall tr s, Downloads.no_fail tr -> Downloads.drun true Downloads.dinit tr = Some s ->
    Downloads.dquiet s -> (Downloads.version s > 0)%nat ->
    Downloads.applied s = Some (Downloads.version s).
Proof. exact DownloadsProofs.downloads_converge. Qed.

(* the code before the repair f2a0ca4 (defect S31: every arrival was kept): a large first version
   overtaken by a small second one arrives last and stays *)
Theorem C06_downloads_unnumbered_refuted :
  exists tr s, Downloads.no_fail tr /\ Downloads.drun false Downloads.dinit tr = Some s /\ Downloads.dquiet s /\
    (Downloads.version s > 0)%nat /\ Downloads.applied s <> Some (Downloads.version s).
Proof. exact DownloadsProofs.downloads_unnumbered_refuted. Qed.

(* at every point of every run (failed downloads included): an entry exists while a download is under
   way, its counters are consistent, and what waits or is applied is a version that was published *)
Theorem C06_downloads_registry_safe :
  forall tr s, Downloads.drun true Downloads.dinit tr = Some s ->
    (Downloads.flights s <> [] -> Downloads.present s = true) /\
    (Downloads.arrived s <= Downloads.requested s)%nat /\
    (Downloads.present s = false -> Downloads.requested s = 0%nat /\ Downloads.arrived s = 0%nat) /\
    (forall v, Downloads.applied s = Some v -> (1 <= v <= Downloads.version s)%nat) /\
    (forall v, Downloads.slot s = Some v -> (1 <= v <= Downloads.version s)%nat).
Proof. exact DownloadsProofs.downloads_safe. Qed.

(* and every run can be completed to a state in which nothing is on its way *)
Theorem C06_downloads_can_complete :
  forall tr s, Downloads.drun true Downloads.dinit tr = Some s ->
    exists tr' s', Downloads.drun true s tr' = Some s' /\ Downloads.dquiet s' /\
      Downloads.version s' = Downloads.version s /\ (Downloads.no_fail tr -> Downloads.no_fail tr').
Proof. exact DownloadsProofs.downloads_complete. Qed.

Print Assumptions C06_publishers_hand_over_at_quiescence.
Print Assumptions C06_single_publisher.
Print Assumptions C06_drain_separated.
Print Assumptions C06_join_gets_asset.
Print Assumptions C06_no_echo.
Print Assumptions C06_traffic_bound.
Print Assumptions C06_publication_cost.
Print Assumptions C06_materials_hand_over_at_quiescence.
Print Assumptions C06_materials_single_publisher.
Print Assumptions C06_materials_no_echo.
Print Assumptions C06_materials_traffic_bound.
Print Assumptions C06_join_cost.
Print Assumptions C06_concurrent_publishers_may_disagree.
Print Assumptions C06_downloads_any_order.
Print Assumptions C06_downloads_unnumbered_refuted.
Print Assumptions C06_downloads_registry_safe.
Print Assumptions C06_downloads_can_complete.
