(* C05 — Parent-child links between synchronized entities converge.
   Statements only; proofs are `exact`. Model: the event-level abstraction of the replication of
   the parent link of ONE synchronized child (Abs/Parents.v): per peer the current parent, Bevy's
   Changed<Parent> flag, and the record of the link last applied from the network
   (pushed_parent_from_network, consumed by the next run of the tracking system); atomic events
   PSet (application calls set_parent), PAnnounce (entity_parented_on_server / _on_client runs),
   PDeliver (one EntityParented handled: applied only if different, the host relays it to the
   other clients unconditionally), PJoin (snapshot). Mirrors src/{server,client}/track.rs,
   src/{server,client}/receiver.rs, src/full_sync/mod.rs after the repair bca5085. Any number of
   clients, every interleaving of the atomic events (a superset of what frames can produce).
   The model's `pstep` replays the event sequences extracted from real traces on every run
   (ocaml/drv_abspar.ml). The hierarchy bookkeeping itself (child listed exactly once under the new
   parent and under no other) is Bevy's set_parent / add_child, checked by the frame-level
   correspondence and the oracle, not proved here. *)
From stdpp Require Import gmap list.
From Coq Require Import NArith.
From BS Require Import Abs.Parents Abs.ParentsProofs Abs.ParentsCausal.
From BS Require Import Sync.Types Sync.Model Sync.Observe Sync.Proofs.Hierarchy.

(* Operations by arbitrary peers to arbitrary parents; operations of one and the same peer may follow
   each other at any pace (A -> B -> A included); an operation by a DIFFERENT peer than the previous
   one is issued at a quiescent state ("non-conflicting"); clients may join at ANY moment: at every
   quiescent state every peer has the child under the parent given by the last operation. *)
Theorem C05_converges :
  forall n tr s',
    prun (pinit n) tr = Some s' -> writers_drain_separated (pinit n) tr = true ->
    pquiescent s' -> forall p, ppeers s' p -> ppar s' p = last_set tr.
Proof. exact ParentsProofs.C05_converges. Qed.

Theorem C05_every_quiescent_state :
  forall n tr1 tr2 s1,
    prun (pinit n) tr1 = Some s1 -> writers_drain_separated (pinit n) (tr1 ++ tr2) = true ->
    pquiescent s1 -> forall p, ppeers s1 p -> ppar s1 p = last_set tr1.
Proof. exact ParentsProofs.C05_every_quiescent_state. Qed.

(* hierarchies delivered through the joining snapshot: a client joining at any moment ends with the
   host's parent, the one given by the last operation *)
Theorem C05_join_gets_parent :
  forall n tr1 c tr2 s',
    let tr := tr1 ++ PJoin c :: tr2 in
    prun (pinit n) tr = Some s' -> writers_drain_separated (pinit n) tr = true ->
    pquiescent s' -> ppar s' c = ppar s' host /\ ppar s' c = last_set tr.
Proof. exact ParentsProofs.join_gets_parent. Qed.

(* "The exchange this triggers between peers terminates": from ANY well-formed state (no premise on
   the history, conflicts included) every effective announce / deliver event strictly decreases a
   measure, there is no infinite exchange, and a quiescent state is reachable *)
Theorem C05_exchange_measure :
  forall s e s',
    pwf s -> drain_event e -> effective s e = true -> pstep s e = Some s' -> pmeasure s' < pmeasure s.
Proof. exact ParentsProofs.drain_measure_decreases. Qed.

Theorem C05_no_infinite_exchange :
  forall (st : nat -> pstate) (ev : nat -> pevent),
    pwf (st 0) ->
    (forall i, drain_event (ev i) /\ effective (st i) (ev i) = true /\ pstep (st i) (ev i) = Some (st (S i))) ->
    False.
Proof. exact ParentsProofs.no_infinite_exchange. Qed.

Theorem C05_exchange_can_finish :
  forall s, pwf s -> exists tr s', Forall drain_event tr /\ prun s tr = Some s' /\ pquiescent s'.
Proof. exact ParentsProofs.drain_terminates. Qed.

(* one operation issued at a quiescent state costs at most n messages (n connected clients) *)
Theorem C05_messages_per_operation :
  forall s0 w u s1 tr s',
    pwf s0 -> pquiescent s0 -> pstep s0 (PSet w u) = Some s1 ->
    Forall drain_event tr -> prun s1 tr = Some s' ->
    ptotal_sent s1 tr <= length (pconn s0).
Proof. exact ParentsProofs.parent_messages_bounded. Qed.

(* a link applied from the network is not announced again; a different parent set locally after it is *)
Theorem C05_applied_link_not_echoed :
  forall s src dst s1,
    pstep s (PDeliver src dst) = Some s1 -> parmed s dst = false -> psent_by s1 (PAnnounce dst) = 0.
Proof. exact ParentsProofs.deliver_no_echo. Qed.

Theorem C05_local_change_after_apply_announced :
  forall s p u v s1,
    ptok s p = Some u -> pstep s (PSet p v) = Some s1 ->
    psent_by s1 (PAnnounce p) = if bool_decide (v = u) then 0 else length (pdsts s1 p).
Proof. exact ParentsProofs.set_after_apply_announced. Qed.

(* The same under a WEAKER, causal premise (Abs/ParentsCausal.v): the session need not be drained
   between two writers. A peer other than the author of the previous operation re-parents as soon as
   nothing of that author is in flight towards it (the author's tracking system has run, its link
   to the host and the host's link to the peer are empty) -- which implies that the peer HAS the
   previous operation's parent (C05_causal_premise_means_seen); operations of one peer at any pace;
   joins at any moment, except that the host does not revert to the parent it holds a debounce
   record for after a join inside that window (ruled out by frames: see C05_causal_naive_refuted
   below). Every drain-separated history is causally ordered, strictly. *)
Theorem C05_causal_converge :
  forall n tr s',
    prun (pinit n) tr = Some s' -> causally_ordered (pinit n) tr = true ->
    pquiescent s' -> forall p, ppeers s' p -> ppar s' p = last_set tr.
Proof. exact ParentsCausal.C05_causal_converge. Qed.

Theorem C05_causal_every_quiescent_state :
  forall n tr1 tr2 s1,
    prun (pinit n) tr1 = Some s1 -> causally_ordered (pinit n) (tr1 ++ tr2) = true ->
    pquiescent s1 -> forall p, ppeers s1 p -> ppar s1 p = last_set tr1.
Proof. exact ParentsCausal.C05_causal_every_quiescent_state. Qed.

(* after ANY causally ordered history, quiescent or not: every continuation by announce / deliver
   events that reaches a quiescent state has the last parent everywhere, the continuations are
   bounded in effective events and in messages, one of them reaches quiescence, none goes on for ever *)
Theorem C05_causal_terminates :
  forall n tr s',
    prun (pinit n) tr = Some s' -> causally_ordered (pinit n) tr = true ->
    (forall tr2 s'', Forall drain_event tr2 -> prun s' tr2 = Some s'' -> pquiescent s'' ->
       forall p, ppeers s'' p -> ppar s'' p = last_set tr) /\
    (forall tr2 s'', Forall drain_event tr2 -> prun s' tr2 = Some s'' ->
       peffective_count s' tr2 <= pmeasure s' /\ ptotal_sent s' tr2 <= ppotential (length (pconn s')) s') /\
    (exists tr2 s'', Forall drain_event tr2 /\ prun s' tr2 = Some s'' /\ pquiescent s'') /\
    (forall (st : nat -> pstate) (ev : nat -> pevent), st 0 = s' ->
       (forall i, drain_event (ev i) /\ effective (st i) (ev i) = true /\ pstep (st i) (ev i) = Some (st (S i))) -> False).
Proof. exact ParentsCausal.C05_causal_terminates. Qed.

Theorem C05_drain_separated_is_causal :
  forall n tr, writers_drain_separated (pinit n) tr = true -> causally_ordered (pinit n) tr = true.
Proof. exact ParentsCausal.drain_separated_is_causal. Qed.

(* the value test of the premise is redundant: nothing in flight implies the peer has seen the parent *)
Theorem C05_causal_premise_means_seen :
  forall n tr, causally_ordered_flight (pinit n) tr = causally_ordered (pinit n) tr.
Proof. exact ParentsCausal.causal_flight_has_seen. Qed.

(* without the join side condition the statement is FALSE of the event-level model: the host applies 7
   from client 1, its application sets 8, client 2 joins (snapshot: 8), the application sets 7 again,
   all before the host's tracking system runs: it finds parent = record = 7 and stays silent; the
   joiner keeps 8. No frame schedule produces this: the host's tracking system runs between any two
   polls of the host, so the record never survives from an apply to a join that is handled in a later
   poll, and a join handled in the same poll sees the applied parent (the frame-level correspondence
   and the C05 oracle cover the real schedules). *)
Theorem C05_causal_naive_refuted :
  exists n tr s', prun (pinit n) tr = Some s' /\ causally_ordered_naive (pinit n) tr = true /\ pquiescent s' /\
    exists p, ppeers s' p /\ ppar s' p <> last_set tr.
Proof. exact ParentsCausal.C05_causal_naive_refuted. Qed.

(* The BOOKKEEPING half, on the frame-level model (Sync/Proofs/Hierarchy.v; bevy_hierarchy's add_child /
   set_parent as mirrored by Model.add_child, tied to the engine by the per-frame correspondence, which
   compares Parent and Children of every entity): in every state of every run of application
   operations and frames of any number of peers — all executable orders, all oracles, panicked peers
   included — every alive child with an alive parent is listed in that parent's Children, every alive
   entity listed under q has Parent q, no Children list has duplicates (stale entries of plainly
   despawned entities are tolerated, as in Bevy 0.14). Premise: the script hands out every entity id
   once (Bevy never re-issues an Entity) and application systems queue no spawn of their own. *)
Theorem C05_hierarchy_consistent_on_every_run :
  forall n tr, hier_conforming n tr ->
    forall p pr, grun (init_global n) tr !! p = Some pr -> hier_ok pr.
Proof. exact Hierarchy.grun_hier_ok. Qed.

Theorem C05_hierarchy_invariant_of_a_frame :
  forall pr o, hier_inv pr -> hier_inv (frame pr o).
Proof. exact Hierarchy.frame_hier_inv. Qed.

(* "a re-parented child is listed exactly once among the new parent's children and under no other
   parent": after ANY re-parenting of an alive c under an alive p <> c — by the application, or applied
   from the network on a client or on the host — from a consistent state *)
Theorem C05_reparented_child_listed_exactly_once :
  forall pr c p pr',
    hier_ok pr -> alive pr c = true -> alive pr p = true -> c <> p ->
    reparent_op pr c p pr' ->
    hier_ok pr' /\ listed_once pr' c p.
Proof. exact Hierarchy.reparent_listed_once. Qed.

(* outside the property: two writers that are NOT separated by a drain may end quiescent and disagree *)
Theorem C05_conflicting_writers_may_diverge :
  exists tr s, prun (pinit 1) tr = Some s /\ pquiescent s /\
    psets tr = [(0, 1); (1, 2)]%N /\ writers_drain_separated (pinit 1) tr = false /\
    ppar s 0%N = Some 2%N /\ ppar s 1%N = Some 1%N.
Proof. exact ParentsProofs.conflict_diverges. Qed.

Print Assumptions C05_converges.
Print Assumptions C05_every_quiescent_state.
Print Assumptions C05_join_gets_parent.
Print Assumptions C05_exchange_measure.
Print Assumptions C05_no_infinite_exchange.
Print Assumptions C05_exchange_can_finish.
Print Assumptions C05_messages_per_operation.
Print Assumptions C05_applied_link_not_echoed.
Print Assumptions C05_local_change_after_apply_announced.
Print Assumptions C05_conflicting_writers_may_diverge.
Print Assumptions C05_causal_converge.
Print Assumptions C05_causal_every_quiescent_state.
Print Assumptions C05_causal_terminates.
Print Assumptions C05_drain_separated_is_causal.
Print Assumptions C05_causal_premise_means_seen.
Print Assumptions C05_causal_naive_refuted.
Print Assumptions C05_hierarchy_consistent_on_every_run.
Print Assumptions C05_hierarchy_invariant_of_a_frame.
Print Assumptions C05_reparented_child_listed_exactly_once.
