(* C08 — No peer crashes on traffic a conforming peer can send.
   Statements only; proofs are `exact`. Model: the frame-level model Sync/Model.v, where every
   partial operation of the Rust code is an explicit panic outcome; vocabulary (parents_ok,
   no_app_insert, conforming, conforming_links, no_hierarchy) in Sync/Proofs/Panic(Lemmas).v.
   After the `fix:` commits for S3, S4, S5 the only panic left inside bevy_sync is Bevy's own
   "cannot add entity as a child of itself" when a link message names one entity as child and
   parent — which a conforming sender never produces. *)
From stdpp Require Import gmap list.
From Coq Require Import NArith.
From BS Require Import Sync.Types Sync.Model Sync.Observe Sync.Proofs.PanicLemmas Sync.Proofs.Panic.
From BS Require Codec.CodecTypes Codec.MeshCodec Codec.MeshCodecProofs Codec.ImageCodec Codec.ImageCodecProofs.

(* Local, for EVERY peer state, EVERY executable order of Update (any list of systems, including
   orders Bevy never builds, application systems issuing despawns anywhere), EVERY oracle: a
   frame never panics on a dead entity (unknown / despawned between frames / despawned earlier in
   the same frame / parent missing / type not in the registry / registered on one side only) *)
Theorem C08_frame_never_panics_on_dead_entities :
  forall pr o, p_panic pr = None -> p_panic (frame pr o) <> Some PEntityMutDead.
Proof. exact frame_panic_sites. Qed.

Theorem C08_frame_panics_only_on_self_parent_link :
  forall pr o, p_panic pr = None -> no_app_insert pr ->
    p_panic (frame pr o) = None \/ p_panic (frame pr o) = Some PSetParentSelf.
Proof. exact frame_panic_only_self_parent. Qed.

(* ... and not at all when no self-parent link can be applied *)
Theorem C08_frame_no_panic :
  forall pr o, p_panic pr = None -> parents_ok pr -> p_panic (frame pr o) = None.
Proof. exact frame_no_panic. Qed.

(* ignored messages leave the receiver exactly as it was (and replication goes on: the panic flag
   is the only thing that ever stops a frame) *)
Theorem C08_unknown_entity_ignored :
  forall pr k u t v c p, t_u2e pr !! u = None ->
    client_received pr k (MComp u t v) = pr /\ client_received pr k (MDelete u) = pr /\
    client_received pr k (MParented u p) = pr /\ client_received pr k (MParented c u) = pr.
Proof. exact client_ignores_unknown_entity. Qed.

Theorem C08_update_for_despawned_entity_ignored :
  forall pr from e u t v, p_ents pr !! e = None -> apply_cmd pr (CApplyComp from e u t v) = pr.
Proof. exact apply_comp_ignored_dead. Qed.

Theorem C08_update_of_unregistered_type_ignored :
  forall pr from e u t v, memN (wire_type t v) (p_registry pr) = false -> apply_cmd pr (CApplyComp from e u t v) = pr.
Proof. exact apply_comp_ignored_unregistered. Qed.

Theorem C08_frame_stops_only_when_panicked :
  forall pr o s, p_panic pr = Some s -> frame pr o = pr.
Proof. exact frame_stops_iff_panicked. Qed.

(* Global, over ALL traces of the whole system (any number of peers, every interleaving of their
   frames, every executable order and oracle — even untruthful ones —, registrations, joins,
   promotions, reorderings), restricting only what the APPLICATION does (fresh script ids, mark
   once, set_parent between live entities that stand for different uuids, application systems
   only despawn): no peer ever panics, and no peer ever emits a self-parent link. *)
Theorem C08_no_panic :
  forall n tr, conforming_links n tr ->
    forall p pr, grun (init_global n) tr !! p = Some pr ->
      p_panic pr = None /\ parents_ok pr /\ (forall d u, (d, MParented u u) ∉ p_out pr).
Proof. exact C08_no_panic_distinct_uuid_links. Qed.

Theorem C08_no_panic_without_hierarchy :
  forall n tr, conforming n tr -> no_hierarchy tr ->
    forall p pr, grun (init_global n) tr !! p = Some pr -> p_panic pr = None.
Proof. exact C08_no_panic_no_hierarchy. Qed.

(* Without the "different uuids" condition the statement is false IN THE MODEL: with oracles that
   no real session produces (a host listed as its own client, several hosts being each other's
   clients, an order violating the .chain() of the client systems) one uuid can get two live
   replicas, and linking them yields a self-parent message. Kept as a machine-checked remark. *)
Theorem C08_literal_statement_needs_truthful_oracles : ~ C08_no_panic_statement.
Proof. exact C08_no_panic_statement_refuted. Qed.

(* "... or published assets": whatever bytes a download delivers — a download cut off at the transfer
   limit included — the decoders of process_mesh_assets / process_image_assets do not panic (byte-exact
   models of bin_to_mesh / bin_to_image over the lz4 and bincode models; since the repair 1d88107, before
   which a stream that does not decompress was an `unwrap` panic: reproduced on the real code) *)
Theorem C08_downloaded_mesh_bytes_never_panic :
  forall bs, MeshCodec.bin_to_mesh bs <> CodecTypes.Panic.
Proof. exact MeshCodecProofs.bin_to_mesh_never_panics. Qed.

Theorem C08_downloaded_image_bytes_never_panic :
  forall bs, ImageCodec.bin_to_image bs <> CodecTypes.Panic.
Proof. exact ImageCodecProofs.bin_to_image_never_panics. Qed.

Print Assumptions C08_frame_never_panics_on_dead_entities.
Print Assumptions C08_frame_panics_only_on_self_parent_link.
Print Assumptions C08_frame_no_panic.
Print Assumptions C08_unknown_entity_ignored.
Print Assumptions C08_update_for_despawned_entity_ignored.
Print Assumptions C08_update_of_unregistered_type_ignored.
Print Assumptions C08_frame_stops_only_when_panicked.
Print Assumptions C08_no_panic.
Print Assumptions C08_no_panic_without_hierarchy.
Print Assumptions C08_literal_statement_needs_truthful_oracles.
Print Assumptions C08_downloaded_mesh_bytes_never_panic.
Print Assumptions C08_downloaded_image_bytes_never_panic.
