(* C15 — Published connection states and InitialSyncFinished are truthful.
   Statements only; proofs are `exact`. Model: the state systems, run conditions and receivers
   of the frame-level model Sync/Model.v (src/server/mod.rs, client/mod.rs, client/receiver.rs,
   server/initial_sync.rs); vocabulary (prun, cedge, frame_at, during, bit, order_keys_ok,
   fires, client_handle, inbox) in Sync/Proofs/Session(Lemmas).v. All orders, all oracles. *)
From stdpp Require Import gmap list.
From Coq Require Import NArith.
From RecordUpdate Require Import RecordSet.
From BS Require Import Sync.Types Sync.Model Sync.Proofs.SessionLemmas Sync.Proofs.Session.
From BSGen Require Schedule.
From BS Require Sync.Schedule.
Import RecordSetNotations.
Local Open Scope N_scope.

(* ClientState only ever moves Disconnected -> Connecting -> Connected -> Disconnected (or
   Connecting -> Disconnected), over every run of application operations and frames *)
Theorem C15_client_state_path :
  forall id st rg ord l x,
    let pr := prun (init_peer id st rg ord) l in
    let pr' := prun pr [x] in
    s_client pr' = s_client pr \/ cedge (s_client pr) (s_client pr').
Proof. exact client_state_path. Qed.

(* never Connected before the transport is connected: the frame before, verify_client_connected
   ran with a client transport present, in state Connecting, and renet reported Connected *)
Theorem C15_connected_only_after_transport_connected :
  forall pr o o',
    s_client (frame pr o) <> CliConnected ->
    s_client (frame (frame pr o) o') = CliConnected ->
    exists l1 l2, p_order pr = l1 ++ SCliVerify :: l2 /\
      let m := frame_at pr o l1 in
      p_panic m = None /\ n_setup m = true /\ n_cli_transport m <> None
      /\ s_client m = CliConnecting /\ n_status m = RConnected.
Proof. exact connected_only_after_transport_connected. Qed.

(* back to Disconnected within two frames of the application removing its transport *)
Theorem C15_client_back_to_disconnected_within_two_frames :
  forall pr o1 o2,
    let pr0 := app_step pr ORemoveTransports in
    n_setup pr = true -> SCliDisconnected ∈ p_order pr -> bit pr 25 = true ->
    during pr0 o1 (fun m => n_cli_transport m = None) ->
    p_panic (frame pr0 o1) = None ->
    s_client (frame (frame pr0 o1) o2) = CliDisconnected.
Proof. exact client_back_to_disconnected_within_two_frames. Qed.

(* ServerState follows, within two frames, whether the peer is hosting *)
Theorem C15_server_state_tracks_hosting :
  forall pr o1 o2,
    n_setup pr = true -> p_panic (frame pr o1) = None ->
    (forall t, SSrvConnected ∈ p_order pr -> order_keys_ok (p_order pr) ->
       during pr o1 (fun m => n_srv_transport m = Some t) ->
       last_run pr (ckey 10) < t \/ default (s_server pr) (s_next_server pr) = SrvConnected ->
       s_server (frame (frame pr o1) o2) = SrvConnected)
    /\ (SSrvDisconnected ∈ p_order pr -> bit pr 11 = true ->
        during pr o1 (fun m => n_srv_transport m = None) ->
        s_server (frame (frame pr o1) o2) = SrvDisconnected).
Proof. exact server_state_tracks_hosting. Qed.

(* replication acts only in the Connected states: a gated system is the identity *)
Theorem C15_acts_only_when_connected :
  forall pr s o,
    (server_chain s = true -> server_gate pr = false -> run_system pr s o = pr)
    /\ (client_chain s = true -> client_gate pr = false -> run_system pr s o = pr).
Proof. exact acts_only_when_connected. Qed.

(* InitialSyncFinished: on a client exactly one event per FinishedInitialSync message polled ... *)
Theorem C15_finished_event_once_per_message :
  forall pr o,
    p_panic pr = None ->
    p_finished_events (run_system pr SCliPoll o) =
      match n_cli_transport pr with
      | Some (h, _) =>
          if client_gate pr
          then p_finished_events pr
               + N.of_nat (length (filter (fun m => is_fin m = true) (take (fo_cli_poll o) (inbox pr h))))
          else p_finished_events pr
      | None => p_finished_events pr
      end.
Proof. exact finished_event_once_per_join. Qed.

(* ... nowhere else except once when hosting starts ... *)
Theorem C15_finished_event_sources :
  forall pr s o,
    s <> SCliPoll ->
    p_finished_events (run_system pr s o) =
      match s, p_panic pr with
      | SSrvConnected, None => if fires pr SSrvConnected then p_finished_events pr + 1 else p_finished_events pr
      | _, _ => p_finished_events pr
      end.
Proof. exact finished_event_sources. Qed.

(* ... the host sends exactly one per snapshot, LAST on the ordered link ... *)
Theorem C15_snapshot_then_finished_last :
  forall pr c,
    let pre := queued_msgs pr in      (* repair of S21: the detected, unsent component changes go out first, to every client *)
    let ms := (build_full_sync pr).2 in
    p_out (apply_cmd pr (CSendInitialSync c)) = p_out pr ++ pre ++ ((fun m => (c, m)) <$> ms) ++ [(c, MFinInit)]
    /\ Forall (fun x => is_fin x.2 = false) pre
    /\ Forall (fun m => is_fin m = false) ms.
Proof. exact send_initial_sync_batch. Qed.

(* ... and by the end of the frame in which the client polls it, everything that preceded it on
   the link has been handled and every command queued by those handlers has been applied *)
Theorem C15_finished_implies_snapshot_applied :
  forall pr o l1 l2 h t pre post,
    p_order pr = l1 ++ SCliPoll :: l2 ->
    let m := frame_at pr o l1 in
    p_panic m = None -> client_gate m = true -> n_cli_transport m = Some (h, t) ->
    inbox m h = pre ++ MFinInit :: post -> (length pre < fo_cli_poll o)%nat ->
    let handled := pre ++ MFinInit :: take (fo_cli_poll o - S (length pre)) post in
    (exists ib, run_system m SCliPoll o
                = end_run (client_handle (m <| p_tick := p_tick m + 1 |>) (sys_key SCliPoll) handled
                           <| n_inbox := ib |>) (sys_key SCliPoll) (p_tick m))
    /\ inbox (run_system m SCliPoll o) h = drop (fo_cli_poll o) (inbox m h)
    /\ ((forall k, p_cmdq pr !! k <> None -> exists s, s ∈ p_order pr /\ sys_key s = k) ->
        p_panic (frame pr o) = None -> p_cmdq (frame pr o) = ∅).
Proof. exact finished_implies_snapshot_applied. Qed.

(* Known finding S8 (promotion with several clients): "Connected implies the renet client is
   connected" is refuted — nothing reacts to the RenetClient becoming disconnected while the
   transport resource stays. And a residual of S10: resource_removed only samples the resource
   when evaluated, so a transport inserted and removed between two evaluations is never seen. *)
Theorem C15_refuted_connected_implies_renet_connected : ~ connected_implies_renet_connected_statement.
Proof. exact connected_implies_renet_connected_refuted. Qed.

Theorem C15_refuted_existed_bit_always_set : ~ existed_bit_invariant_statement.
Proof. exact existed_bit_invariant_refuted. Qed.

(* The schedule the model assumes IS the schedule of the source: gen/Schedule.v is regenerated from
   every add_systems(...) call of /repo/src on every run (system, schedule label, run conditions,
   position in its chain) and must equal the table Model.run_system was written from; and
   Model.run_system runs each system exactly when the run conditions the source gives it hold
   (Sync/Schedule.v). A run condition added, dropped or changed in the source, or a system moved
   between plugins, breaks the first theorem at build time. *)
Theorem C15_schedule_matches_source : Schedule.src_schedule = Sync.Schedule.model_schedule.
Proof. exact Sync.Schedule.schedule_matches_source. Qed.

Theorem C15_systems_run_under_the_source_conditions :
  forall pr s o cs,
    p_panic pr = None -> Sync.Schedule.conds_of s = Some cs ->
    let '(pr', e) := Sync.Schedule.edge_of pr s in
    exists b, Sync.Schedule.eval_conds e pr cs = Some b /\ run_system pr s o = if b then run_body pr' s o else pr'.
Proof. exact Sync.Schedule.run_system_follows_schedule. Qed.

Print Assumptions C15_client_state_path.
Print Assumptions C15_connected_only_after_transport_connected.
Print Assumptions C15_client_back_to_disconnected_within_two_frames.
Print Assumptions C15_server_state_tracks_hosting.
Print Assumptions C15_acts_only_when_connected.
Print Assumptions C15_finished_event_once_per_message.
Print Assumptions C15_finished_event_sources.
Print Assumptions C15_snapshot_then_finished_last.
Print Assumptions C15_finished_implies_snapshot_applied.
Print Assumptions C15_refuted_connected_implies_renet_connected.
Print Assumptions C15_refuted_existed_bit_always_set.
Print Assumptions C15_schedule_matches_source.
Print Assumptions C15_systems_run_under_the_source_conditions.
