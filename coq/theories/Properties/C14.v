(* C14 — The HTTP asset endpoint serves exactly what was published and stays up.
   Statements only; every proof is `exact <lemma>`. Model: Http/Route.v (router, caches,
   URL format), Http/UuidText.v (uuid text form). Source tie: BSGen.Routes is regenerated from
   /repo/src/networking/assets/mod.rs on every run and must equal the tables the model uses. *)
From Coq Require Import List NArith.
From BS Require Import Http.UuidText Http.Route Http.RouteProofs.
From BSGen Require Import Routes.
Import ListNotations.
Local Open Scope N_scope.

(* ---- the code's declarative fragments are the ones the model was written for ---------- *)
Theorem C14_source_router_is_model_router :
  src_router = [(seg CImage, seg CImage, CImage); (seg CMesh, seg CMesh, CMesh); (seg CAudio, seg CAudio, CAudio)]
  /\ src_arms = [(CMesh, 1, 449, 404, 1); (CImage, 1, 449, 404, 1); (CAudio, 1, 449, 404, 1)]
  /\ map (fun r => let '(k, own, _, s) := r in (k, own, s)) src_serve
     = [(CMesh, 1, seg CMesh); (CImage, 1, seg CImage); (CAudio, 1, seg CAudio)]
  /\ src_base_url_formats = [http_scheme ++ [91; 123; 125; 93; 58; 123; 125]; http_scheme ++ [123; 125; 58; 123; 125]].
Proof. repeat split; reflexivity. Qed.

(* the model's cache insertion mode is the code's (latest bytes replace earlier ones) *)
Theorem C14_source_cache_mode_is_model_mode :
  map (fun r => let '(_, _, first_wins, _) := r in first_wins) src_serve = [0; 0; 0]
  /\ src_request_guard = 2.
Proof. split; reflexivity. Qed.

(* ---- the property ------------------------------------------------------------------------ *)

(* For every history of publications and requests, in any interleaving, every asset that was
   published is served, on its advertised path, with status 200 and exactly the bytes of its
   latest publication, with a Content-Length iff the body is below the transfer limit (or the
   client speaks HTTP/1.0) — whatever happened before, and whatever other publications and
   requests (valid or not) happen afterwards. *)
Theorem C14_get_returns_published :
  forall th ops1 k id body ops2 h,
    wf_uuid id -> published_in ops2 k id = false ->
    respond1 (fst (run th empty_caches (ops1 ++ Publish k id body :: ops2))) no_poison th h (path_of k id)
    = R200 body (expected_length th h body).
Proof. exact RouteProofs.C14_get_returns_published. Qed.

(* a uuid never published under the requested class: 404, after any history *)
Theorem C14_never_published_404 :
  forall th ops k id h, wf_uuid id -> published_in ops k id = false ->
    respond1 (fst (run th empty_caches ops)) no_poison th h (path_of k id) = R404.
Proof. exact RouteProofs.C14_never_published_404. Qed.

Theorem C14_unknown_uuid_404 :
  forall cs th h k id, wf_uuid id -> lookup (cache_of cs k) id = None ->
    respond1 cs no_poison th h (path_of k id) = R404.
Proof. exact unknown_404. Qed.

Theorem C14_wrong_class_404 :
  forall th k k' id body h, wf_uuid id -> k <> k' ->
    respond1 (serve empty_caches k id body) no_poison th h (path_of k' id) = R404.
Proof. exact wrong_class_404. Qed.

(* every other request gets an error status; a 200 is only ever given for published bytes *)
Theorem C14_only_published_is_200 :
  forall cs p th h url body cl, respond1 cs p th h url = R200 body cl ->
    exists k rest id, route url = Some (k, rest) /\ parse rest = Some id
                      /\ lookup (cache_of cs k) id = Some body /\ cl = expected_length th h body.
Proof. exact respond_sound. Qed.

Theorem C14_malformed_is_error :
  forall cs p th h url,
    (route url = None \/ exists k rest, route url = Some (k, rest) /\ parse rest = None) ->
    400 <= status (respond1 cs p th h url).
Proof. exact malformed_is_error. Qed.

(* no request changes what later requests see (the responder's logic cannot be wedged) *)
Theorem C14_requests_do_not_change_state :
  forall th cs h url, fst (step th cs (Get h url)) = cs.
Proof. exact get_preserves_state. Qed.

Theorem C14_uuid_text_roundtrip : forall u, wf_uuid u -> parse (to_string u) = Some u.
Proof. exact parse_to_string. Qed.

Print Assumptions C14_source_router_is_model_router.
Print Assumptions C14_source_cache_mode_is_model_mode.
Print Assumptions C14_get_returns_published.
Print Assumptions C14_never_published_404.
Print Assumptions C14_unknown_uuid_404.
Print Assumptions C14_wrong_class_404.
Print Assumptions C14_only_published_is_200.
Print Assumptions C14_malformed_is_error.
Print Assumptions C14_requests_do_not_change_state.
Print Assumptions C14_uuid_text_roundtrip.
