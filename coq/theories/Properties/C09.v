(* C09 — Replication traffic is finite and self-quenching.
   Statements only; proofs are `exact` (of a lemma, or of a lemma applied to the reachability
   invariant). One section per protocol slice, each over its event-level model (all N, every
   interleaving of the atomic events, any history unless a premise says otherwise):
     - "applying a change received from the network never makes a peer emit a new change": no-echo;
     - "message flow stops": a measure strictly decreasing with every effective event from ANY state
       (values, parent links), resp. no delivery is enabled at quiescence (entities);
     - "bounded by a small multiple of the square of the number of peers": at most n messages per
       operation (n = connected clients) and global bounds for arbitrary runs;
     - companion components inserted by the fix_* systems change no replicated value and do not
       disturb the change detectors (frame-level model).
   That "a bounded number of EVENTS" means "a bounded number of FRAMES" (every frame of every peer
   performs all its enabled events) is checked by the oracle (drain within 80 rounds), not proved. *)
From stdpp Require Import gmap list.
From Coq Require Import NArith.
From BS Require Abs.Entities Abs.EntitiesProofs Abs.Values Abs.ValuesProofs Abs.Parents Abs.ParentsProofs
                Abs.Assets Abs.AssetsProofs.
From BS Require Import Sync.Types Sync.Model Sync.Proofs.FixLemmas Sync.Proofs.Fix.
From BS Require Sync.Proofs.Debounce Sync.Proofs.AssetDebounce.

(* ---------------- entities (spawn / despawn / snapshot) ---------------------------------------- *)
Module E.
Import Entities EntitiesProofs.
Local Open Scope N_scope.

Theorem C09_entity_messages_per_operation :
  forall tr s e s', run init tr = Some s -> is_op e = true -> step s e = Some s' ->
    sent s' <= sent s + N.of_nat (length (conn s)).
Proof. intros tr s e s' Hrun. exact (messages_per_operation s e s' (sinv_reachable tr s Hrun)). Qed.

(* clients never relay: handling a message at a client enqueues nothing anywhere (hop count <= 2) *)
Theorem C09_client_never_relays :
  forall tr s c s', run init tr = Some s -> step s (EvDeliver 0 c) = Some s' ->
    sent s' = sent s /\
    forall a b, get_link s' a b = if decide ((a, b) = (0, c)) then tail (get_link s 0 c) else get_link s a b.
Proof. intros tr s c s' Hrun. exact (client_never_relays s c s' (sinv_reachable tr s Hrun)). Qed.

(* the host repeats an entity message to the other clients exactly once each; a snapshot costs |entities| + 1 *)
Theorem C09_relay_cost :
  forall tr s c s' m q, run init tr = Some s -> step s (EvDeliver c 0) = Some s' -> get_link s c 0 = m :: q ->
    (m = EReqInit -> sent s' = sent s + N.of_nat (length (get_ents s 0)) + 1) /\
    (m = EFinInit -> sent s' = sent s) /\
    ((exists u, m = ESpawn u \/ m = EDelete u) -> sent s' + 1 = sent s + N.of_nat (length (conn s))).
Proof. intros tr s c s' m q Hrun. exact (relay_cost s c s' m q (sinv_reachable tr s Hrun)). Qed.

(* self-quenching: in a quiescent state only new operations, connections and departures are enabled *)
Theorem C09_entities_self_quenching :
  forall s e s', quiescent s -> step s e = Some s' ->
    is_op e = true \/ (exists c, e = EvConnect c) \/ (exists c, e = EvLeave c).
Proof. exact quiescent_enabled_events. Qed.

(* every run: each operation costs at most M messages INCLUDING its relays (M = largest client
   table seen), plus the snapshots and one request per connection *)
Theorem C09_entity_traffic_bound :
  forall tr s, run init tr = Some s ->
    sent s <= max_conn init tr * ops tr + snapshots tr + connects tr.
Proof. exact traffic_bound. Qed.
End E.

(* ---------------- component values -------------------------------------------------------------- *)
Module V.
Import Values ValuesProofs.

(* a peer is armed (will emit) only through its own write; an update applied from the network
   leaves the receiver unarmed: its detector queues nothing and its send sends nothing *)
Theorem C09_values_armed_only_by_write :
  forall s e s' p,
    vstep s e = Some s' -> varmed s p = false -> varmed s' p = true -> exists v, e = VWrite p v.
Proof. exact armed_only_by_write. Qed.

Theorem C09_values_applied_update_not_echoed :
  forall s src dst s1 s2,
    vstep s (VDeliver src dst) = Some s1 -> varmed s dst = false ->
    vstep s1 (VDetect dst) = Some s2 ->
    varmed s1 dst = false /\ varmed s2 dst = false /\ poutq s2 dst = [] /\
    sent_by s2 (VSend dst) = 0 /\ vstep s2 (VSend dst) = Some s2.
Proof. exact deliver_no_echo. Qed.

(* termination from ANY well-formed state, conflicts included *)
Theorem C09_values_measure :
  forall s e s', vwf s -> effective s e = true -> vstep s e = Some s' -> vmeasure s' < vmeasure s.
Proof. exact measure_decreases. Qed.

Theorem C09_values_no_infinite_exchange :
  forall (st : nat -> vstate) (ev : nat -> vevent),
    vwf (st 0) ->
    ~ (forall i, effective (st i) (ev i) = true /\ vstep (st i) (ev i) = Some (st (S i))).
Proof. exact no_infinite_exchange. Qed.

(* every run: traffic bound, the pending exchange is bounded and can be completed *)
Theorem C09_values_every_run :
  forall n tr s,
    vrun (vinit n) tr = Some s ->
    total_sent (vinit n) tr <= length (written tr) * (n + length (joiners tr)) + length (joiners tr) /\
    (forall tr', effective_run s tr' = true ->
       length tr' <= vmeasure s /\ total_sent s tr' <= vpot (length (vconn s)) s) /\
    (exists tr' s', effective_run s tr' = true /\ vrun s tr' = Some s' /\ vquiescent s').
Proof. exact C09_component. Qed.
End V.

(* ---------------- parent links -------------------------------------------------------------------- *)
Module P.
Import Parents ParentsProofs.

Theorem C09_parents_no_echo :
  forall s tr s',
    (forall p, parmed s p = false) -> Forall drain_event tr -> prun s tr = Some s' ->
    (forall p, parmed s' p = false) /\ ptotal_announced s tr = 0.
Proof. exact no_echo. Qed.

Theorem C09_parents_announcement_has_local_cause :
  forall s0 tr s p,
    prun s0 tr = Some s -> parmed s p = true ->
    parmed s0 p = true \/
    exists tr1 u tr2, tr = tr1 ++ PSet p u :: tr2 /\ ppar s p = Some u /\ Forall (fun e => ~ resets p e) tr2.
Proof. exact C09_announce_has_local_cause. Qed.

Theorem C09_parents_no_infinite_exchange :
  forall (st : nat -> pstate) (ev : nat -> pevent),
    pwf (st 0) ->
    (forall i, drain_event (ev i) /\ effective (st i) (ev i) = true /\ pstep (st i) (ev i) = Some (st (S i))) ->
    False.
Proof. exact no_infinite_exchange. Qed.

Theorem C09_parents_traffic_bound :
  forall n tr,
    ptotal_sent (pinit n) tr <= length (psets tr) * (n + length (pjoiners tr)) + length (pjoiners tr).
Proof. exact total_traffic_bounded. Qed.
End P.

(* ---------------- assets ---------------------------------------------------------------------------- *)
Module A.
Import Assets AssetsProofs.

Theorem C09_assets_no_echo :
  forall n w tr s',
    arun (ainit n) tr = Some s' -> only_publisher w tr ->
    forall q, q <> w -> ptok s' q = pevents s' q /\ originates s' q = false.
Proof. exact no_echo. Qed.

Theorem C09_assets_traffic_bound :
  forall n tr s',
    arun (ainit n) tr = Some s' ->
    (total_sent (ainit n) tr <= length (published tr) * (n + length (joins tr)) + length (joins tr))%nat /\
    (total_downloads (ainit n) tr <= total_sent (ainit n) tr)%nat.
Proof. exact traffic_bound. Qed.

(* every sequence of plain events from a reachable state has boundedly many effective steps *)
Theorem C09_assets_exchange_bounded :
  forall tr s s',
    awf s -> Basic s -> Forall plain tr -> arun s tr = Some s' -> (effective s tr + mu s' <= mu s)%nat.
Proof. exact plain_steps_bounded. Qed.

Theorem C09_materials_no_echo :
  forall n w tr s',
    mrun (minit n) tr = Some s' -> monly_publisher w tr ->
    forall q, q <> w -> mptok s' q = mpevents s' q /\ moriginates s' q = None.
Proof. exact mno_echo. Qed.

Theorem C09_materials_traffic_bound :
  forall n tr s',
    mrun (minit n) tr = Some s' ->
    (mtotal_sent (minit n) tr <= length (mpublished tr) * (n + length (mjoins tr)) + length (mjoins tr))%nat.
Proof. exact mtraffic_bound. Qed.
End A.

(* ---------------- companion components (frame-level model) --------------------------------------- *)
Theorem C09_companions_leave_detectors_alone :
  forall pr t last,
    fix_only pr -> (t < 100)%N ->
    t_queue (sync_detect (flush pr) t last) = t_queue (sync_detect pr t last) /\
    t_ctok (sync_detect (flush pr) t last) = t_ctok (sync_detect pr t last).
Proof. exact fix_flush_detector_unaffected. Qed.

(* The debounce of component updates on the FRAME-LEVEL model (Sync/Proofs/Debounce.v), for ALL states:
   what apply_component_change_from_network, the change detector sync_detect::<T> and
   signal_component_changed do together. *)
Module D.
  Import Debounce.

  (* NO ECHO: a value applied from the network is not queued by the detector of its type, whatever the
     detector has seen before; once the detector sees the change the debounce entry is consumed (it cannot
     swallow a later change). Side conditions, each refuted without it in Debounce.v: the wire value is not a
     raw SkinnedMesh (senders encode it as a mapper), no other entity is signalled under the key (C01). *)
  Theorem C09_applied_update_is_not_echoed :
    forall pr e t v pr' en u last,
      apply_component_change pr e t v = (pr', true) ->
      p_ents pr !! e = Some en -> en_sync en = Some u ->
      is_skin v = false ->
      no_other_signal pr (stored_type t v) last e (u, wire_type t v) ->
      let k := (u, wire_type t v) in
      let pr1 := sync_detect pr' (stored_type t v) last in
      queue_of k (t_queue pr1) = queue_of k (t_queue pr') /\
      (exists added, t_queue pr1 = t_queue pr' ++ added /\ Forall (fun x : uuid * tyid * value => x.1 <> k) added) /\
      ((last < p_tick pr)%N -> memN (stored_type t v) (en_excl en) = false -> tok_find k (t_ctok pr1) = None).
  Proof. exact applied_update_is_not_echoed. Qed.

  (* ... while a LOCAL write made after the frame of the apply IS announced, and the entry is gone (S22) *)
  Theorem C09_local_write_after_apply_is_announced :
    forall pr e t v pr' en u w last,
      apply_component_change pr e t v = (pr', true) ->
      p_ents pr !! e = Some en -> en_sync en = Some u ->
      ann_type (stored_type t v) w = wire_type t v ->
      memN (stored_type t v) (en_excl en) = false ->
      (last <= p_tick pr)%N ->
      no_other_signal pr (stored_type t v) last e (u, wire_type t v) ->
      let k := (u, wire_type t v) in
      let pr1 := sync_detect (app_step (last_schedule pr') (OWrite e (stored_type t v) w)) (stored_type t v) last in
      queue_of k (t_queue pr1) = queue_of k (t_queue pr') ++ [(k, ann_val (t_e2u pr) w)] /\
      tok_find k (t_ctok pr1) = None.
  Proof. exact local_write_next_frame_is_announced. Qed.

  (* a change without a debounce entry is announced exactly once *)
  Theorem C09_change_without_entry_announced_once :
    forall pr (t : tyid) last e en u c,
      p_ents pr !! e = Some en -> en_sync en = Some u -> en_comps en !! t = Some c ->
      memN t (en_excl en) = false ->
      ((last < c_changed c)%N \/ (last < en_sync_added en)%N) ->
      let k := (u, ann_type t (c_val c)) in
      tok_find k (t_ctok pr) = None ->
      no_other_signal pr t last e k ->
      let pr1 := sync_detect pr t last in
      queue_of k (t_queue pr1) = queue_of k (t_queue pr) ++ [(k, ann_val (t_e2u pr) (c_val c))] /\
      (exists added, t_queue pr1 = t_queue pr ++ added /\ queue_of k added = [(k, ann_val (t_e2u pr) (c_val c))]) /\
      tok_find k (t_ctok pr1) = None.
  Proof. exact detector_without_token_announces. Qed.
End D.

(* The debounce of asset updates (the counter pushed_handles_from_network, repair of S7) on the FRAME-LEVEL
   model (Sync/Proofs/AssetDebounce.v), for ALL states, any asset kind, host or client. *)
Module AD.
  Import AssetDebounce.

  (* the counter semantics of one run of react_on_changed_*: with n tokens and m readable events of an id,
     min(n, m) events are swallowed and max(0, m - n) announced, each with the content the store holds NOW *)
  Theorem C09_asset_events_counted_against_tokens :
    forall s k a v pr,
      a_store pr !! akey k a = Some v ->
      let n := ntok a (t_htok pr) in
      let m := readable k a pr in
      let pr' := react_on_changed_assets s k pr in
      env pr' = env pr /\
      ntok a (t_htok pr') = (n - m)%nat /\
      out_of a (p_out pr') = out_of a (p_out pr) ++ concat (replicate (m - n) (ann s k pr a v)) /\
      ((m <= n)%nat -> h_cache pr' !! akey k a = h_cache pr !! akey k a) /\
      ((n < m)%nat -> h_cache pr' !! akey k a = cache_after k v (h_cache pr !! akey k a)).
  Proof. exact react_counts. Qed.

  (* NO ECHO: an applied download is not announced and consumes exactly its own token *)
  Theorem C09_applied_download_is_not_announced :
    forall s c a v fl pr,
      let k := KClass c in
      let pr1 := process_assets pr c [(c, a, Some v, fl)] in
      let pr3 := react_on_changed_assets s k (last_schedule pr1) in
      (pending k a pr <= ntok a (t_htok pr))%nat ->
      out_of a (p_out pr3) = out_of a (p_out pr1) /\ out_of a (p_out pr3) = out_of a (p_out pr) /\
      h_cache pr3 !! akey k a = h_cache pr !! akey k a /\
      ntok a (t_htok pr1) = S (ntok a (t_htok pr)) /\
      ntok a (t_htok pr3) = (ntok a (t_htok pr) - pending k a pr)%nat /\
      (pending k a pr = 0%nat -> ntok a (t_htok pr3) = ntok a (t_htok pr)).
  Proof. exact applied_download_is_not_announced. Qed.

  (* ... a local publication without a token is announced exactly once, with the current content *)
  Theorem C09_local_publication_is_announced_once :
    forall s k a v pr,
      let pr1 := app_step pr (OAddAsset k a v) in
      let pr3 := react_on_changed_assets s k (last_schedule pr1) in
      ntok a (t_htok pr) = 0%nat -> pending k a pr = 0%nat ->
      out_of a (p_out pr3) = out_of a (p_out pr) ++ ann s k pr a v /\
      h_cache pr3 !! akey k a = cache_after k v (h_cache pr !! akey k a) /\
      ntok a (t_htok pr3) = 0%nat.
  Proof. exact local_publication_is_announced. Qed.

  (* the hazard (observed, outside the properties): a token without its event - a class whose react system
     does not run on this peer, or the SAME uuid under another asset kind: tokens are keyed by the uuid alone -
     swallows the next local publication of that id *)
  Theorem C09_leftover_token_swallows_a_local_publication :
    forall s k a v pr,
      let pr1 := app_step pr (OAddAsset k a v) in
      let pr3 := react_on_changed_assets s k (last_schedule pr1) in
      (pending k a pr < ntok a (t_htok pr))%nat ->
      out_of a (p_out pr3) = out_of a (p_out pr) /\
      h_cache pr3 !! akey k a = h_cache pr !! akey k a /\
      ntok a (t_htok pr3) = (ntok a (t_htok pr) - S (pending k a pr))%nat.
  Proof. exact leftover_token_swallows_a_local_publication. Qed.
End AD.

Print Assumptions E.C09_entity_messages_per_operation.
Print Assumptions E.C09_client_never_relays.
Print Assumptions E.C09_relay_cost.
Print Assumptions E.C09_entities_self_quenching.
Print Assumptions E.C09_entity_traffic_bound.
Print Assumptions V.C09_values_armed_only_by_write.
Print Assumptions V.C09_values_applied_update_not_echoed.
Print Assumptions V.C09_values_measure.
Print Assumptions V.C09_values_no_infinite_exchange.
Print Assumptions V.C09_values_every_run.
Print Assumptions P.C09_parents_no_echo.
Print Assumptions P.C09_parents_announcement_has_local_cause.
Print Assumptions P.C09_parents_no_infinite_exchange.
Print Assumptions P.C09_parents_traffic_bound.
Print Assumptions A.C09_assets_no_echo.
Print Assumptions A.C09_assets_traffic_bound.
Print Assumptions A.C09_assets_exchange_bounded.
Print Assumptions A.C09_materials_no_echo.
Print Assumptions A.C09_materials_traffic_bound.
Print Assumptions C09_companions_leave_detectors_alone.
Print Assumptions D.C09_applied_update_is_not_echoed.
Print Assumptions D.C09_local_write_after_apply_is_announced.
Print Assumptions D.C09_change_without_entry_announced_once.
Print Assumptions AD.C09_asset_events_counted_against_tokens.
Print Assumptions AD.C09_applied_download_is_not_announced.
Print Assumptions AD.C09_local_publication_is_announced_once.
Print Assumptions AD.C09_leftover_token_swallows_a_local_publication.
