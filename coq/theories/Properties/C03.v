(* C03 — A joining client obtains the complete current session state.
   Statements only; proofs are `exact`. The property is the conjunction of the join theorems of
   every protocol slice (event-level models: the client may connect at ANY moment of ANY history,
   any number of other clients, every interleaving) and of the completeness / order / delivery
   theorems about the snapshot itself on the frame-level model:
     entities       a client connecting at any moment ends with exactly the host's entities, each once;
     values         ... with the host's value = the most recent write;
     parent links   ... with the host's parent = the one given by the last operation;
     assets         ... with the host's content = the last published one (outside the window S26);
     snapshot       contains a spawn for every synchronized entity, a value for every registered
                    non-excluded component, a link for every parented entity, an announcement (and a
                    served copy) for every asset of an enabled class; spawns precede everything else;
                    FinishedInitialSync is its last message, and when the client handles it everything
                    before it has been applied.
   "Changes made while the snapshot is in flight are not lost" is the fact that the join theorems
   place no restriction on what the other peers do around the join (entities, parent links,
   materials: none at all; values: writers separated by a drain; URL assets: outside S26).
   Open known findings: S11 (a RE-connecting client keeps what was deleted meanwhile), S26 (a client
   joining while the host's own download of an asset is pending), S23 (host with a class disabled). *)
From stdpp Require Import gmap list.
From Coq Require Import NArith.
From BS Require Abs.Entities Abs.EntitiesProofs Abs.Values Abs.ValuesProofs Abs.Parents Abs.ParentsProofs
                Abs.Assets Abs.AssetsProofs.
From BS Require Import Sync.Types Sync.Model Sync.Observe Sync.Proofs.OptInLemmas Sync.Proofs.OptIn
                       Sync.Proofs.SessionLemmas Sync.Proofs.Session Sync.Proofs.Snapshot.

(* ---------------- what a joiner ends with (event-level models) --------------------------------- *)
Module E.
Import Entities EntitiesProofs.
Local Open Scope N_scope.
Theorem C03_joiner_gets_entities :
  forall tr1 c tr2 s,
    run init (tr1 ++ EvConnect c :: tr2) = Some s -> known_S11 (tr1 ++ EvConnect c :: tr2) = false ->
    quiescent s -> c ∈ conn s ->
    NoDup (get_ents s c) /\ forall u, u ∈ get_ents s c <-> u ∈ get_ents s 0.
Proof. exact joiner_gets_entities. Qed.

(* Known finding S11: a client that RE-connects still holding entities of its earlier session *)
Theorem C03_reconnect_refuted :
  exists tr s, run init tr = Some s /\ quiescent s /\ ~ agree s.
Proof. exact C01_refuted_S11. Qed.
End E.

Module V.
Import Values ValuesProofs.
Theorem C03_joiner_gets_current_value :
  forall n tr1 c tr2 s',
    let tr := tr1 ++ VJoin c :: tr2 in
    vrun (vinit n) tr = Some s' -> drain_separated (vinit n) tr -> joiners_received (vinit n) tr -> vquiescent s' ->
    c ∈ vconn s' /\ pcur s' c = pcur s' host /\ pcur s' c = last (written tr).
Proof. exact join_gets_current_value_drain_separated. Qed.
End V.

Module P.
Import Parents ParentsProofs.
Theorem C03_joiner_gets_parent :
  forall n tr1 c tr2 s',
    let tr := tr1 ++ PJoin c :: tr2 in
    prun (pinit n) tr = Some s' -> writers_drain_separated (pinit n) tr = true ->
    pquiescent s' -> ppar s' c = ppar s' host /\ ppar s' c = last_set tr.
Proof. exact join_gets_parent. Qed.
End P.

Module A.
Import Assets AssetsProofs.
Local Open Scope N_scope.
Theorem C03_joiner_gets_asset :
  forall n w0 tr1 c tr2 s',
    let tr := tr1 ++ AJoin c None :: tr2 in
    arun (ainit n) tr = Some s' -> fresh_joins tr -> handover_at_quiescence w0 (ainit n) tr = true ->
    aquiescent s' ->
    c ∈ aconn s' /\ pstore s' c = pstore s' host /\ pstore s' c = last (published tr).
Proof. exact join_gets_asset_any_join. Qed.

(* materials: joins at any moment, no window *)
Theorem C03_joiner_gets_material :
  forall n w0 tr s',
    mrun (minit n) tr = Some s' -> mhandover_at_quiescence w0 (minit n) tr = true -> mquiescent s' ->
    forall q, mpeers s' q -> mpstore s' q = last (mpublished tr).
Proof. exact M06_handover. Qed.

End A.

(* ---------------- the snapshot itself (frame-level model, every peer state) ---------------------- *)
Theorem C03_snapshot_has_every_entity :
  forall pr e en u,
    p_ents pr !! e = Some en -> is_Some (en_sync en) -> t_e2u pr !! e = Some u ->
    In (MSpawn u) (build_full_sync pr).2.
Proof. exact snapshot_complete_spawn. Qed.

Theorem C03_snapshot_has_every_link :
  forall pr e en q tk u pu,
    p_ents pr !! e = Some en -> is_Some (en_sync en) -> en_parent en = Some (q, tk) ->
    t_e2u pr !! e = Some u -> t_e2u pr !! q = Some pu ->
    In (MParented u pu) (build_full_sync pr).2.
Proof. exact snapshot_complete_parent. Qed.

Theorem C03_snapshot_has_every_value :
  forall pr e en u t c,
    p_ents pr !! e = Some en -> is_Some (en_sync en) -> t_e2u pr !! e = Some u ->
    en_comps en !! t = Some c -> In t (p_sync_types pr) -> ~ In t (en_excl en) ->
    In (match c_val c with
        | VSkin j p => MComp u T_MAPPER (to_skinned_mapper pr j p)
        | w => MComp u t w
        end) (build_full_sync pr).2.
Proof. exact snapshot_complete_comp. Qed.

(* every asset of an enabled URL class is announced: with this peer as owner AND served by it when no
   download of the id is under way; with the owner named by the latest request otherwise (since the
   repair of S26, 8b1d5d0) — and an id this peer is still downloading is announced with that owner
   whether or not the peer holds a copy yet *)
Theorem C03_snapshot_has_every_asset :
  forall pr c a v,
    class_enabled pr (KClass c) = true -> a_store pr !! akey (KClass c) a = Some v ->
    (~ download_pending pr c a ->
       In (MAsset c a (p_id pr)) (build_full_sync pr).2 /\
       h_cache (build_full_sync pr).1 !! akey (KClass c) a = Some v) /\
    (download_pending pr c a ->
       exists o, In (a, o) (pending_of pr c) /\ latest_owner pr c a o /\
                 In (MAsset c a o) (build_full_sync pr).2).
Proof. exact snapshot_complete_asset. Qed.

Theorem C03_snapshot_hands_on_pending_downloads :
  forall pr c a,
    class_enabled pr (KClass c) = true -> download_pending pr c a ->
    exists o, In (a, o) (pending_of pr c) /\ latest_owner pr c a o /\
              In (MAsset c a o) (build_full_sync pr).2.
Proof. exact snapshot_complete_pending. Qed.

Theorem C03_snapshot_asset_justified :
  forall pr c a o,
    In (MAsset c a o) (build_full_sync pr).2 ->
    class_enabled pr (KClass c) = true /\
    ((o = p_id pr /\ ~ download_pending pr c a /\
      exists v, a_store pr !! akey (KClass c) a = Some v /\
                h_cache (build_full_sync pr).1 !! akey (KClass c) a = Some v) \/
     (In (a, o) (pending_of pr c) /\ latest_owner pr c a o)).
Proof. exact snapshot_asset_justified. Qed.

Theorem C03_snapshot_has_every_material :
  forall pr a v,
    t_mat pr = true -> a_store pr !! akey KMaterial a = Some v ->
    In (MMaterial a v) (build_full_sync pr).2.
Proof. exact snapshot_complete_material. Qed.

(* every spawn precedes every value, link and asset message: the joiner knows an entity before
   anything that mentions it arrives *)
Theorem C03_snapshot_spawns_first :
  forall pr,
    exists spawns rest,
      (build_full_sync pr).2 = spawns ++ rest /\
      Forall (fun m => is_spawn m = true) spawns /\
      Forall (fun m => is_spawn m = false) rest.
Proof. exact snapshot_spawns_first. Qed.

(* FinishedInitialSync is the last message of the batch the host sends ... *)
Theorem C03_snapshot_then_finished_last :
  forall pr c,
    let pre := queued_msgs pr in      (* repair of S21: the detected, unsent component changes go out first, to every client *)
    let ms := (build_full_sync pr).2 in
    p_out (apply_cmd pr (CSendInitialSync c)) = p_out pr ++ pre ++ ((fun m => (c, m)) <$> ms) ++ [(c, MFinInit)]
    /\ Forall (fun x => is_fin x.2 = false) pre
    /\ Forall (fun m => is_fin m = false) ms.
Proof. exact send_initial_sync_batch. Qed.

Print Assumptions E.C03_joiner_gets_entities.
Print Assumptions E.C03_reconnect_refuted.
Print Assumptions V.C03_joiner_gets_current_value.
Print Assumptions P.C03_joiner_gets_parent.
Print Assumptions A.C03_joiner_gets_asset.
Print Assumptions A.C03_joiner_gets_material.
Print Assumptions C03_snapshot_has_every_entity.
Print Assumptions C03_snapshot_has_every_link.
Print Assumptions C03_snapshot_has_every_value.
Print Assumptions C03_snapshot_has_every_asset.
Print Assumptions C03_snapshot_has_every_material.
Print Assumptions C03_snapshot_spawns_first.
Print Assumptions C03_snapshot_then_finished_last.
