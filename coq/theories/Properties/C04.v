(* C04 — Only opted-in data ever leaves a peer.
   Statements only; proofs are `exact`. Model: the frame-level model Sync/Model.v; vocabulary
   (relayed, known, wire_opted, queue_ok, order_ok, typed_state, app_cmds_ok, trace_ok) in
   Sync/Proofs/OptIn.v. Quantified over ALL peer states, ALL executable orders of Update
   (p_order is an arbitrary list), ALL oracles; the global corollaries over all traces. *)
From stdpp Require Import gmap list.
From Coq Require Import NArith List.
From BS Require Import Sync.Types Sync.Model Sync.Observe Sync.Proofs.OptInLemmas Sync.Proofs.OptIn.
From BSGen Require Schedule.
From BS Require Sync.Schedule.

(* A component update in the frame's output is either a copy of a received message (host relay)
   or concerns a uuid this peer tracks and a type registered with sync_component on THIS peer. *)
Theorem C04_originated_components_opted_in :
  forall pr o,
    p_panic pr = None -> queue_ok pr -> order_ok pr -> typed_state pr -> app_cmds_ok pr ->
    (forall dst u t v, In (dst, MComp u t v) (p_out (frame pr o)) ->
       relayed pr (MComp u t v) \/ (known pr u /\ wire_opted pr t /\ not_skin v)) /\
    queue_ok (frame pr o).
Proof. exact originated_components_opted_in. Qed.

Theorem C04_unregistered_type_never_originated :
  forall pr o t,
    p_panic pr = None -> queue_ok pr -> order_ok pr -> typed_state pr -> app_cmds_ok pr ->
    ~ wire_opted pr t ->
    forall dst u v, In (dst, MComp u t v) (p_out (frame pr o)) -> relayed pr (MComp u t v).
Proof. exact unregistered_type_never_originated. Qed.

(* a component excluded (SyncExclude<T>) on every synchronised entity carrying it whenever the
   detector runs is never queued by the frame *)
Theorem C04_excluded_component_not_queued :
  forall pr o t,
    p_panic pr = None -> queue_ok pr -> order_ok pr -> typed_state pr -> app_cmds_ok pr ->
    excluded_at_detection pr o t -> t <> T_MAPPER ->
    forall u v, In (u, t, v) (t_queue (frame pr o)) -> In (u, t, v) (t_queue pr).
Proof. exact excluded_type_not_queued. Qed.

(* asset updates: relayed, or the class is enabled on this peer and the URL is this peer's own — or, in
   the snapshot for a joining client since the repair of S26 (8b1d5d0), the URL this peer was given for
   an asset of an enabled class it is still downloading *)
Theorem C04_originated_assets_enabled :
  forall pr o,
    p_panic pr = None -> app_cmds_ok pr ->
    (forall dst a v, In (dst, MMaterial a v) (p_out (frame pr o)) ->
       relayed pr (MMaterial a v) \/ t_mat pr = true) /\
    (forall dst c a owner, In (dst, MAsset c a owner) (p_out (frame pr o)) ->
       relayed pr (MAsset c a owner) \/
       (class_enabled pr (KClass c) = true /\ (owner = p_id pr \/ downloading pr c a owner))).
Proof. exact originated_assets_enabled. Qed.

(* an entity never marked / never synchronised: no originated message mentions it, it is never
   announced, and the frame does not start tracking it *)
Theorem C04_never_marked_never_sent :
  forall pr o e,
    p_panic pr = None -> app_cmds_ok pr -> ~ known pr e ->
    (forall dst m, In (dst, m) (p_out (frame pr o)) -> In e (msg_subjects m) -> relayed pr m) /\
    (forall dst, ~ In (dst, MSpawn e) (p_out (frame pr o))) /\
    ~ known (frame pr o) e.
Proof. exact never_marked_never_sent. Qed.

(* the snapshot sent to a joining client: every message is justified on the state it was built in *)
Theorem C04_snapshot_opted_in :
  forall pr m,
    In m (build_full_sync pr).2 ->
    match m with
    | MSpawn u => exists e en, p_ents pr !! e = Some en /\ is_Some (en_sync en) /\ t_e2u pr !! e = Some u
    | MParented u pu =>
        exists e en q tk, p_ents pr !! e = Some en /\ is_Some (en_sync en) /\ en_parent en = Some (q, tk) /\
          t_e2u pr !! e = Some u /\ t_e2u pr !! q = Some pu
    | MComp u t' v =>
        exists e en t c, p_ents pr !! e = Some en /\ is_Some (en_sync en) /\ t_e2u pr !! e = Some u /\
          en_comps en !! t = Some c /\ In t (p_sync_types pr) /\ ~ In t (en_excl en) /\
          match c_val c with
          | VSkin j p => t' = T_MAPPER /\ v = to_skinned_mapper pr j p
          | w => t' = t /\ v = w
          end
    | MMaterial _ _ => t_mat pr = true
    | MAsset c a owner =>
        class_enabled pr (KClass c) = true /\
        ((owner = p_id pr /\ ~ download_pending pr c a /\ exists v, a_store pr !! akey (KClass c) a = Some v) \/
         (In (a, owner) (pending_of pr c) /\ latest_owner pr c a owner))
    | _ => False
    end.
Proof. exact snapshot_opted. Qed.

(* over all traces: the hypotheses above hold in every reachable state, and a component type
   that no peer registered never travels on any link *)
Theorem C04_invariants_of_every_reachable_state :
  forall n tr, trace_ok (init_global n) tr -> global_fine (grun (init_global n) tr).
Proof. exact C04_global. Qed.

Theorem C04_frame_of_reachable_state :
  forall n tr p pr o,
    trace_ok (init_global n) tr -> grun (init_global n) tr !! p = Some pr -> p_panic pr = None ->
    forall dst u t v, In (dst, MComp u t v) (p_out (frame pr o)) ->
      (exists from l, n_inbox pr !! from = Some l /\ In (MComp u t v) l) \/
      (known pr u /\ wire_opted pr t /\ not_skin v).
Proof. exact OptIn.C04_frame_of_reachable. Qed.

Theorem C04_unregistered_type_never_travels :
  forall n tr t,
    trace_ok (init_global n) tr ->
    (forall q prq, grun (init_global n) tr !! q = Some prq -> ~ wire_opted prq t) ->
    forall p pr src l u v, grun (init_global n) tr !! p = Some pr -> n_inbox pr !! src = Some l ->
      ~ In (MComp u t v) l.
Proof. exact OptIn.C04_unregistered_never_travels. Qed.

(* The schedule the model assumes IS the schedule of the source: gen/Schedule.v is regenerated from
   every add_systems(...) call of /repo/src on every run (system, schedule label, run conditions,
   position in its chain) and must equal the table Model.run_system was written from; and
   Model.run_system runs each system exactly when the run conditions the source gives it hold
   (Sync/Schedule.v). A run condition added, dropped or changed in the source, or a system moved
   between plugins, breaks the first theorem at build time. *)
Theorem C04_schedule_matches_source : Schedule.src_schedule = Sync.Schedule.model_schedule.
Proof. exact Sync.Schedule.schedule_matches_source. Qed.

Theorem C04_systems_run_under_the_source_conditions :
  forall pr s o cs,
    p_panic pr = None -> Sync.Schedule.conds_of s = Some cs ->
    let '(pr', e) := Sync.Schedule.edge_of pr s in
    exists b, Sync.Schedule.eval_conds e pr cs = Some b /\ run_system pr s o = if b then run_body pr' s o else pr'.
Proof. exact Sync.Schedule.run_system_follows_schedule. Qed.

Print Assumptions C04_originated_components_opted_in.
Print Assumptions C04_unregistered_type_never_originated.
Print Assumptions C04_excluded_component_not_queued.
Print Assumptions C04_originated_assets_enabled.
Print Assumptions C04_never_marked_never_sent.
Print Assumptions C04_snapshot_opted_in.
Print Assumptions C04_invariants_of_every_reachable_state.
Print Assumptions C04_frame_of_reachable_state.
Print Assumptions C04_unregistered_type_never_travels.
Print Assumptions C04_schedule_matches_source.
Print Assumptions C04_systems_run_under_the_source_conditions.
