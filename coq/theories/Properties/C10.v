(* C10 — A single writer's updates are observed in order, never invented.
   Statements only; proofs are `exact`. Model: Abs/Values.v (see C02.v). *)
From stdpp Require Import gmap list.
From Coq Require Import NArith.
From BS Require Import Abs.Values Abs.ValuesProofs.

(* While peer w alone writes the key (any number of writes, any values, bursts and pauses, every
   interleaving of the detector runs / sends / deliveries of all peers, any number of clients,
   joins anywhere): every value any peer ever shows was written, and the sequence of values any
   OTHER peer displays — change after change, third peers behind the host's relay included — is
   a subsequence of the written values in the order written. (When the writer is the host,
   joins must not fall between its detector run and its send: known finding S21 below.) *)
Theorem C10_single_writer :
  forall n w tr s',
    vrun (vinit n) tr = Some s' -> only_writer w tr ->
    (w = host -> joins_clean (vinit n) tr = true) ->
    (forall p v, pcur s' p = Some v -> v ∈ written tr) /\
    (forall p, p <> w -> displayed p (vinit n) tr `sublist_of` written tr).
Proof. exact ValuesProofs.C10_single_writer. Qed.

(* ... ending with the last one: at quiescence every peer shows the last written value *)
Theorem C10_ends_with_last :
  forall n w tr s',
    vrun (vinit n) tr = Some s' -> only_writer w tr -> vquiescent s' ->
    forall p, peers s' p -> pcur s' p = last (written tr).
Proof. exact ValuesProofs.C10_ends_with_last. Qed.

(* the host's relay-only-if-changed loses nothing *)
Theorem C10_relay_loses_nothing :
  forall n w tr s',
    vrun (vinit n) tr = Some s' -> only_writer w tr -> w <> host ->
    forall c, c ∈ vconn s' -> c <> w -> lastd (pcur s' c) (link s' host c) = pcur s' host.
Proof. exact ValuesProofs.relay_loses_nothing. Qed.

(* Known finding S21: with the host as writer and a join between its detector run and its send,
   the joiner sees a newer value (snapshot) and then an older queued one. *)
Theorem C10_refuted_host_writer_join :
  exists n w tr s' p,
    vrun (vinit n) tr = Some s' /\ only_writer w tr /\ p <> w /\
    ~ displayed p (vinit n) tr `sublist_of` written tr.
Proof. exact ValuesProofs.C10_host_join_refuted. Qed.

Print Assumptions C10_single_writer.
Print Assumptions C10_ends_with_last.
Print Assumptions C10_relay_loses_nothing.
Print Assumptions C10_refuted_host_writer_join.
