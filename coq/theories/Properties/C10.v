(* C10 — A single writer's updates are observed in order, never invented.
   Statements only; proofs are `exact`. Model: Abs/Values.v (see C02.v). *)
From stdpp Require Import gmap list.
From Coq Require Import NArith.
From BS Require Import Abs.Values Abs.ValuesProofs.

(* While peer w alone writes the key (any number of writes, any values, bursts and pauses, every
   interleaving of the detector runs / sends / deliveries of all peers, any number of clients,
   joins ANYWHERE, the host as writer included): every value any peer ever shows was written, and
   the sequence of values any OTHER peer displays — change after change, third peers behind the
   host's relay and joiners included — is a subsequence of the written values in the order written.
   (Before the repair 8f66353 of S21 a join between the host's detector run and its send showed the
   joiner b, a, b: reproduced on the real code, see the corpus scenario S21.) *)
Theorem C10_single_writer :
  forall n w tr s',
    vrun (vinit n) tr = Some s' -> only_writer w tr ->
    (forall p v, pcur s' p = Some v -> v ∈ written tr) /\
    (forall p, p <> w -> displayed p (vinit n) tr `sublist_of` written tr).
Proof. exact ValuesProofs.C10_single_writer_any_join. Qed.

(* ... at every point of the run, not only at its end *)
Theorem C10_every_prefix :
  forall n w tr1 tr2 s1,
    only_writer w (tr1 ++ tr2) ->
    vrun (vinit n) tr1 = Some s1 ->
    (forall p v, pcur s1 p = Some v -> v ∈ written tr1) /\
    (forall p, p <> w -> displayed p (vinit n) tr1 `sublist_of` written tr1).
Proof. exact ValuesProofs.C10_every_prefix_any_join. Qed.

(* ... ending with the last one: at quiescence every peer shows the last written value *)
Theorem C10_ends_with_last :
  forall n w tr s',
    vrun (vinit n) tr = Some s' -> only_writer w tr -> vquiescent s' ->
    forall p, peers s' p -> pcur s' p = last (written tr).
Proof. exact ValuesProofs.C10_ends_with_last. Qed.

(* the host's relay-only-if-changed loses nothing *)
Theorem C10_relay_loses_nothing :
  forall n w tr s',
    vrun (vinit n) tr = Some s' -> only_writer w tr -> w <> host ->
    forall c, c ∈ vconn s' -> c <> w -> lastd (pcur s' c) (link s' host c) = pcur s' host.
Proof. exact ValuesProofs.relay_loses_nothing. Qed.

Print Assumptions C10_single_writer.
Print Assumptions C10_ends_with_last.
Print Assumptions C10_relay_loses_nothing.
Print Assumptions C10_every_prefix.
