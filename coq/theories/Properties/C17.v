(* C17 — Replicated render components receive their engine companions.
   Statements only; proofs are `exact`. Model: the nine fix_* systems of src/bundle_fix.rs in
   Sync/Model.v (fix_system, CFixInsert, flush); vocabulary (fix_spec, fix_ent_rel, fix_only,
   no_respawn, companions_reserved, fix_pending_or_done, ticks_ok, ent_has_some/all) in
   Sync/Proofs/Fix(Lemmas).v. For ALL peer states, ALL executable orders, ALL oracles. *)
From stdpp Require Import gmap list.
From Coq Require Import NArith.
From BS Require Import Sync.Types Sync.Model Sync.Proofs.FixLemmas Sync.Proofs.Fix.
Local Open Scope N_scope.

(* the companions are added within a frame: a trigger component added since the fix system's last
   run gets (one of) its companions by the end of the frame — wherever the scheduler placed the
   system, with the entity possibly despawned meanwhile (then nothing happens, no panic) *)
Theorem C17_companions_added_within_a_frame :
  forall s T C pr o e en c,
    fix_spec s = Some (T, C) -> s ∈ p_order pr -> no_respawn e pr ->
    p_ents pr !! e = Some en -> en_comps en !! T = Some c -> last_run pr (sys_key s) < c_added c ->
    p_panic (frame pr o) = None ->
    ent_has_some C (frame pr o) e /\ no_respawn e (frame pr o).
Proof. exact companions_added_within_a_frame. Qed.

(* all companions of the kind (the Visibility bundle needs both), when nobody else inserts a lone one *)
Theorem C17_all_companions_added_within_a_frame :
  forall s T C pr o e en c,
    fix_spec s = Some (T, C) -> s ∈ p_order pr -> companions_reserved C e pr ->
    p_ents pr !! e = Some en -> en_comps en !! T = Some c -> last_run pr (sys_key s) < c_added c ->
    (forall t, t ∈ C -> has_comp en t = false) ->
    p_panic (frame pr o) = None ->
    ent_has_all C (frame pr o) e /\ companions_reserved C e (frame pr o).
Proof. exact all_companions_added_within_a_frame. Qed.

(* however the component got there (applied from the network at any flush of a frame): one further
   frame later the companions are there *)
Theorem C17_companions_added_within_two_frames :
  forall s T C pr o1 o2 e en1,
    fix_spec s = Some (T, C) -> s ∈ p_order pr -> ticks_ok pr -> no_respawn e pr ->
    fix_pending_or_done s T C pr e ->
    p_panic (frame (frame pr o1) o2) = None ->
    p_ents (frame pr o1) !! e = Some en1 -> has_comp en1 T = true ->
    ent_has_some C (frame (frame pr o1) o2) e.
Proof. exact companions_added_within_two_frames. Qed.

(* without changing the replicated value: a fix command changes nothing but the companions it
   inserts — every other component keeps value AND ticks (so the change detector cannot fire
   again), tracker queue, tokens, outgoing messages, links, maps are untouched *)
Theorem C17_replicated_value_unchanged :
  forall pr e cs,
    let pr' := apply_cmd pr (CFixInsert e cs) in
    (forall e', option_Forall2 (fix_ent_rel (fun t => t ∈ cs)) (p_ents pr !! e') (p_ents pr' !! e')) /\
    t_queue pr' = t_queue pr /\ t_ctok pr' = t_ctok pr /\ p_out pr' = p_out pr /\ n_inbox pr' = n_inbox pr /\
    p_cmdq pr' = p_cmdq pr /\ p_panic pr' = p_panic pr /\ t_e2u pr' = t_e2u pr /\ t_u2e pr' = t_u2e pr.
Proof. exact fix_never_changes_replicated_values. Qed.

(* already present companions are left untouched: the system queues nothing for such an entity *)
Theorem C17_present_companions_untouched :
  forall s T C pr o e en,
    fix_spec s = Some (T, C) -> p_ents pr !! e = Some en -> has_all C en ->
    forall cs, CFixInsert e cs ∈ queue (run_system pr s o) (sys_key s) -> CFixInsert e cs ∈ queue pr (sys_key s).
Proof. exact present_companions_untouched. Qed.

(* and the addition does not disturb convergence: after a flush of fix commands every change
   detector of a replicated type queues exactly what it would have queued before *)
Theorem C17_detectors_unaffected :
  forall pr t last,
    fix_only pr -> t < 100 ->
    t_queue (sync_detect (flush pr) t last) = t_queue (sync_detect pr t last) /\
    t_ctok (sync_detect (flush pr) t last) = t_ctok (sync_detect pr t last).
Proof. exact fix_flush_detector_unaffected. Qed.

Print Assumptions C17_companions_added_within_a_frame.
Print Assumptions C17_all_companions_added_within_a_frame.
Print Assumptions C17_companions_added_within_two_frames.
Print Assumptions C17_replicated_value_unchanged.
Print Assumptions C17_present_companions_untouched.
Print Assumptions C17_detectors_unaffected.
