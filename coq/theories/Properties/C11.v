(* C11 — Mesh wire encoding is lossless for supported mesh data.
   Statements only; every proof is `exact <lemma>`. Model: Codec/MeshCodec.v (mesh_to_bin /
   bin_to_mesh over the bincode model Codec/Schema.v and the lz4 model Codec/Lz4.v). Source tie:
   BSGen.MeshLayout is regenerated from /repo/src/networking/assets/mesh_serde.rs on every run; the
   model is DEFINED over its tables (field list and wire types of MeshData, which part of the
   Mesh feeds which field, which field is written where on decode, both topology tables), so
   the theorems below are re-checked against what the source says now. *)
From Coq Require Import List NArith.
From BS Require Import Codec.Schema Codec.Lz4 Codec.CodecTypes Codec.MeshCodec Codec.MeshCodecProofs.
From BSGen Require Import MeshLayout.
Import ListNotations.
Local Open Scope N_scope.

(* ---- the code's declarative fragments are the ones the model was written for ---------- *)

(* the two `match` blocks on the topology are inverse of each other, arm by arm, and the encoder
   has an arm for each of the five topologies *)
Theorem C11_source_topology_tables_inverse :
  forallb (fun p => topology_eqb (num_to_topo (snd p)) (fst p)) topo_enc_table = true
  /\ forallb (fun p => topo_to_num (snd p) =? fst p) topo_dec_table = true
  /\ forallb (fun t => existsb (fun p => topology_eqb (fst p) t) topo_enc_table) all_topologies = true
  /\ map fst topo_dec_table = [0; 1; 2; 3; 4].
Proof. exact source_topology_tables_inverse. Qed.

(* the wire layout of `struct MeshData` (field order and types) *)
Theorem C11_source_layout :
  meshdata_fields =
  [(F_mesh_type, TInt 1);
   (F_positions, TOpt (TSeq (TArr 3 (TInt 4)))); (F_normals, TOpt (TSeq (TArr 3 (TInt 4))));
   (F_uvs0, TOpt (TSeq (TArr 2 (TInt 4)))); (F_uvs1, TOpt (TSeq (TArr 2 (TInt 4))));
   (F_tangents, TOpt (TSeq (TArr 4 (TInt 4)))); (F_colors, TOpt (TSeq (TArr 4 (TInt 4))));
   (F_joint_weights, TOpt (TSeq (TArr 4 (TInt 4)))); (F_joint_indices, TOpt (TSeq (TArr 4 (TInt 2))));
   (F_indices32, TOpt (TSeq (TInt 4))); (F_indices16, TOpt (TSeq (TInt 2)));
   (F_morph_targets, TOpt asset_id_ty); (F_morph_target_names, TOpt (TSeq TBytes))].
Proof. exact source_layout. Qed.

(* each attribute is matched with the vertex format Bevy fixes for it and lands in a field of
   that element type *)
Theorem C11_source_attribute_formats :
  Forall (fun r => let '(f, a, k, w) := r in
                   attr_shape a = (k, w)
                   /\ assoc mfield_eqb f meshdata_fields = Some (TOpt (TSeq (TArr k (TInt w))))
                   /\ field_source f = Some (SrcAttr a)) mesh_enc_shapes
  /\ map (fun r => snd (fst (fst r))) mesh_enc_shapes
     = [A_POSITION; A_TANGENT; A_NORMAL; A_UV_0; A_UV_1; A_COLOR; A_JOINT_WEIGHT; A_JOINT_INDEX].
Proof. exact source_attribute_formats. Qed.

(* the decoder writes every field to the part of the mesh the encoder read it from *)
Theorem C11_source_decode_writes_what_encode_read :
  mesh_dec_targets = mesh_enc_sources
  /\ map snd mesh_enc_sources
     = [SrcTopology; SrcAttr A_POSITION; SrcAttr A_NORMAL; SrcAttr A_UV_0; SrcAttr A_UV_1;
        SrcAttr A_TANGENT; SrcAttr A_COLOR; SrcAttr A_JOINT_WEIGHT; SrcAttr A_JOINT_INDEX;
        SrcIndices32; SrcIndices16; SrcMorph; SrcNames]
  /\ mesh_fallback_topology = TriangleList /\ topo_dec_default = TriangleList.
Proof. exact source_decode_writes_what_encode_read. Qed.

(* ---- the property ------------------------------------------------------------------------ *)

(* For every supported mesh -- any of the five topologies, any subset of the eight attributes
   with any number of vertices (zero included, no bound) and any f32 bit patterns, no / 16-bit /
   32-bit indices, no or a weak morph-target handle, any morph-target names -- encoding succeeds
   and decoding the bytes returns exactly that mesh: same topology, bit-identical attribute
   values, same indices with the same width, same names and handle, absent attributes absent.
   `supported m` = every number fits its Rust type, every vertex has the arity of its format,
   and the morph-target handle is not a strong handle. Whatever lz4 does with the data
   (compressible or not) is covered: the compressor model is byte exact and its round trip is
   proved for all inputs. *)
Theorem C11_mesh_lossless :
  forall m, supported m -> exists bs, mesh_to_bin m = Some bs /\ bin_to_mesh bs = Ok m.
Proof. exact MeshCodecProofs.C11_mesh_lossless. Qed.

(* outside the supported set: a strong morph-target handle is dropped, everything else survives *)
Theorem C11_strong_handle_dropped :
  forall m, wf_mesh m -> morph m = MStrong ->
  exists bs, mesh_to_bin m = Some bs
    /\ bin_to_mesh bs = Ok (mkMesh (topo m) (positions m) (normals m) (uvs0 m) (uvs1 m)
                                   (tangents m) (colors m) (joint_weights m) (joint_indices m)
                                   (indices m) MNone (morph_names m)).
Proof. exact MeshCodecProofs.C11_strong_handle_dropped. Qed.

(* the hypotheses are met by a mesh with special floats, an empty attribute, u16 indices, a weak
   handle and non-ASCII / empty names *)
Theorem C11_supported_is_inhabited : supported ex_mesh /\ positions ex_mesh <> None.
Proof. exact ex_mesh_nontrivial. Qed.

(* the functions the correspondence check runs are the ones the theorems are about *)
Theorem C11_executed_model_is_specified_model :
  (forall m, mesh_to_bin_fast m = mesh_to_bin m) /\ (forall bs, bin_to_mesh_fast bs = bin_to_mesh bs).
Proof. exact (conj mesh_to_bin_fast_eq bin_to_mesh_fast_eq). Qed.

(* the model's third decoder outcome (a bincode value without the shape of its own schema) is
   reached by no input: on EVERY byte string bin_to_mesh panics in decompress or returns a mesh *)
Theorem C11_decoder_never_stuck : forall bs, bin_to_mesh bs <> Stuck.
Proof. exact bin_to_mesh_never_stuck. Qed.

Print Assumptions C11_source_topology_tables_inverse.
Print Assumptions C11_source_layout.
Print Assumptions C11_source_attribute_formats.
Print Assumptions C11_source_decode_writes_what_encode_read.
Print Assumptions C11_mesh_lossless.
Print Assumptions C11_strong_handle_dropped.
Print Assumptions C11_supported_is_inhabited.
Print Assumptions C11_executed_model_is_specified_model.
Print Assumptions C11_decoder_never_stuck.
