(* C01 — Every peer converges to the same set of synchronized entities.
   Statements only; proofs are `exact`. Model: the event-level entity protocol (Abs/Entities.v):
   per peer the uuids of its live synchronized entities, the host's client table, FIFO links of
   ESpawn / EDelete / EReqInit / EFinInit, atomic events EvSpawn, EvDespawn, EvDeliver, EvConnect,
   EvLeave; handlers mirror entity_created_on_* / entity_removed_from_* (src/{server,client}/track.rs),
   the EntitySpawn / EntityDelete / RequestInitialSync handlers (src/{server,client}/receiver.rs) and
   build_full_sync. Any number of clients, every interleaving of atomic events of all peers (a
   superset of what frames can produce), connections and departures anywhere. The model's `step`
   replays the event sequences extracted from real traces on every run (ocaml/drv_absent.ml). *)
From stdpp Require Import gmap list.
From Coq Require Import NArith.
From BS Require Import Abs.Entities Abs.EntitiesProofs.
From BS Require Sync.Types Sync.Model Sync.Observe Sync.UniquePremise Sync.Proofs.Hierarchy Sync.Proofs.Tracker Sync.Proofs.UuidStable Sync.Proofs.Unique.
Local Open Scope N_scope.

(* uniqueness: on EVERY run (also inside the known defect classes) no peer holds a uuid twice; the
   host, which has no duplicate guard, never receives a spawn for a uuid it already holds *)
Theorem C01_entities_unique :
  forall tr s, run init tr = Some s -> forall p, NoDup (get_ents s p).
Proof. exact EntitiesProofs.entities_unique. Qed.

Theorem C01_host_never_receives_duplicate :
  forall tr s c u q, run init tr = Some s -> get_link s c 0 = ESpawn u :: q ->
    u ∉ get_ents s 0 /\ ESpawn u ∉ q.
Proof. exact EntitiesProofs.host_never_receives_duplicate. Qed.

(* convergence: outside the known defect class S11 (a client re-connects still holding entities),
   every quiescent state is an agreeing state — host and every connected, synced client hold the
   same uuids, each exactly once — and what they hold is what the history says is alive (spawned and
   not despawned), for every uuid whose announcement was not lost with a departing client.
   (S18 — a client despawning a replica while a re-creation of it was on its way to it — was a
   second excluded class until the repair 3a36420: the client now ignores a spawn for an entity it
   despawned itself during the current session.) *)
Theorem C01_entities_converge :
  forall tr s, run init tr = Some s ->
    known_S11 tr = false -> quiescent s ->
    agree s /\
    (forall u, u ∉ dropped_uuids tr -> (u ∈ get_ents s 0 <-> u ∈ spec_alive tr)) /\
    (forall c u, c ∈ conn s -> c ∈ synced s -> u ∉ dropped_uuids tr ->
                 (u ∈ get_ents s c <-> u ∈ spec_alive tr)).
Proof. exact EntitiesProofs.C01_entities_converge. Qed.

(* at quiescence every connected client has been given its snapshot, so the side condition above
   is redundant: EVERY connected client holds exactly the host's set *)
Theorem C01_every_connected_client :
  forall tr s, run init tr = Some s -> known_S11 tr = false -> quiescent s ->
    forall c, c ∈ conn s ->
      NoDup (get_ents s c) /\ (forall u, u ∈ get_ents s c <-> u ∈ get_ents s 0) /\
      (forall u, u ∉ dropped_uuids tr -> (u ∈ get_ents s c <-> u ∈ spec_alive tr)).
Proof. exact EntitiesProofs.C01_every_connected_client. Qed.

(* a client that connects at ANY moment and is still connected ends with exactly the host's entities *)
Theorem C01_joiner_gets_entities :
  forall tr1 c tr2 s,
    run init (tr1 ++ EvConnect c :: tr2) = Some s -> known_S11 (tr1 ++ EvConnect c :: tr2) = false ->
    quiescent s -> c ∈ conn s ->
    NoDup (get_ents s c) /\ forall u, u ∈ get_ents s c <-> u ∈ get_ents s 0.
Proof. exact EntitiesProofs.joiner_gets_entities. Qed.

(* the host matches the history on every run, no class excluded *)
Theorem C01_host_matches_history :
  forall tr s, run init tr = Some s -> quiescent s ->
    forall u, u ∉ dropped_uuids tr -> (u ∈ get_ents s 0 <-> u ∈ spec_alive tr).
Proof. exact EntitiesProofs.C01_host_matches_spec. Qed.

(* without departures no class has to be excluded, and nothing is lost *)
Theorem C01_entities_converge_no_leave :
  forall tr s, run init tr = Some s -> (forall c, EvLeave c ∉ tr) -> quiescent s ->
    agree s /\ forall u, u ∈ get_ents s 0 <-> u ∈ spec_alive tr.
Proof. exact EntitiesProofs.C01_entities_converge_no_leave. Qed.

(* Known finding S11 (open): the unrestricted statement is false of the faithful model (and of the
   real code: corpus/proto/S11_*.scn) *)
Theorem C01_refuted_reconnect_keeps_deleted :
  exists tr s, run init tr = Some s /\ quiescent s /\ ~ agree s.
Proof. exact EntitiesProofs.C01_refuted_S11. Qed.

Theorem C01_refuted_reconnect_lost_spawn :
  exists tr s, run init tr = Some s /\ quiescent s /\ ~ agree s.
Proof. exact EntitiesProofs.C01_refuted_S11_lost_spawn. Qed.

Theorem C01_unrestricted_is_false :
  ~ (forall tr s, run init tr = Some s -> quiescent s -> agree s).
Proof. exact EntitiesProofs.C01_unrestricted_is_false. Qed.

(* "... and an entity's uuid is identical on all peers and never changes", on the FRAME-LEVEL model
   (Sync/Model.v, the model the per-frame correspondence ties to the code; Sync/Proofs/UuidStable.v: an
   inductive invariant over frames, systems, commands and application operations, all orders and oracles).
   For every run in which the application puts SyncMark only on entities of its own and queues no command
   that names a uuid (uuid_conforming), and any two moments of it: an entity id never stands for two uuids
   - whatever happened to the id in between (despawned, spawned again, marked again) ... *)
Theorem C01_an_id_never_stands_for_two_uuids :
  forall n tr1 tr2, UuidStable.uuid_conforming n (tr1 ++ tr2) ->
    forall p pr1 pr2, Model.grun (Observe.init_global n) tr1 !! p = Some pr1 ->
                      Model.grun (Observe.init_global n) (tr1 ++ tr2) !! p = Some pr2 ->
      UuidStable.uuid_fixed pr1 pr2.
Proof. exact UuidStable.grun_uuid_fixed. Qed.

(* ... and every entity that is synchronized at the first moment and still there at the second has the
   same uuid, unless the application itself spawned a new entity over its id in between *)
Theorem C01_uuid_never_changes :
  forall n tr1 tr2, UuidStable.uuid_conforming n (tr1 ++ tr2) ->
    forall p pr1 pr2, Model.grun (Observe.init_global n) tr1 !! p = Some pr1 ->
                      Model.grun (Observe.init_global n) (tr1 ++ tr2) !! p = Some pr2 ->
      (forall e, Model.has_sync pr1 e = true -> UuidStable.respawned p e tr2 = false) ->
      UuidStable.sync_stable pr1 pr2.
Proof. exact UuidStable.grun_uuid_never_changes. Qed.

(* the premise is needed: an application that marks a network replica gives it a second uuid (the
   Added<SyncMark> queries have no Without<SyncEntity> filter; confirmed on the real code). C01 quantifies
   over spawn / despawn operations, so this is outside the property *)
Theorem C01_marking_a_replica_changes_its_uuid :
  exists n tr1 tr2 p pr1 pr2 e en en' u u',
    Model.grun (Observe.init_global n) tr1 !! p = Some pr1 /\
    Model.grun (Observe.init_global n) (tr1 ++ tr2) !! p = Some pr2 /\
    Model.p_ents pr1 !! e = Some en /\ Types.en_sync en = Some u /\
    Model.p_ents pr2 !! e = Some en' /\ Types.en_sync en' = Some u' /\ u <> u'.
Proof. exact UuidStable.uuid_changes_when_a_replica_is_marked. Qed.

(* "... holds exactly one live entity for each surviving uuid": the "at most one" half on the frame-level
   model (Sync/Proofs/Unique.v). No peer ever holds two live entities with one uuid in any run in which
   every EntitySpawn that arrives is fresh (spawns_fresh: a decidable check of every frame's inboxes - on a
   hosting peer the uuid has no holder yet and is announced once, on a client every holder is the one the
   tracker names or the uuid is tombstoned, no delete of it waits in front). That announcements ARE fresh is
   what the event-level theorem C01_host_never_receives_duplicate above establishes for the protocol; the
   premise (Sync/UniquePremise.v, definitions only) is extracted with the model and evaluated by the driver on
   the state before every replayed frame of every real run; the evidence reports how often it holds. *)
Theorem C01_at_most_one_entity_per_uuid :
  forall n tr, UuidStable.uuid_conforming n tr -> UniquePremise.spawns_fresh n tr ->
    forall p pr, Model.grun (Observe.init_global n) tr !! p = Some pr -> UniquePremise.uuid_unique pr.
Proof. exact Unique.grun_uuid_unique. Qed.

(* the premise is needed on this model: script entities are identified by the id the application chose, and two
   peers that mark the same id announce the same uuid (the real code draws random uuids: the harness never
   re-uses a handle); a host has no duplicate guard *)
Theorem C01_duplicate_announcements_make_duplicates :
  exists n tr p pr, UuidStable.uuid_conforming n tr /\ Hierarchy.hier_conforming n tr /\
                    Model.grun (Observe.init_global n) tr !! p = Some pr /\ ~ UniquePremise.uuid_unique pr.
Proof. exact Unique.uuid_unique_refuted. Qed.

Print Assumptions C01_entities_unique.
Print Assumptions C01_host_never_receives_duplicate.
Print Assumptions C01_entities_converge.
Print Assumptions C01_every_connected_client.
Print Assumptions C01_joiner_gets_entities.
Print Assumptions C01_host_matches_history.
Print Assumptions C01_entities_converge_no_leave.
Print Assumptions C01_refuted_reconnect_keeps_deleted.
Print Assumptions C01_refuted_reconnect_lost_spawn.
Print Assumptions C01_unrestricted_is_false.
Print Assumptions C01_an_id_never_stands_for_two_uuids.
Print Assumptions C01_uuid_never_changes.
Print Assumptions C01_marking_a_replica_changes_its_uuid.
Print Assumptions C01_at_most_one_entity_per_uuid.
Print Assumptions C01_duplicate_announcements_make_duplicates.
