(* Proofs about the event-level model of host promotion (Promotion.v): C07 and the defect S8. *)
From Coq Require Import NArith List Lia.
From stdpp Require Import gmap list.
From RecordUpdate Require Import RecordSet.
From BS Require Import Abs.Promotion.
Import RecordSetNotations.

Local Open Scope N_scope.

(* ================================================================================================
   Part 0: the enumeration of events is complete; stability is decidable
   ================================================================================================ *)

Lemma elem_of_peers_of s p : p ∈ peers_of s <-> is_Some (ps s !! p).
Proof.
  unfold peers_of. rewrite elem_of_list_fmap. split.
  - intros [[q x] [-> Hin]]. apply elem_of_map_to_list in Hin. simpl. eauto.
  - intros [x Hx]. exists (p, x). split; [reflexivity|]. apply elem_of_map_to_list. exact Hx.
Qed.

Lemma step_peers s e s' : step s e = Some s' -> Forall (fun p => is_Some (ps s !! p)) (epeers e).
Proof.
  intros Hs. destruct e as [h c|h c|c h|p|p|p|p|p|h|c|c|h c]; simpl in Hs |- *;
    repeat match goal with
           | H : context [ps s !! ?q] |- _ =>
               lazymatch goal with
               | Hq : ps s !! q = _ |- _ => fail
               | _ => destruct (ps s !! q) eqn:?; try discriminate
               end
           end;
    repeat constructor; eauto.
Qed.

Lemma in_events1 s p e : p ∈ peers_of s -> e ∈ events1 p -> e ∈ events_of s.
Proof.
  intros Hp He. unfold events_of. apply elem_of_app. left. apply elem_of_list_bind. exists p. split; assumption.
Qed.
Lemma in_events2 s a b e : a ∈ peers_of s -> b ∈ peers_of s -> e ∈ events2 a b -> e ∈ events_of s.
Proof.
  intros Ha Hb He. unfold events_of. apply elem_of_app. right. apply elem_of_list_bind. exists a. split; [|assumption].
  apply elem_of_list_bind. exists b. split; assumption.
Qed.

Lemma events_of_complete s e s' : internal e = true -> step s e = Some s' -> e ∈ events_of s.
Proof.
  intros Hi Hs. pose proof (step_peers _ _ _ Hs) as Hp.
  destruct e as [h c|h c|c h|p|p|p|p|p|h|c|c|h c]; simpl in Hi, Hp; try discriminate;
    repeat match goal with H : Forall _ (_ :: _) |- _ => apply Forall_cons in H as [? H] end;
    repeat match goal with H : is_Some (ps s !! _) |- _ => apply elem_of_peers_of in H end.
  - apply (in_events2 s h c); [assumption..|]. unfold events2. repeat constructor.
  - apply (in_events2 s c h); [assumption..|]. unfold events2. repeat constructor.
  - apply (in_events1 s p); [assumption|]. unfold events1. repeat constructor.
  - apply (in_events1 s p); [assumption|]. unfold events1. repeat constructor.
  - apply (in_events1 s p); [assumption|]. unfold events1. repeat constructor.
  - apply (in_events1 s p); [assumption|]. unfold events1. repeat constructor.
  - apply (in_events1 s p); [assumption|]. unfold events1. repeat constructor.
  - apply (in_events1 s h); [assumption|]. unfold events1. repeat constructor.
  - apply (in_events1 s c); [assumption|]. unfold events1. repeat constructor.
  - apply (in_events1 s c); [assumption|]. unfold events1. repeat constructor.
  - apply (in_events2 s h c); [assumption..|]. unfold events2. repeat constructor.
Qed.

Lemma events_of_internal s e : e ∈ events_of s -> internal e = true.
Proof.
  unfold events_of. rewrite elem_of_app, !elem_of_list_bind.
  intros [(p & He & _)|(a & He & _)].
  - unfold events1 in He. set_unfold. naive_solver.
  - apply elem_of_list_bind in He as (b & He & _). unfold events2 in He. set_unfold. naive_solver.
Qed.

Lemma stableb_true s : stableb s = true <-> stable s.
Proof.
  unfold stableb, stable. rewrite forallb_forall. split.
  - intros H e Hi. destruct (step s e) as [s'|] eqn:Hs; [|reflexivity].
    specialize (H e). rewrite Hs in H. exfalso.
    assert (false = true) by (apply H, elem_of_list_In; eapply events_of_complete; eauto). discriminate.
  - intros H e Hin. rewrite H; [reflexivity|]. apply elem_of_list_In in Hin. eapply events_of_internal; eauto.
Qed.

Global Instance stable_dec s : Decision (stable s).
Proof. destruct (stableb s) eqn:H; [left; apply stableb_true; exact H|right; intros Hs; apply stableb_true in Hs; congruence]. Defined.

Lemma not_stable s : ~ stable s -> exists e s', internal e = true /\ step s e = Some s'.
Proof.
  intros Hn. destruct (stableb s) eqn:Hb; [exfalso; apply Hn, stableb_true; exact Hb|].
  unfold stableb in Hb. apply not_true_iff_false in Hb. rewrite forallb_forall in Hb.
  destruct (decide (Exists (fun e => is_Some (step s e)) (events_of s))) as [Hex|Hnex].
  - apply Exists_exists in Hex as (e & Hin & [s' Hs']). exists e, s'. split; [|exact Hs'].
    eapply events_of_internal; eauto.
  - exfalso. apply Hb. intros e Hin. destruct (step s e) eqn:Hs; [|reflexivity].
    exfalso. apply Hnex. apply Exists_exists. exists e. split; [apply elem_of_list_In; exact Hin|eauto].
Qed.

(* ================================================================================================
   Part 1: soundness of the exhaustive check
   ================================================================================================ *)

Lemma inb_true s R : inb s R = true <-> s ∈ R.
Proof. unfold inb. apply bool_decide_eq_true. Qed.

Lemma check_step good R s e s' :
  checkb good R = true -> s ∈ R -> internal e = true -> step s e = Some s' ->
  s' ∈ R /\ (measure s' < measure s)%nat.
Proof.
  unfold checkb. rewrite forallb_forall. intros Hc Hin Hi Hs.
  specialize (Hc s (proj1 (elem_of_list_In _ _) Hin)). apply andb_true_iff in Hc as [Hc _].
  rewrite forallb_forall in Hc. specialize (Hc e (proj1 (elem_of_list_In _ _) (events_of_complete _ _ _ Hi Hs))).
  rewrite Hs in Hc. apply andb_true_iff in Hc as [H1 H2]. split; [apply inb_true; exact H1|apply Nat.ltb_lt; exact H2].
Qed.

Lemma check_stable good R s : checkb good R = true -> s ∈ R -> stable s -> good s = true.
Proof.
  unfold checkb. rewrite forallb_forall. intros Hc Hin Hst.
  specialize (Hc s (proj1 (elem_of_list_In _ _) Hin)). apply andb_true_iff in Hc as [_ Hc].
  apply orb_true_iff in Hc as [Hc|Hc]; [|exact Hc].
  apply stableb_true in Hst. rewrite Hst in Hc. discriminate.
Qed.

Lemma check_run good R : checkb good R = true -> forall tr s s',
  s ∈ R -> all_internal tr -> run s tr = Some s' -> s' ∈ R /\ (length tr + measure s' <= measure s)%nat.
Proof.
  intros Hc tr. induction tr as [|e tr IH]; intros s s' Hin Hall Hrun; simpl in Hrun.
  - inversion Hrun; subst. split; [exact Hin|simpl; lia].
  - destruct (step s e) as [s1|] eqn:Hs; [|discriminate].
    apply Forall_cons in Hall as [Hi Hall].
    destruct (check_step _ _ _ _ _ Hc Hin Hi Hs) as [Hin1 Hlt].
    destruct (IH _ _ Hin1 Hall Hrun) as [Hin' Hle]. split; [exact Hin'|simpl; lia].
Qed.

(* every run can be completed to a stable state (inside a checked set) *)
Lemma check_completes good R : checkb good R = true -> forall s, s ∈ R ->
  exists tr s', all_internal tr /\ run s tr = Some s' /\ stable s' /\ good s' = true.
Proof.
  intros Hc s. remember (measure s) as m eqn:Hm. revert s Hm.
  induction m as [m IH] using lt_wf_ind. intros s -> Hin.
  destruct (decide (stable s)) as [Hst|Hn].
  - exists [], s. split; [constructor|]. split; [reflexivity|]. split; [exact Hst|]. eapply check_stable; eauto.
  - destruct (not_stable _ Hn) as (e & s1 & Hi & Hs).
    destruct (check_step _ _ _ _ _ Hc Hin Hi Hs) as [Hin1 Hlt].
    destruct (IH _ Hlt s1 eq_refl Hin1) as (tr & s' & Hall & Hrun & Hst & Hg).
    exists (e :: tr), s'. split; [constructor; assumption|]. split; [simpl; rewrite Hs; exact Hrun|]. auto.
Qed.

Lemma run_app s tr1 tr2 : run s (tr1 ++ tr2) = match run s tr1 with Some s1 => run s1 tr2 | None => None end.
Proof. revert s. induction tr1 as [|e tr1 IH]; intros s; simpl; [reflexivity|]. destruct (step s e); [apply IH|reflexivity]. Qed.

Lemma handed_overb_true s h c : handed_overb s h c = true -> handed_over s h c.
Proof.
  unfold handed_overb, handed_over, no_traffic. destruct (ps s !! h) as [x|]; [|discriminate].
  destruct (ps s !! c) as [y|]; [|discriminate].
  rewrite !andb_true_iff, !bool_decide_eq_true. intros [[[[[H1 H2] H3] H4] H5] H6]. eauto 10.
Qed.

Lemma chain_brokenb_true s h k : chain_brokenb s h k = true -> chain_broken s h k.
Proof.
  unfold chain_brokenb, chain_broken, no_traffic. destruct (ps s !! k) as [x|]; [|discriminate].
  destruct (ps s !! h) as [y|]; [|discriminate].
  rewrite !andb_true_iff, !bool_decide_eq_true. intros [[[[H1 H2] H3] H4] H5]. split; [|auto]. exists x, y. tauto.
Qed.

Lemma s8_outcomeb_true s : s8_outcomeb s = true -> s8_outcome s.
Proof.
  unfold s8_outcomeb, s8_outcome. repeat case_match; try discriminate.
  rewrite bool_decide_eq_true. intros Hb. eexists _, _, _. tauto.
Qed.

(* ================================================================================================
   Part 2: C07 with ONE client -- every interleaving, with a termination measure
   ================================================================================================ *)

(* the initial state of the theorem, said without [session]: *)
Example session_1_roles : handed_over (session 1) 0 1.
Proof. apply handed_overb_true. vm_compute. reflexivity. Qed.
Example promoted_1_1 : step (session 1) (EPromote 0 1) = Some (promoted 1 1) /\ promoted 1 1 = push_down (session 1) 0 1 Promote.
Proof. split; vm_compute; reflexivity. Qed.

(* all states reachable after the request, computed *)
Definition R1 : list pstate := default [] (explore 1000 [promoted 1 1] []).
Lemma R1_checked : checkb (fun s => handed_overb s 1 0) R1 = true.
Proof. vm_compute. reflexivity. Qed.
Lemma R1_start : promoted 1 1 ∈ R1.
Proof. apply inb_true. vm_compute. reflexivity. Qed.

Theorem C07_single_client_promotion :
  forall tr s, all_internal tr -> run (promoted 1 1) tr = Some s ->
    (* termination: [measure] drops by at least 1 with every event, whatever the interleaving *)
    (length tr + measure s <= measure (promoted 1 1%N))%nat
    (* a run that cannot be continued has handed the session over *)
    /\ (stable s -> handed_over s 1 0)
    (* any other run can be continued, and every continuation decreases the measure *)
    /\ (~ stable s -> exists e s', internal e = true /\ step s e = Some s' /\ (measure s' < measure s)%nat)
    /\ (exists tr' s', all_internal tr' /\ run s tr' = Some s' /\ stable s' /\ handed_over s' 1 0).
Proof.
  intros tr s Hall Hrun.
  destruct (check_run _ _ R1_checked _ _ _ R1_start Hall Hrun) as [Hin Hle].
  split; [exact Hle|]. split; [|split].
  - intros Hst. apply handed_overb_true. exact (check_stable _ _ _ R1_checked Hin Hst).
  - intros Hn. destruct (not_stable _ Hn) as (e & s' & Hi & Hs). exists e, s'.
    split; [exact Hi|]. split; [exact Hs|]. exact (proj2 (check_step _ _ _ _ _ R1_checked Hin Hi Hs)).
  - destruct (check_completes _ _ R1_checked _ Hin) as (tr' & s' & H1 & H2 & H3 & H4).
    exists tr', s'. split; [exact H1|]. split; [exact H2|]. split; [exact H3|]. apply handed_overb_true. exact H4.
Qed.
Print Assumptions C07_single_client_promotion.

Example measure_promoted_1_1 : measure (promoted 1 1) = 27%nat.
Proof. vm_compute. reflexivity. Qed.

(* no run after the request has more than 27 events *)
Corollary C07_single_client_bound tr s : all_internal tr -> run (promoted 1 1) tr = Some s -> (length tr <= 27)%nat.
Proof. intros Ha Hr. destruct (C07_single_client_promotion _ _ Ha Hr) as [H _]. rewrite measure_promoted_1_1 in H. lia. Qed.

(* ================================================================================================
   Part 3: one step, seen from one peer (all N, all events)
   ================================================================================================ *)

Lemma ps_setp s p x : ps (setp s p x) = <[p := x]> (ps s).
Proof. reflexivity. Qed.
Lemma ps_push_up s a b m : ps (push_up s a b m) = ps s.
Proof. reflexivity. Qed.
Lemma ps_push_down s a b m : ps (push_down s a b m) = ps s.
Proof. reflexivity. Qed.
Lemma ps_drop_link s a b : ps (drop_link s a b) = ps s.
Proof. reflexivity. Qed.
Lemma ps_drop_link_of s a t : ps (drop_link_of s a t) = ps s.
Proof. destruct t; reflexivity. Qed.
Lemma ps_relay s h l m : ps (relay s h l m) = ps s.
Proof. induction l as [|d l IH]; simpl; [reflexivity|]. exact IH. Qed.
Lemma ps_mk a b c : ps (PState a b c) = a.
Proof. reflexivity. Qed.

Ltac pssimpl :=
  repeat first [ rewrite ps_relay | rewrite ps_drop_link_of | rewrite ps_drop_link | rewrite ps_push_up
               | rewrite ps_push_down | rewrite ps_setp | rewrite ps_mk ].

(* case analysis of one step: one goal per branch of [step] that returns Some *)
Ltac step_inv Hs :=
  unfold step in Hs;
  repeat (match type of Hs with context [match ?t with _ => _ end] => destruct t eqn:? end; try discriminate);
  injection Hs as <-.

Ltac ins_cases :=
  repeat match goal with
         | |- context [<[?a := _]> _ !! ?p] =>
             destruct (decide (a = p)) as [->|?];
             [rewrite lookup_insert | rewrite lookup_insert_ne by assumption]
         end.

Definition pget {A} (f : ppeer -> A) (d : A) (s : pstate) (p : peer) : A :=
  match ps s !! p with Some x => f x | None => d end.

(* the RenetClient object is never reconstructed: no event resets [sticky] *)
Lemma sticky_step s e s' p : step s e = Some s' -> pget sticky false s p = true -> pget sticky false s' p = true.
Proof.
  intros Hs Hp. unfold pget in *. destruct e; step_inv Hs; pssimpl; ins_cases;
    repeat match goal with H : ps s !! ?q = Some _, H' : context [ps s !! ?q] |- _ => rewrite H in H' end;
    simpl; try assumption; try reflexivity.
Qed.

Ltac bool_hyps :=
  repeat match goal with
         | H : _ && _ = true |- _ => apply andb_true_iff in H as [? ?]
         | H : negb _ = true |- _ => apply negb_true_iff in H
         | H : negb _ = false |- _ => apply negb_false_iff in H
         | H : bool_decide _ = true |- _ => apply bool_decide_eq_true in H
         | H : bool_decide _ = false |- _ => apply bool_decide_eq_false in H
         end.

Ltac same_lookup :=
  repeat match goal with
         | H : ps ?s !! ?q = Some _, H' : ps ?s !! ?q = Some _ |- _ => rewrite H in H'; injection H' as <-
         | H : ps ?s !! ?q = Some _, H' : ps ?s !! ?q = None |- _ => rewrite H in H'; discriminate
         end.

Definition strandedP (s : pstate) (p : peer) : Prop := pget stranded False s p.

(* S8, the stuck lemma: once stranded, for ever stranded -- whatever happens afterwards, new
   promotions by the application included, in a session of any size *)
Lemma stranded_step s e s' p : step s e = Some s' -> strandedP s p -> strandedP s' p.
Proof.
  intros Hs Hp. unfold strandedP, pget in *. destruct (ps s !! p) as [xp|] eqn:Hxp; [|contradiction].
  destruct Hp as (S1 & S2 & S3 & S4 & S5 & S6).
  destruct e; step_inv Hs; pssimpl; ins_cases; same_lookup; rewrite ?Hxp; bool_hyps;
    unfold stranded, srv_gate, cli_gate in *; simpl; bool_hyps;
    try (split_and?; (assumption || reflexivity || eauto));
    try congruence.
  rewrite S4 in Heqb0. discriminate.
Qed.

Lemma stranded_run tr : forall s s' p, run s tr = Some s' -> strandedP s p -> strandedP s' p.
Proof.
  induction tr as [|e tr IH]; intros s s' p Hrun Hp; simpl in Hrun.
  - inversion Hrun; subst. exact Hp.
  - destruct (step s e) as [s1|] eqn:Hs; [|discriminate]. eapply IH; [exact Hrun|]. eapply stranded_step; eauto.
Qed.

Lemma sticky_run tr : forall s s' p, run s tr = Some s' -> pget sticky false s p = true -> pget sticky false s' p = true.
Proof.
  induction tr as [|e tr IH]; intros s s' p Hrun Hp; simpl in Hrun.
  - inversion Hrun; subst. exact Hp.
  - destruct (step s e) as [s1|] eqn:Hs; [|discriminate]. eapply IH; [exact Hrun|]. eapply sticky_step; eauto.
Qed.

(* in particular a stranded client is never linked again and never leaves ClientState::Connected *)
Corollary stranded_never_connects tr s s' p :
  run s tr = Some s' -> strandedP s p ->
  exists x, ps s' !! p = Some x /\ link_up x = false /\ cli_state x = CConnected /\ sticky x = true.
Proof.
  intros Hrun Hp. pose proof (stranded_run _ _ _ _ Hrun Hp) as H. unfold strandedP, pget in H.
  destruct (ps s' !! p) as [x|]; [|contradiction]. exists x. unfold stranded in H. tauto.
Qed.
Print Assumptions stranded_never_connects.

(* ================================================================================================
   Part 4: S8 -- promotion with TWO clients
   ================================================================================================ *)

Example session_2_roles :
  roles (session 2) = [(0, (true, SConnected, [1; 2], None, CDisconnected, false, false, false));
                       (1, (false, SDisconnected, [], Some 0, CConnected, true, false, false));
                       (2, (false, SDisconnected, [], Some 0, CConnected, true, false, false))].
Proof. vm_compute. reflexivity. Qed.

(* the witness run of Promotion.v (without its first event, the request itself) *)
Definition s8_run : list pevent := tail ex_two_clients.
Definition s8_state : pstate := default (session 2) (run (promoted 2 1) s8_run).

Example s8_run_runs : all_internal s8_run /\ run (promoted 2 1) s8_run = Some s8_state.
Proof. split; [unfold all_internal; repeat constructor|vm_compute; reflexivity]. Qed.
Example s8_state_roles :
  roles s8_state = [(0, (true, SConnected, [], Some 1, CConnected, true, false, false));
                    (1, (true, SConnected, [0], None, CDisconnected, false, true, false));
                    (2, (false, SDisconnected, [], Some 1, CConnected, false, true, true))]
  /\ enabled s8_state = [] /\ no_traffic s8_state.
Proof.
  split; [vm_compute; reflexivity|]. split; [vm_compute; reflexivity|].
  split; apply (bool_decide_unpack _); vm_compute; exact I.
Qed.

Theorem C07_refuted_two_clients :
  exists tr s,
    all_internal tr /\ run (promoted 2 1) tr = Some s /\
    stable s /\                                  (* nothing will happen any more *)
    hosts s = [0; 1] /\                          (* two peers host *)
    s8_outcome s /\ strandedP s 2 /\             (* 2: ClientState Connected, RenetClient dead *)
    (forall tr' s', run s tr' = Some s' ->       (* and no continuation whatsoever repairs it *)
       exists x, ps s' !! 2 = Some x /\ link_up x = false /\ cli_state x = CConnected /\ sticky x = true).
Proof.
  exists s8_run, s8_state. destruct s8_run_runs as [Ha Hr].
  assert (Hst : strandedP s8_state 2).
  { unfold strandedP, pget. vm_compute. repeat split; eauto. }
  split; [exact Ha|]. split; [exact Hr|]. split; [apply stableb_true; vm_compute; reflexivity|].
  split; [vm_compute; reflexivity|]. split; [apply s8_outcomeb_true; vm_compute; reflexivity|].
  split; [exact Hst|]. intros tr' s' Hrun. eapply stranded_never_connects; eauto.
Qed.
Print Assumptions C07_refuted_two_clients.

Corollary C07_statement_two_clients_false : ~ C07_statement 2 1.
Proof.
  intros H. destruct C07_refuted_two_clients as (tr & s & Ha & Hr & Hst & Hh & _).
  destruct (H tr s Ha Hr Hst) as [Hh' _]. rewrite Hh in Hh'. discriminate.
Qed.

(* stronger: with two clients NO interleaving succeeds.  Every run terminates, and every run that
   cannot be continued ends with 0 moved over to 1 and 2 stranded *)
Definition R2 : list pstate := default [] (explore (100 * 100) [promoted 2 1] []).
Lemma R2_checked : checkb s8_outcomeb R2 = true.
Proof. vm_compute. reflexivity. Qed.
Lemma R2_start : promoted 2 1 ∈ R2.
Proof. apply inb_true. vm_compute. reflexivity. Qed.

Theorem C07_two_clients_every_run :
  forall tr s, all_internal tr -> run (promoted 2 1) tr = Some s ->
    (length tr + measure s <= measure (promoted 2 1%N))%nat
    /\ (stable s -> s8_outcome s /\ strandedP s 2 /\ ~ session_ok s 1)
    /\ (exists tr' s', all_internal tr' /\ run s tr' = Some s' /\ stable s' /\ s8_outcome s').
Proof.
  intros tr s Hall Hrun.
  destruct (check_run _ _ R2_checked _ _ _ R2_start Hall Hrun) as [Hin Hle].
  split; [exact Hle|]. split.
  - intros Hst. pose proof (s8_outcomeb_true _ (check_stable _ _ _ R2_checked Hin Hst)) as Ho.
    split; [exact Ho|]. destruct Ho as (x0 & x1 & x2 & H0 & H1 & H2 & Hs2 & Hrest).
    split; [unfold strandedP, pget; rewrite H2; exact Hs2|].
    intros [_ Hok]. destruct (Hok 2 x2 H2 ltac:(discriminate)) as (_ & Hl & _).
    destruct Hs2 as (_ & _ & Hl' & _). congruence.
  - destruct (check_completes _ _ R2_checked _ Hin) as (tr' & s' & H1 & H2 & H3 & H4).
    exists tr', s'. split; [exact H1|]. split; [exact H2|]. split; [exact H3|]. apply s8_outcomeb_true. exact H4.
Qed.
Print Assumptions C07_two_clients_every_run.

(* both endings occur: the old host closes its server (its last ClientDisconnected arrived while
   the flag was still set) or keeps it for ever (verify_client_connected consumed the flag first) *)
Example s8_other_ending :
  (fun s => (hosts s, stableb s, s8_outcomeb s)) <$>
  run (promoted 2 1) [EDeliverDown 0 1; ESrvUp 1; EDeliverUp 1 0; ENotify 0; EDeliverDown 0 2; ETimeout 0 2; ENotify 0;
                      ESrvDown 0; ECliConnecting 0; ECliConnecting 2; EConnect 0; ENotify 1; ECliDown 1; EVerify 0;
                      EDeliverUp 0 1]
  = Some ([1], true, true).
Proof. vm_compute. reflexivity. Qed.

(* ================================================================================================
   Part 5: invariants for sessions of ANY size
   ================================================================================================ *)

Ltac pssimpl_in H :=
  repeat first [ rewrite ps_relay in H | rewrite ps_drop_link_of in H | rewrite ps_drop_link in H | rewrite ps_push_up in H
               | rewrite ps_push_down in H | rewrite ps_setp in H | rewrite ps_mk in H ].

Lemma NoDup_without c l : NoDup l -> NoDup (without c l).
Proof. intros H. unfold without. apply NoDup_filter. exact H. Qed.
Lemma elem_of_without c l d : d ∈ without c l <-> d <> c /\ d ∈ l.
Proof. unfold without. rewrite elem_of_list_filter. reflexivity. Qed.
Lemma NoDup_snoc_fresh (c : peer) l : NoDup l -> c ∉ l -> NoDup (l ++ [c]).
Proof. intros H1 H2. apply NoDup_app. split; [exact H1|]. split; [|apply NoDup_singleton]. intros x Hx Hx'. apply elem_of_list_singleton in Hx'. subst. contradiction. Qed.

Ltac old_wf Hwf :=
  match goal with
  | |- wf_peer ?t =>
      match goal with
      | H : ps _ !! _ = Some ?y |- _ =>
          match t with context [y] => destruct (Hwf _ _ H) as (W1 & W2 & W3 & W4 & W5 & W6) end
      end
  end.

Lemma wf_step s e s' : roles_inv s -> step s e = Some s' -> forall p x, ps s' !! p = Some x -> wf_peer x.
Proof.
  intros (Hwf & Hcl & Hlk) Hs p x Hx.
  destruct e; step_inv Hs; pssimpl_in Hx;
    repeat (apply lookup_insert_Some in Hx as [[<- <-]|[? Hx]]);
    try (eapply Hwf; eassumption);
    old_wf Hwf; unfold wf_peer, srv_gate, cli_gate in *; simpl; bool_hyps;
    split_and?; intros; simpl in *;
    try (first [ tauto | congruence | eauto using NoDup_without, NoDup_snoc_fresh; fail ]).
  all: try (split_and?; first [ tauto | congruence | eauto using NoDup_without, NoDup_snoc_fresh; fail ]).
  all: try (destruct (hosting _) eqn:?; intuition congruence).
  - destruct (client_of p1) eqn:?; [left; eauto|destruct (W2 eq_refl); congruence].
  - destruct (clients p0); [auto|discriminate].
Qed.

Lemma insert_dom (m : gmap peer ppeer) i x j : is_Some (m !! i) -> (is_Some (<[i:=x]> m !! j) <-> is_Some (m !! j)).
Proof.
  intros Hi. rewrite lookup_insert_is_Some. split.
  - intros [->|[_ H]]; assumption.
  - intros H. destruct (decide (i = j)); [left; assumption|right; split; assumption].
Qed.

Lemma step_dom s e s' : step s e = Some s' -> forall p, is_Some (ps s' !! p) <-> is_Some (ps s !! p).
Proof.
  intros Hs p. destruct e; step_inv Hs; pssimpl; rewrite ?insert_dom; try reflexivity;
    rewrite ?insert_dom; eauto.
Qed.

Lemma clients_step s e s' : roles_inv s -> step s e = Some s' ->
  forall h x c, ps s' !! h = Some x -> c ∈ clients x -> c <> h /\ is_Some (ps s' !! c).
Proof.
  intros (Hwf & Hcl & Hlk) Hs h x c Hx Hc. rewrite (step_dom _ _ _ Hs).
  destruct e; step_inv Hs; pssimpl_in Hx;
    repeat (apply lookup_insert_Some in Hx as [[<- <-]|[? Hx]]);
    try (eapply Hcl; eassumption);
    simpl in Hc; rewrite ?elem_of_without in Hc;
    try (eapply Hcl; [eassumption|tauto]).
  bool_hyps. apply elem_of_app in Hc as [Hc|Hc]; [eapply Hcl; eassumption|].
  apply elem_of_list_singleton in Hc. subst. split; [assumption|eauto].
Qed.

Lemma links_step s e s' : roles_inv s -> step s e = Some s' ->
  forall c y h, ps s' !! c = Some y -> link_up y = true -> client_of y = Some h -> c <> h /\ is_Some (ps s' !! h).
Proof.
  intros (Hwf & Hcl & Hlk) Hs c y h Hy Hl Hc. rewrite (step_dom _ _ _ Hs).
  destruct e; step_inv Hs; pssimpl_in Hy;
    repeat (apply lookup_insert_Some in Hy as [[<- <-]|[? Hy]]);
    try (eapply Hlk; eassumption);
    simpl in Hl, Hc; try discriminate;
    try (eapply Hlk; eassumption).
  bool_hyps. rewrite Heqo0 in Hc. injection Hc as <-. split; [assumption|eauto].
Qed.

Lemma roles_inv_step s e s' : roles_inv s -> step s e = Some s' -> roles_inv s'.
Proof.
  intros Hinv Hs. split; [|split].
  - eapply wf_step; eauto.
  - eapply clients_step; eauto.
  - eapply links_step; eauto.
Qed.

Lemma roles_inv_run tr : forall s s', roles_inv s -> run s tr = Some s' -> roles_inv s'.
Proof.
  induction tr as [|e tr IH]; intros s s' Hinv Hrun; simpl in Hrun.
  - inversion Hrun; subst. exact Hinv.
  - destruct (step s e) as [s1|] eqn:Hs; [|discriminate]. eapply IH; [|exact Hrun]. eapply roles_inv_step; eauto.
Qed.

(* ---------- the initial sessions ---------- *)

Lemma elem_of_client_ids n c : c ∈ client_ids n <-> (1 <= c <= N.of_nat n)%N.
Proof.
  unfold client_ids. rewrite elem_of_list_fmap. split.
  - intros (i & -> & Hi). apply elem_of_seq in Hi. lia.
  - intros Hc. exists (N.to_nat c). split; [lia|]. apply elem_of_seq. lia.
Qed.
Lemma NoDup_client_ids n : NoDup (client_ids n).
Proof. unfold client_ids. apply NoDup_fmap_2; [intros a b Hab; lia|apply NoDup_seq]. Qed.

Lemma const_map_lookup (cs : list peer) (v : ppeer) p :
  (list_to_map ((fun c => (c, v)) <$> cs) : gmap peer ppeer) !! p = if decide (p ∈ cs) then Some v else None.
Proof.
  induction cs as [|c cs IH]; [simpl|rewrite fmap_cons, list_to_map_cons].
  - rewrite lookup_empty. destruct (decide (p ∈ [])) as [H|_]; [inversion H|reflexivity].
  - destruct (decide (c = p)) as [->|Hne].
    + rewrite lookup_insert. destruct (decide (p ∈ p :: cs)) as [_|Hn]; [reflexivity|]. exfalso. apply Hn. left.
    + rewrite lookup_insert_ne by exact Hne. rewrite IH.
      destruct (decide (p ∈ cs)) as [Hin|Hn]; destruct (decide (p ∈ c :: cs)) as [Hin'|Hn']; try reflexivity.
      * exfalso. apply Hn'. right. exact Hin.
      * exfalso. apply elem_of_cons in Hin' as [->|Hin']; [apply Hne; reflexivity|apply Hn; exact Hin'].
Qed.

Lemma session_lookup n p :
  ps (session n) !! p = if decide (p = host) then Some (idle_host (client_ids n))
                        else if decide (p ∈ client_ids n) then Some (idle_client host) else None.
Proof.
  unfold session. rewrite ps_mk. simpl. destruct (decide (p = host)) as [->|Hne].
  - rewrite lookup_insert. reflexivity.
  - rewrite lookup_insert_ne by (intros H; apply Hne; symmetry; exact H). apply const_map_lookup.
Qed.

Lemma roles_inv_session n : roles_inv (session n).
Proof.
  split; [|split].
  - intros p x Hx. rewrite session_lookup in Hx. repeat case_decide; simplify_eq.
    + unfold wf_peer, idle_host; simpl. split_and?; try (intros; (discriminate || auto)). apply NoDup_client_ids.
    + unfold wf_peer, idle_client; simpl. split_and?; try (intros; (discriminate || eauto)). apply NoDup_nil_2.
  - intros h x c Hx Hc. rewrite session_lookup in Hx. rewrite session_lookup.
    destruct (decide (h = host)) as [->|Hh].
    + injection Hx as <-. simpl in Hc. apply elem_of_client_ids in Hc as Hc'. unfold host in *.
      split; [lia|]. rewrite decide_False by lia. rewrite decide_True by exact Hc. eauto.
    + destruct (decide (h ∈ client_ids n)); [|discriminate]. injection Hx as <-. inversion Hc.
  - intros c y h Hy Hl Hc. rewrite session_lookup in Hy. rewrite session_lookup.
    destruct (decide (c = host)) as [->|Hh].
    + injection Hy as <-. discriminate.
    + destruct (decide (c ∈ client_ids n)); [|discriminate]. injection Hy as <-. simpl in Hc. injection Hc as <-.
      split; [exact Hh|]. rewrite decide_True by reflexivity. eauto.
Qed.

Ltac ins_cases_in H :=
  repeat match type of H with
         | context [<[?a := _]> _ !! ?p] =>
             destruct (decide (a = p)) as [->|?];
             [rewrite lookup_insert in H | rewrite lookup_insert_ne in H by assumption]
         end.
Ltac use_lookups :=
  repeat match goal with
         | H : ps ?s !! ?q = Some _, H' : context [ps ?s !! ?q] |- _ =>
             lazymatch type of H' with ps s !! q = Some _ => fail | _ => rewrite H in H' end
         end.

(* the flag and the server transport change only at well-defined events *)
Lemma hosting_rises_only_by_promote s e s' p :
  step s e = Some s' -> pget hosting true s p = false -> pget hosting false s' p = true ->
  exists h, e = EDeliverDown h p /\ head (chan (down s) h p) = Some Promote.
Proof.
  intros Hs H1 H2. unfold pget in *.
  destruct e; step_inv Hs; pssimpl_in H2; ins_cases_in H2; use_lookups; simpl in *; try congruence;
    try (destruct (ps s !! p) eqn:?; congruence).
  all: try (eexists; split; [reflexivity|]; match goal with H : chan _ _ _ = _ |- _ => rewrite H end; reflexivity).
Qed.

Lemma hosting_falls_only_when s e s' p :
  step s e = Some s' -> pget hosting false s p = true -> pget hosting true s' p = false ->
  e = ENotify p /\
  exists x c q, ps s !! p = Some x /\ srv_gate x = true /\ flag x = true /\ clients x = [] /\ srv_events x = (false, c) :: q.
Proof.
  intros Hs H1 H2. unfold pget in *.
  destruct e; step_inv Hs; pssimpl_in H2; ins_cases_in H2; use_lookups; simpl in *; try congruence;
    try (destruct (ps s !! p) eqn:?; congruence).
  bool_hyps. split; [reflexivity|]. eexists _, _, _. split; [eassumption|]. split_and?; try eassumption.
  destruct (clients _); [reflexivity|discriminate].
Qed.

Lemma flag_rises_only_by_message s e s' p :
  step s e = Some s' -> pget flag true s p = false -> pget flag false s' p = true ->
  (exists h, e = EDeliverDown h p /\
             (head (chan (down s) h p) = Some Promote \/ exists q, head (chan (down s) h p) = Some (NewHost q)))
  \/ (exists c q, e = EDeliverUp c p /\ head (chan (up s) c p) = Some (NewHost q)).
Proof.
  intros Hs H1 H2. unfold pget in *.
  destruct e; step_inv Hs; pssimpl_in H2; ins_cases_in H2; use_lookups; simpl in *; try congruence;
    try (destruct (ps s !! p) eqn:?; congruence).
  all: match goal with H : chan _ _ _ = _ |- _ =>
         first [ left; eexists; split; [reflexivity|]; left; rewrite H; reflexivity
               | left; eexists; split; [reflexivity|]; right; rewrite H; eexists; reflexivity
               | right; eexists _, _; split; [reflexivity|]; rewrite H; reflexivity ] end.
Qed.

Lemma flag_falls_only_when s e s' p :
  step s e = Some s' -> pget flag false s p = true -> pget flag true s' p = false ->
  e = ENotify p \/ e = EVerify p.
Proof.
  intros Hs H1 H2. unfold pget in *.
  destruct e; step_inv Hs; pssimpl_in H2; ins_cases_in H2; use_lookups; simpl in *; try congruence;
    try (destruct (ps s !! p) eqn:?; congruence); auto.
Qed.

(* a promoted peer that hosts keeps hosting -- until it is itself told to hand over (a NewHost from
   one of its clients) or promoted again *)
Lemma promote_opens_window s h p s' :
  roles_inv s -> step s (EDeliverDown h p) = Some s' -> head (chan (down s) h p) = Some Promote ->
  pget hosting true s p = false ->
  exists x', ps s' !! p = Some x' /\ hosting x' = true /\ flag x' = true /\ window x'.
Proof.
  intros (Hwf & _ & _) Hs Hh Hp. unfold pget in Hp.
  step_inv Hs; simpl in Hh; try discriminate; try congruence.
  pssimpl. rewrite lookup_insert. eexists. split; [reflexivity|]. simpl.
  split; [reflexivity|]. split; [reflexivity|]. intros _. simpl. left.
  match goal with H : ps s !! p = Some ?y, H' : hosting ?y = false |- _ => destruct (Hwf _ _ H) as (W1 & _); destruct (W1 H') as (? & ? & _) end.
  auto.
Qed.

Lemma window_step s e s' p x :
  ps s !! p = Some x -> hosting x = true -> window x -> step s e = Some s' ->
  (forall c q, e = EDeliverUp c p -> head (chan (up s) c p) <> Some (NewHost q)) ->
  (forall h, e = EDeliverDown h p -> head (chan (down s) h p) = Some ReqInit) ->
  exists x', ps s' !! p = Some x' /\ hosting x' = true /\ window x'.
Proof.
  intros Hx Hh Hw Hs Hno1 Hno2.
  destruct e; step_inv Hs; pssimpl; ins_cases; same_lookup; rewrite ?Hx;
    try (eexists; split; [reflexivity|]; split; [assumption|assumption]).
  all: try (exfalso; specialize (Hno2 _ eq_refl);
            match goal with H : chan _ _ _ = _ |- _ => rewrite H in Hno2 end; discriminate).
  all: try (exfalso; eapply Hno1; [reflexivity|];
            match goal with H : chan _ _ _ = _ |- _ => rewrite H end; reflexivity).
  all: eexists; split; [reflexivity|]; unfold window in *; simpl; bool_hyps.
  all: try (split; [assumption|intros; discriminate]).
  - (* ENotify, ClientConnected, flag not set *)
    split; [assumption|]. intros Hf. congruence.
  - (* ENotify, the server is closed: impossible inside the window *)
    exfalso. destruct (Hw ltac:(assumption)) as [[Hq _]|(c' & q' & Hq)]; congruence.
  - (* ENotify, ClientDisconnected ignored *)
    split; [assumption|]. intros Hf. exfalso.
    destruct (Hw Hf) as [[Hq _]|(c' & q' & Hq)]; congruence.
  - (* EConnect to p *)
    split; [assumption|]. intros Hf. right.
    destruct (Hw Hf) as [[Hq _]|(c' & q' & Hq)]; rewrite Hq; simpl; eauto.
  - (* ETimeout at p *)
    split; [assumption|]. intros Hf. right.
    destruct (Hw Hf) as [[Hq Hc]|(c' & q' & Hq)].
    + exfalso. match goal with H : _ ∈ clients x |- _ => rewrite Hc in H; inversion H end.
    + rewrite Hq. simpl. eauto.
Qed.

(* ================================================================================================
   Part 6: a chain of promotions (two peers): promote 1, then promote 0 back
   ================================================================================================ *)

(* The first hand-over has exactly two outcomes.  They differ in ONE bit: whether the kick
   (server.disconnect(1) on the old host) reached peer 1's RenetClient while peer 1 still had its
   old client transport (ELinkDown 1 before ENotify 1) -- on a real network it does. *)
Definition finals1 : list pstate := filter (fun s => stableb s = true) R1.
Example finals1_roles :
  roles <$> finals1 = [ [(0, (false, SDisconnected, [], Some 1, CConnected, true, false, false));
                         (1, (true, SConnected, [0], None, CDisconnected, false, true, false))];
                        [(0, (false, SDisconnected, [], Some 1, CConnected, true, false, false));
                         (1, (true, SConnected, [0], None, CDisconnected, false, false, false))] ].
Proof. vm_compute. reflexivity. Qed.

Definition new_host_alive (F : pstate) : bool := negb (pget sticky true F 1).

Definition chain_good (F s : pstate) : bool := if new_host_alive F then handed_overb s 0 1 else chain_brokenb s 1 0.
Lemma chain_checked :
  forallb (fun F => let s0 := promote_in F 1 0 in
                    let R := default [] (explore 1000 [s0] []) in
                    inb s0 R && checkb (chain_good F) R) finals1 = true.
Proof. vm_compute. reflexivity. Qed.

Lemma promote_back_enabled : forallb (fun F => bool_decide (step F (EPromote 1 0) = Some (promote_in F 1 0))) finals1 = true.
Proof. vm_compute. reflexivity. Qed.

(* C07_chain_of_promotions: the roles can be swapped back if and only if the RenetClient of the
   first promoted peer survived the first hand-over.  If it did not (the normal case), the second
   promotion ends -- in every interleaving -- with peer 0 hosting nobody, its flag stuck, and peer 1
   in ClientState::Connecting for ever. *)
Theorem C07_chain_of_promotions :
  forall tr F, all_internal tr -> run (promoted 1 1) tr = Some F -> stable F ->
    step F (EPromote 1 0) = Some (promote_in F 1 0) /\
    forall tr' s, all_internal tr' -> run (promote_in F 1 0) tr' = Some s ->
      (length tr' + measure s <= measure (promote_in F 1%N 0%N))%nat /\
      (stable s -> if new_host_alive F then handed_over s 0 1 else chain_broken s 1 0) /\
      (exists tr'' s', all_internal tr'' /\ run s tr'' = Some s' /\ stable s').
Proof.
  intros tr F Hall Hrun Hst.
  destruct (check_run _ _ R1_checked _ _ _ R1_start Hall Hrun) as [Hin _].
  assert (HF : F ∈ finals1).
  { unfold finals1. apply elem_of_list_filter. split; [apply stableb_true; exact Hst|exact Hin]. }
  pose proof chain_checked as Hc. rewrite forallb_forall in Hc.
  specialize (Hc F (proj1 (elem_of_list_In _ _) HF)). cbv zeta in Hc.
  apply andb_true_iff in Hc as [Hs0 Hc]. apply inb_true in Hs0.
  pose proof promote_back_enabled as Hp. rewrite forallb_forall in Hp.
  specialize (Hp F (proj1 (elem_of_list_In _ _) HF)). apply bool_decide_eq_true in Hp.
  split; [exact Hp|]. intros tr' s Hall' Hrun'.
  destruct (check_run _ _ Hc _ _ _ Hs0 Hall' Hrun') as [Hin' Hle].
  split; [exact Hle|]. split.
  - intros Hst'. pose proof (check_stable _ _ _ Hc Hin' Hst') as Hg. unfold chain_good in Hg.
    destruct (new_host_alive F); [apply handed_overb_true|apply chain_brokenb_true]; exact Hg.
  - destruct (check_completes _ _ Hc _ Hin') as (tr'' & s' & H1 & H2 & H3 & _). eauto.
Qed.
Print Assumptions C07_chain_of_promotions.

(* both cases occur *)
Example chain_alive_reachable :
  exists tr F, all_internal tr /\ run (promoted 1 1) tr = Some F /\ stable F /\ new_host_alive F = true.
Proof.
  exists (tail ex_one_client), (default (session 1) (run (promoted 1 1) (tail ex_one_client))).
  split; [unfold all_internal; repeat constructor|]. split; [vm_compute; reflexivity|].
  split; [apply stableb_true; vm_compute; reflexivity|vm_compute; reflexivity].
Qed.
Example chain_dead_reachable :
  exists tr F, all_internal tr /\ run (promoted 1 1) tr = Some F /\ stable F /\ new_host_alive F = false.
Proof.
  exists (tail ex_one_client_kicked), (default (session 1) (run (promoted 1 1) (tail ex_one_client_kicked))).
  split; [unfold all_internal; repeat constructor|]. split; [vm_compute; reflexivity|].
  split; [apply stableb_true; vm_compute; reflexivity|vm_compute; reflexivity].
Qed.

(* the failing second promotion, event by event *)
Definition ex_chain_broken : list pevent :=
  tail ex_one_client_kicked ++
  [EPromote 1 0; EDeliverDown 1 0; ESrvUp 0; EDeliverUp 0 1; ENotify 1; ESrvDown 1; ECliConnecting 1; ELinkDown 0].
Example ex_chain_broken_runs :
  (fun s => (roles s, stableb s, chain_brokenb s 1 0)) <$> run (promoted 1 1) ex_chain_broken
  = Some ([(0, (true, SConnected, [], Some 1, CConnected, false, true, true));
           (1, (false, SDisconnected, [], Some 0, CConnecting, false, true, false))], true, true).
Proof. vm_compute. reflexivity. Qed.
(* and the succeeding one (possible only if the kick notice lost the race in the first hand-over) *)
Definition ex_chain_ok : list pevent :=
  tail ex_one_client ++
  [EPromote 1 0; EDeliverDown 1 0; ESrvUp 0; EDeliverUp 0 1; ENotify 1; ESrvDown 1; ECliConnecting 1;
   EConnect 1; ENotify 0; ECliDown 0; EVerify 1; EDeliverUp 1 0].
Example ex_chain_ok_runs :
  (fun s => (roles s, stableb s, bool_decide (s = session 1))) <$> run (promoted 1 1) ex_chain_ok
  = Some ([(0, (true, SConnected, [1], None, CDisconnected, false, false, false));
           (1, (false, SDisconnected, [], Some 0, CConnected, true, false, false))], true, true).
Proof. vm_compute. reflexivity. Qed.
