(* Proofs about the event-level model of host promotion (Promotion.v): C07, the defect S8, and what
   breaks a second promotion.

   Part 0-1  the enumeration of internal events is complete; [stable] is decidable; soundness of the
             exhaustive check [checkb] (closed set + decreasing measure + good stable states).
   Part 2    C07_single_client_promotion, C07_single_client (= C07_statement 1 1): one client, every
             interleaving, termination measure [measure] (at most 27 events).
   Part 3    one step seen from one peer (any N, any event): sticky_step, stranded_frozen,
             stranded_never_connects (the S8 stuck lemma).
   Part 4    S8: C07_refuted_two_clients (witness + stuck), C07_statement_two_clients_false,
             C07_two_clients_every_run / C07_three_clients_every_run (NO interleaving succeeds).
   Part 5    invariants for every N: promotion_preserves_roles_invariant (any events),
             hosting/flag "change only at" lemmas, window_step / hosting_after_promotion (a promoted
             peer that hosts keeps hosting), channel shapes, single_promotion_invariant [spi]
             (at most two hosts, the one Promote, only NewHost(k) relayed, other clients untouched or
             stranded, nobody but the old host ever joins the new one), at_most_two_hosts,
             promoted_host_keeps_hosting, C07_never_with_more_clients (S8 for every n >= 2).
   Part 6    C07_chain_of_promotions (the swap back works iff the first promoted peer's RenetClient
             survived the kick), C07_chain_refuted.

   Open: the decrease of [measure] is proved on the complete reachable sets for 2, 3 and 4 peers
   (by computation), not for arbitrary n; for arbitrary n "every stable state has all other clients
   stranded" is proved as a safety property (untouched or stranded at every point), not as liveness. *)
From Coq Require Import NArith List Lia.
From stdpp Require Import gmap list.
From RecordUpdate Require Import RecordSet.
From BS Require Import Abs.Promotion.
Import RecordSetNotations.

Local Open Scope N_scope.

(* ================================================================================================
   Part 0: the enumeration of events is complete; stability is decidable
   ================================================================================================ *)

Lemma elem_of_peers_of s p : p ∈ peers_of s <-> is_Some (ps s !! p).
Proof.
  unfold peers_of. rewrite elem_of_list_fmap. split.
  - intros [[q x] [-> Hin]]. apply elem_of_map_to_list in Hin. simpl. eauto.
  - intros [x Hx]. exists (p, x). split; [reflexivity|]. apply elem_of_map_to_list. exact Hx.
Qed.

Lemma step_peers s e s' : step s e = Some s' -> Forall (fun p => is_Some (ps s !! p)) (epeers e).
Proof.
  intros Hs. destruct e as [h c|h c|c h|p|p|p|p|p|h|c|c|h c]; simpl in Hs |- *;
    repeat match goal with
           | H : context [ps s !! ?q] |- _ =>
               lazymatch goal with
               | Hq : ps s !! q = _ |- _ => fail
               | _ => destruct (ps s !! q) eqn:?; try discriminate
               end
           end;
    repeat constructor; eauto.
Qed.

Lemma in_events1 s p e : p ∈ peers_of s -> e ∈ events1 p -> e ∈ events_of s.
Proof.
  intros Hp He. unfold events_of. apply elem_of_app. left. apply elem_of_list_bind. exists p. split; assumption.
Qed.
Lemma in_events2 s a b e : a ∈ peers_of s -> b ∈ peers_of s -> e ∈ events2 a b -> e ∈ events_of s.
Proof.
  intros Ha Hb He. unfold events_of. apply elem_of_app. right. apply elem_of_list_bind. exists a. split; [|assumption].
  apply elem_of_list_bind. exists b. split; assumption.
Qed.

Lemma events_of_complete s e s' : internal e = true -> step s e = Some s' -> e ∈ events_of s.
Proof.
  intros Hi Hs. pose proof (step_peers _ _ _ Hs) as Hp.
  destruct e as [h c|h c|c h|p|p|p|p|p|h|c|c|h c]; simpl in Hi, Hp; try discriminate;
    repeat match goal with H : Forall _ (_ :: _) |- _ => apply Forall_cons in H as [? H] end;
    repeat match goal with H : is_Some (ps s !! _) |- _ => apply elem_of_peers_of in H end.
  - apply (in_events2 s h c); [assumption..|]. unfold events2. repeat constructor.
  - apply (in_events2 s c h); [assumption..|]. unfold events2. repeat constructor.
  - apply (in_events1 s p); [assumption|]. unfold events1. repeat constructor.
  - apply (in_events1 s p); [assumption|]. unfold events1. repeat constructor.
  - apply (in_events1 s p); [assumption|]. unfold events1. repeat constructor.
  - apply (in_events1 s p); [assumption|]. unfold events1. repeat constructor.
  - apply (in_events1 s p); [assumption|]. unfold events1. repeat constructor.
  - apply (in_events1 s h); [assumption|]. unfold events1. repeat constructor.
  - apply (in_events1 s c); [assumption|]. unfold events1. repeat constructor.
  - apply (in_events1 s c); [assumption|]. unfold events1. repeat constructor.
  - apply (in_events2 s h c); [assumption..|]. unfold events2. repeat constructor.
Qed.

Lemma events_of_internal s e : e ∈ events_of s -> internal e = true.
Proof.
  unfold events_of. rewrite elem_of_app, !elem_of_list_bind.
  intros [(p & He & _)|(a & He & _)].
  - unfold events1 in He. set_unfold. naive_solver.
  - apply elem_of_list_bind in He as (b & He & _). unfold events2 in He. set_unfold. naive_solver.
Qed.

Lemma stableb_true s : stableb s = true <-> stable s.
Proof.
  unfold stableb, stable. rewrite forallb_forall. split.
  - intros H e Hi. destruct (step s e) as [s'|] eqn:Hs; [|reflexivity].
    specialize (H e). rewrite Hs in H. exfalso.
    assert (false = true) by (apply H, elem_of_list_In; eapply events_of_complete; eauto). discriminate.
  - intros H e Hin. rewrite H; [reflexivity|]. apply elem_of_list_In in Hin. eapply events_of_internal; eauto.
Qed.

Global Instance stable_dec s : Decision (stable s).
Proof. destruct (stableb s) eqn:H; [left; apply stableb_true; exact H|right; intros Hs; apply stableb_true in Hs; congruence]. Defined.

Lemma not_stable s : ~ stable s -> exists e s', internal e = true /\ step s e = Some s'.
Proof.
  intros Hn. destruct (stableb s) eqn:Hb; [exfalso; apply Hn, stableb_true; exact Hb|].
  unfold stableb in Hb. apply not_true_iff_false in Hb. rewrite forallb_forall in Hb.
  destruct (decide (Exists (fun e => is_Some (step s e)) (events_of s))) as [Hex|Hnex].
  - apply Exists_exists in Hex as (e & Hin & [s' Hs']). exists e, s'. split; [|exact Hs'].
    eapply events_of_internal; eauto.
  - exfalso. apply Hb. intros e Hin. destruct (step s e) eqn:Hs; [|reflexivity].
    exfalso. apply Hnex. apply Exists_exists. exists e. split; [apply elem_of_list_In; exact Hin|eauto].
Qed.

(* ================================================================================================
   Part 1: soundness of the exhaustive check
   ================================================================================================ *)

Lemma inb_true s R : inb s R = true <-> s ∈ R.
Proof. unfold inb. apply bool_decide_eq_true. Qed.

Lemma check_step good R s e s' :
  checkb good R = true -> s ∈ R -> internal e = true -> step s e = Some s' ->
  s' ∈ R /\ (measure s' < measure s)%nat.
Proof.
  unfold checkb. rewrite forallb_forall. intros Hc Hin Hi Hs.
  specialize (Hc s (proj1 (elem_of_list_In _ _) Hin)). apply andb_true_iff in Hc as [Hc _].
  rewrite forallb_forall in Hc. specialize (Hc e (proj1 (elem_of_list_In _ _) (events_of_complete _ _ _ Hi Hs))).
  rewrite Hs in Hc. apply andb_true_iff in Hc as [H1 H2]. split; [apply inb_true; exact H1|apply Nat.ltb_lt; exact H2].
Qed.

Lemma check_stable good R s : checkb good R = true -> s ∈ R -> stable s -> good s = true.
Proof.
  unfold checkb. rewrite forallb_forall. intros Hc Hin Hst.
  specialize (Hc s (proj1 (elem_of_list_In _ _) Hin)). apply andb_true_iff in Hc as [_ Hc].
  apply orb_true_iff in Hc as [Hc|Hc]; [|exact Hc].
  apply stableb_true in Hst. rewrite Hst in Hc. discriminate.
Qed.

Lemma check_run good R : checkb good R = true -> forall tr s s',
  s ∈ R -> all_internal tr -> run s tr = Some s' -> s' ∈ R /\ (length tr + measure s' <= measure s)%nat.
Proof.
  intros Hc tr. induction tr as [|e tr IH]; intros s s' Hin Hall Hrun; simpl in Hrun.
  - inversion Hrun; subst. split; [exact Hin|simpl; lia].
  - destruct (step s e) as [s1|] eqn:Hs; [|discriminate].
    apply Forall_cons in Hall as [Hi Hall].
    destruct (check_step _ _ _ _ _ Hc Hin Hi Hs) as [Hin1 Hlt].
    destruct (IH _ _ Hin1 Hall Hrun) as [Hin' Hle]. split; [exact Hin'|simpl; lia].
Qed.

(* every run can be completed to a stable state (inside a checked set) *)
Lemma check_completes good R : checkb good R = true -> forall s, s ∈ R ->
  exists tr s', all_internal tr /\ run s tr = Some s' /\ stable s' /\ good s' = true.
Proof.
  intros Hc s. remember (measure s) as m eqn:Hm. revert s Hm.
  induction m as [m IH] using lt_wf_ind. intros s -> Hin.
  destruct (decide (stable s)) as [Hst|Hn].
  - exists [], s. split; [constructor|]. split; [reflexivity|]. split; [exact Hst|]. eapply check_stable; eauto.
  - destruct (not_stable _ Hn) as (e & s1 & Hi & Hs).
    destruct (check_step _ _ _ _ _ Hc Hin Hi Hs) as [Hin1 Hlt].
    destruct (IH _ Hlt s1 eq_refl Hin1) as (tr & s' & Hall & Hrun & Hst & Hg).
    exists (e :: tr), s'. split; [constructor; assumption|]. split; [simpl; rewrite Hs; exact Hrun|]. auto.
Qed.

Lemma run_app s tr1 tr2 : run s (tr1 ++ tr2) = match run s tr1 with Some s1 => run s1 tr2 | None => None end.
Proof. revert s. induction tr1 as [|e tr1 IH]; intros s; simpl; [reflexivity|]. destruct (step s e); [apply IH|reflexivity]. Qed.

Lemma handed_overb_true s h c : handed_overb s h c = true -> handed_over s h c.
Proof.
  unfold handed_overb, handed_over, no_traffic. destruct (ps s !! h) as [x|]; [|discriminate].
  destruct (ps s !! c) as [y|]; [|discriminate].
  rewrite !andb_true_iff, !bool_decide_eq_true. intros [[[[[H1 H2] H3] H4] H5] H6]. eauto 10.
Qed.

Lemma chain_brokenb_true s h k : chain_brokenb s h k = true -> chain_broken s h k.
Proof.
  unfold chain_brokenb, chain_broken, no_traffic. destruct (ps s !! k) as [x|]; [|discriminate].
  destruct (ps s !! h) as [y|]; [|discriminate].
  rewrite !andb_true_iff, !bool_decide_eq_true. intros [[[[H1 H2] H3] H4] H5]. split; [|auto]. exists x, y. tauto.
Qed.

Lemma s8_outcomeb_true s : s8_outcomeb s = true -> s8_outcome s.
Proof.
  unfold s8_outcomeb, s8_outcome. repeat case_match; try discriminate.
  rewrite bool_decide_eq_true. intros Hb. eexists _, _, _. tauto.
Qed.

(* ================================================================================================
   Part 2: C07 with ONE client -- every interleaving, with a termination measure
   ================================================================================================ *)

(* the initial state of the theorem, said without [session]: *)
Example session_1_roles : handed_over (session 1) 0 1.
Proof. apply handed_overb_true. vm_compute. reflexivity. Qed.
Example promoted_1_1 : step (session 1) (EPromote 0 1) = Some (promoted 1 1) /\ promoted 1 1 = push_down (session 1) 0 1 Promote.
Proof. split; vm_compute; reflexivity. Qed.

(* all states reachable after the request, computed *)
Definition R1 : list pstate := default [] (explore 1000 [promoted 1 1] []).
Lemma R1_checked : checkb (fun s => handed_overb s 1 0 && bool_decide (session_ok s 1)) R1 = true.
Proof. vm_cast_no_check (eq_refl true). Qed.
Lemma R1_start : promoted 1 1 ∈ R1.
Proof. apply inb_true. vm_compute. reflexivity. Qed.

Theorem C07_single_client_promotion :
  forall tr s, all_internal tr -> run (promoted 1 1) tr = Some s ->
    (* termination: [measure] drops by at least 1 with every event, whatever the interleaving *)
    (length tr + measure s <= measure (promoted 1 1%N))%nat
    (* a run that cannot be continued has handed the session over *)
    /\ (stable s -> handed_over s 1 0)
    (* any other run can be continued, and every continuation decreases the measure *)
    /\ (~ stable s -> exists e s', internal e = true /\ step s e = Some s' /\ (measure s' < measure s)%nat)
    /\ (exists tr' s', all_internal tr' /\ run s tr' = Some s' /\ stable s' /\ handed_over s' 1 0).
Proof.
  intros tr s Hall Hrun.
  destruct (check_run _ _ R1_checked _ _ _ R1_start Hall Hrun) as [Hin Hle].
  split; [exact Hle|]. split; [|split].
  - intros Hst. apply handed_overb_true.
    exact (proj1 (proj1 (andb_true_iff _ _) (check_stable _ _ _ R1_checked Hin Hst))).
  - intros Hn. destruct (not_stable _ Hn) as (e & s' & Hi & Hs). exists e, s'.
    split; [exact Hi|]. split; [exact Hs|]. exact (proj2 (check_step _ _ _ _ _ R1_checked Hin Hi Hs)).
  - destruct (check_completes _ _ R1_checked _ Hin) as (tr' & s' & H1 & H2 & H3 & H4).
    exists tr', s'. split; [exact H1|]. split; [exact H2|]. split; [exact H3|]. apply handed_overb_true.
    exact (proj1 (proj1 (andb_true_iff _ _) H4)).
Qed.
Print Assumptions C07_single_client_promotion.

(* the full statement of C07 (Promotion.v) holds for one client *)
Corollary C07_single_client : C07_statement 1 1.
Proof.
  intros tr s Hall Hrun Hst. destruct (check_run _ _ R1_checked _ _ _ R1_start Hall Hrun) as [Hin _].
  pose proof (check_stable _ _ _ R1_checked Hin Hst) as Hg. apply andb_true_iff in Hg as [_ Hg].
  apply bool_decide_eq_true in Hg. exact Hg.
Qed.

Example measure_promoted_1_1 : measure (promoted 1 1) = 27%nat.
Proof. vm_compute. reflexivity. Qed.

(* no run after the request has more than 27 events *)
Corollary C07_single_client_bound tr s : all_internal tr -> run (promoted 1 1) tr = Some s -> (length tr <= 27)%nat.
Proof. intros Ha Hr. destruct (C07_single_client_promotion _ _ Ha Hr) as [H _]. rewrite measure_promoted_1_1 in H. lia. Qed.

(* ================================================================================================
   Part 3: one step, seen from one peer (all N, all events)
   ================================================================================================ *)

Lemma ps_setp s p x : ps (setp s p x) = <[p := x]> (ps s).
Proof. reflexivity. Qed.
Lemma ps_push_up s a b m : ps (push_up s a b m) = ps s.
Proof. reflexivity. Qed.
Lemma ps_push_down s a b m : ps (push_down s a b m) = ps s.
Proof. reflexivity. Qed.
Lemma ps_drop_link s a b : ps (drop_link s a b) = ps s.
Proof. reflexivity. Qed.
Lemma ps_drop_link_of s a t : ps (drop_link_of s a t) = ps s.
Proof. destruct t; reflexivity. Qed.
Lemma ps_relay s h l m : ps (relay s h l m) = ps s.
Proof. induction l as [|d l IH]; simpl; [reflexivity|]. exact IH. Qed.
Lemma ps_mk a b c : ps (PState a b c) = a.
Proof. reflexivity. Qed.

Ltac pssimpl :=
  repeat first [ rewrite ps_relay | rewrite ps_drop_link_of | rewrite ps_drop_link | rewrite ps_push_up
               | rewrite ps_push_down | rewrite ps_setp | rewrite ps_mk ].

(* case analysis of one step: one goal per branch of [step] that returns Some *)
Ltac step_inv Hs :=
  unfold step in Hs;
  repeat (match type of Hs with context [match ?t with _ => _ end] => destruct t eqn:? end; try discriminate);
  injection Hs as <-.

Ltac ins_cases :=
  repeat match goal with
         | |- context [<[?a := _]> _ !! ?p] =>
             destruct (decide (a = p)) as [->|?];
             [rewrite lookup_insert | rewrite lookup_insert_ne by assumption]
         end.


(* the RenetClient object is never reconstructed: no event resets [sticky] *)
Lemma sticky_step s e s' p : step s e = Some s' -> pget sticky false s p = true -> pget sticky false s' p = true.
Proof.
  intros Hs Hp. unfold pget in *. destruct e; step_inv Hs; pssimpl; ins_cases;
    repeat match goal with H : ps s !! ?q = Some _, H' : context [ps s !! ?q] |- _ => rewrite H in H' end;
    simpl; try assumption; try reflexivity.
Qed.

Ltac bool_hyps :=
  repeat match goal with
         | H : _ && _ = true |- _ => apply andb_true_iff in H as [? ?]
         | H : negb _ = true |- _ => apply negb_true_iff in H
         | H : negb _ = false |- _ => apply negb_false_iff in H
         | H : bool_decide _ = true |- _ => apply bool_decide_eq_true in H
         | H : bool_decide _ = false |- _ => apply bool_decide_eq_false in H
         end.

Ltac same_lookup :=
  repeat match goal with
         | H : ps ?s !! ?q = Some _, H' : ps ?s !! ?q = Some _ |- _ => rewrite H in H'; injection H' as <-
         | H : ps ?s !! ?q = Some _, H' : ps ?s !! ?q = None |- _ => rewrite H in H'; discriminate
         end.

Definition strandedP (s : pstate) (p : peer) : Prop := pget stranded False s p.

(* a stranded peer is frozen: target and flag never change again *)
Lemma stranded_frozen s e s' p x :
  step s e = Some s' -> ps s !! p = Some x -> stranded x ->
  exists x', ps s' !! p = Some x' /\ stranded x' /\ client_of x' = client_of x /\ flag x' = flag x.
Proof.
  intros Hs Hxp (S1 & S2 & S3 & S4 & S5 & S6).
  destruct e; step_inv Hs; pssimpl; ins_cases; same_lookup; rewrite ?Hxp; bool_hyps;
    unfold stranded, srv_gate, cli_gate in *; simpl; bool_hyps;
    try (eexists; split; [reflexivity|]; simpl; split_and?; (assumption || reflexivity || eauto));
    try congruence.
  match goal with H : is_cdisc (cli_state _) = true |- _ => rewrite S4 in H; discriminate end.
Qed.

(* S8, the stuck lemma: once stranded, for ever stranded -- whatever happens afterwards, new
   promotions by the application included, in a session of any size *)
Lemma stranded_step s e s' p : step s e = Some s' -> strandedP s p -> strandedP s' p.
Proof.
  intros Hs Hp. unfold strandedP, pget in *. destruct (ps s !! p) as [xp|] eqn:Hxp; [|contradiction].
  destruct (stranded_frozen s e s' p xp Hs Hxp Hp) as (x' & -> & Hst & _). exact Hst.
Qed.

Lemma stranded_run tr : forall s s' p, run s tr = Some s' -> strandedP s p -> strandedP s' p.
Proof.
  induction tr as [|e tr IH]; intros s s' p Hrun Hp; simpl in Hrun.
  - inversion Hrun; subst. exact Hp.
  - destruct (step s e) as [s1|] eqn:Hs; [|discriminate]. eapply IH; [exact Hrun|]. eapply stranded_step; eauto.
Qed.

Lemma sticky_run tr : forall s s' p, run s tr = Some s' -> pget sticky false s p = true -> pget sticky false s' p = true.
Proof.
  induction tr as [|e tr IH]; intros s s' p Hrun Hp; simpl in Hrun.
  - inversion Hrun; subst. exact Hp.
  - destruct (step s e) as [s1|] eqn:Hs; [|discriminate]. eapply IH; [exact Hrun|]. eapply sticky_step; eauto.
Qed.

(* in particular a stranded client is never linked again and never leaves ClientState::Connected *)
Corollary stranded_never_connects tr s s' p :
  run s tr = Some s' -> strandedP s p ->
  exists x, ps s' !! p = Some x /\ link_up x = false /\ cli_state x = CConnected /\ sticky x = true.
Proof.
  intros Hrun Hp. pose proof (stranded_run _ _ _ _ Hrun Hp) as H. unfold strandedP, pget in H.
  destruct (ps s' !! p) as [x|]; [|contradiction]. exists x. unfold stranded in H. tauto.
Qed.
Print Assumptions stranded_never_connects.

(* ================================================================================================
   Part 4: S8 -- promotion with TWO clients
   ================================================================================================ *)

Example session_2_roles :
  roles (session 2) = [(0, (true, SConnected, [1; 2], None, CDisconnected, false, false, false));
                       (1, (false, SDisconnected, [], Some 0, CConnected, true, false, false));
                       (2, (false, SDisconnected, [], Some 0, CConnected, true, false, false))].
Proof. vm_compute. reflexivity. Qed.

(* the witness run of Promotion.v (without its first event, the request itself) *)
Definition s8_run : list pevent := tail ex_two_clients.
Definition s8_state : pstate := default (session 2) (run (promoted 2 1) s8_run).

Example s8_run_runs : all_internal s8_run /\ run (promoted 2 1) s8_run = Some s8_state.
Proof. split; [unfold all_internal; repeat constructor|vm_compute; reflexivity]. Qed.
Example s8_state_roles :
  roles s8_state = [(0, (true, SConnected, [], Some 1, CConnected, true, false, false));
                    (1, (true, SConnected, [0], None, CDisconnected, false, true, false));
                    (2, (false, SDisconnected, [], Some 1, CConnected, false, true, true))]
  /\ enabled s8_state = [] /\ no_traffic s8_state.
Proof.
  split; [vm_compute; reflexivity|]. split; [vm_compute; reflexivity|].
  split; apply (bool_decide_unpack _); vm_compute; exact I.
Qed.

Theorem C07_refuted_two_clients :
  exists tr s,
    all_internal tr /\ run (promoted 2 1) tr = Some s /\
    stable s /\                                  (* nothing will happen any more *)
    hosts s = [0; 1] /\                          (* two peers host *)
    s8_outcome s /\ strandedP s 2 /\             (* 2: ClientState Connected, RenetClient dead *)
    (forall tr' s', run s tr' = Some s' ->       (* and no continuation whatsoever repairs it *)
       exists x, ps s' !! 2 = Some x /\ link_up x = false /\ cli_state x = CConnected /\ sticky x = true).
Proof.
  exists s8_run, s8_state. destruct s8_run_runs as [Ha Hr].
  assert (Hst : strandedP s8_state 2).
  { unfold strandedP, pget. vm_compute. repeat split; eauto. }
  split; [exact Ha|]. split; [exact Hr|]. split; [apply stableb_true; vm_compute; reflexivity|].
  split; [vm_compute; reflexivity|]. split; [apply s8_outcomeb_true; vm_compute; reflexivity|].
  split; [exact Hst|]. intros tr' s' Hrun. eapply stranded_never_connects; eauto.
Qed.
Print Assumptions C07_refuted_two_clients.

Corollary C07_statement_two_clients_false : ~ C07_statement 2 1.
Proof.
  intros H. destruct C07_refuted_two_clients as (tr & s & Ha & Hr & Hst & Hh & _).
  destruct (H tr s Ha Hr Hst) as [Hh' _]. rewrite Hh in Hh'. discriminate.
Qed.

(* stronger: with two clients NO interleaving succeeds.  Every run terminates, and every run that
   cannot be continued ends with 0 moved over to 1 and 2 stranded *)
Definition R2 : list pstate := default [] (explore (100 * 100) [promoted 2 1] []).
Lemma R2_checked : checkb s8_outcomeb R2 = true.
Proof. vm_cast_no_check (eq_refl true). Qed.
Lemma R2_start : promoted 2 1 ∈ R2.
Proof. apply inb_true. vm_compute. reflexivity. Qed.

Theorem C07_two_clients_every_run :
  forall tr s, all_internal tr -> run (promoted 2 1) tr = Some s ->
    (length tr + measure s <= measure (promoted 2 1%N))%nat
    /\ (stable s -> s8_outcome s /\ strandedP s 2 /\ ~ session_ok s 1)
    /\ (exists tr' s', all_internal tr' /\ run s tr' = Some s' /\ stable s' /\ s8_outcome s').
Proof.
  intros tr s Hall Hrun.
  destruct (check_run _ _ R2_checked _ _ _ R2_start Hall Hrun) as [Hin Hle].
  split; [exact Hle|]. split.
  - intros Hst. pose proof (s8_outcomeb_true _ (check_stable _ _ _ R2_checked Hin Hst)) as Ho.
    split; [exact Ho|]. destruct Ho as (x0 & x1 & x2 & H0 & H1 & H2 & Hs2 & Hrest).
    split; [unfold strandedP, pget; rewrite H2; exact Hs2|].
    intros [_ Hok]. destruct (Hok 2 x2 H2 ltac:(discriminate)) as (_ & Hl & _).
    destruct Hs2 as (_ & _ & Hl' & _). congruence.
  - destruct (check_completes _ _ R2_checked _ Hin) as (tr' & s' & H1 & H2 & H3 & H4).
    exists tr', s'. split; [exact H1|]. split; [exact H2|]. split; [exact H3|]. apply s8_outcomeb_true. exact H4.
Qed.
Print Assumptions C07_two_clients_every_run.

(* the same with THREE clients (4 peers, 1561 reachable states): every run terminates, and every run
   that cannot be continued ends with 0 moved over to 1 and BOTH other clients stranded *)
Definition three_clients_outcome (s : pstate) : Prop :=
  exists x0 x1 x2 x3, ps s !! (0 : peer) = Some x0 /\ ps s !! (1 : peer) = Some x1 /\
    ps s !! (2 : peer) = Some x2 /\ ps s !! (3 : peer) = Some x3 /\
    stranded x2 /\ stranded x3 /\ hosting x1 = true /\ clients x1 = [0] /\
    client_of x0 = Some 1 /\ link_up x0 = true /\ cli_state x0 = CConnected.
Definition three_clients_outcomeb (s : pstate) : bool :=
  match ps s !! (0 : peer), ps s !! (1 : peer), ps s !! (2 : peer), ps s !! (3 : peer) with
  | Some x0, Some x1, Some x2, Some x3 =>
      bool_decide (stranded x2 /\ stranded x3 /\ hosting x1 = true /\ clients x1 = [0] /\
                   client_of x0 = Some 1 /\ link_up x0 = true /\ cli_state x0 = CConnected)
  | _, _, _, _ => false
  end.
Lemma three_clients_outcomeb_true s : three_clients_outcomeb s = true -> three_clients_outcome s.
Proof.
  unfold three_clients_outcomeb, three_clients_outcome. repeat case_match; try discriminate.
  rewrite bool_decide_eq_true. intros Hb. eexists _, _, _, _. tauto.
Qed.
Definition R3 : list pstate := default [] (explore (200 * 100) [promoted 3 1] []).
Lemma R3_checked : inb (promoted 3 1) R3 && checkb three_clients_outcomeb R3 = true.
Proof. vm_cast_no_check (eq_refl true). Qed.

Theorem C07_three_clients_every_run :
  forall tr s, all_internal tr -> run (promoted 3 1) tr = Some s ->
    (length tr + measure s <= measure (promoted 3 1%N))%nat
    /\ (stable s -> three_clients_outcome s)
    /\ (exists tr' s', all_internal tr' /\ run s tr' = Some s' /\ stable s' /\ three_clients_outcome s').
Proof.
  intros tr s Hall Hrun. pose proof R3_checked as Hc. apply andb_true_iff in Hc as [Hs0 Hc]. apply inb_true in Hs0.
  destruct (check_run _ _ Hc _ _ _ Hs0 Hall Hrun) as [Hin Hle].
  split; [exact Hle|]. split.
  - intros Hst. apply three_clients_outcomeb_true. exact (check_stable _ _ _ Hc Hin Hst).
  - destruct (check_completes _ _ Hc _ Hin) as (tr' & s' & H1 & H2 & H3 & H4).
    exists tr', s'. split; [exact H1|]. split; [exact H2|]. split; [exact H3|]. apply three_clients_outcomeb_true. exact H4.
Qed.
Print Assumptions C07_three_clients_every_run.

(* both endings occur: the old host closes its server (its last ClientDisconnected arrived while
   the flag was still set) or keeps it for ever (verify_client_connected consumed the flag first) *)
Example s8_other_ending :
  (fun s => (hosts s, stableb s, s8_outcomeb s)) <$>
  run (promoted 2 1) [EDeliverDown 0 1; ESrvUp 1; EDeliverUp 1 0; ENotify 0; EDeliverDown 0 2; ETimeout 0 2; ENotify 0;
                      ESrvDown 0; ECliConnecting 0; ECliConnecting 2; EConnect 0; ENotify 1; ECliDown 1; EVerify 0;
                      EDeliverUp 0 1]
  = Some ([1], true, true).
Proof. vm_compute. reflexivity. Qed.

(* ================================================================================================
   Part 5: invariants for sessions of ANY size
   ================================================================================================ *)

Ltac pssimpl_in H :=
  repeat first [ rewrite ps_relay in H | rewrite ps_drop_link_of in H | rewrite ps_drop_link in H | rewrite ps_push_up in H
               | rewrite ps_push_down in H | rewrite ps_setp in H | rewrite ps_mk in H ].

Lemma NoDup_without c l : NoDup l -> NoDup (without c l).
Proof. intros H. unfold without. apply NoDup_filter. exact H. Qed.
Lemma elem_of_without c l d : d ∈ without c l <-> d <> c /\ d ∈ l.
Proof. unfold without. rewrite elem_of_list_filter. reflexivity. Qed.
Lemma NoDup_snoc_fresh (c : peer) l : NoDup l -> c ∉ l -> NoDup (l ++ [c]).
Proof. intros H1 H2. apply NoDup_app. split; [exact H1|]. split; [|apply NoDup_singleton]. intros x Hx Hx'. apply elem_of_list_singleton in Hx'. subst. contradiction. Qed.

Ltac old_wf Hwf :=
  match goal with
  | |- wf_peer ?t =>
      match goal with
      | H : ps _ !! _ = Some ?y |- _ =>
          match t with context [y] => destruct (Hwf _ _ H) as (W1 & W2 & W3 & W4 & W5 & W6) end
      end
  end.

Lemma wf_step s e s' : roles_inv s -> step s e = Some s' -> forall p x, ps s' !! p = Some x -> wf_peer x.
Proof.
  intros (Hwf & Hcl & Hlk) Hs p x Hx.
  destruct e; step_inv Hs; pssimpl_in Hx;
    repeat (apply lookup_insert_Some in Hx as [[<- <-]|[? Hx]]);
    try (eapply Hwf; eassumption);
    old_wf Hwf; unfold wf_peer, srv_gate, cli_gate in *; simpl; bool_hyps;
    split_and?; intros; simpl in *;
    try (first [ tauto | congruence | eauto using NoDup_without, NoDup_snoc_fresh; fail ]).
  all: try (split_and?; first [ tauto | congruence | eauto using NoDup_without, NoDup_snoc_fresh; fail ]).
  all: try (destruct (hosting _) eqn:?; intuition congruence).
  - match goal with |- is_Some (client_of ?y) \/ _ => destruct (client_of y) eqn:? end; [left; eauto|destruct (W2 eq_refl); congruence].
  - match goal with H : is_nil (clients ?y) = true |- _ => destruct (clients y) end; [auto|discriminate].
Qed.

Lemma insert_dom (m : gmap peer ppeer) i x j : is_Some (m !! i) -> (is_Some (<[i:=x]> m !! j) <-> is_Some (m !! j)).
Proof.
  intros Hi. rewrite lookup_insert_is_Some. split.
  - intros [->|[_ H]]; assumption.
  - intros H. destruct (decide (i = j)); [left; assumption|right; split; assumption].
Qed.

Lemma step_dom s e s' : step s e = Some s' -> forall p, is_Some (ps s' !! p) <-> is_Some (ps s !! p).
Proof.
  intros Hs p. destruct e; step_inv Hs; pssimpl; rewrite ?insert_dom; try reflexivity;
    rewrite ?insert_dom; eauto.
Qed.

Lemma clients_step s e s' : roles_inv s -> step s e = Some s' ->
  forall h x c, ps s' !! h = Some x -> c ∈ clients x -> c <> h /\ is_Some (ps s' !! c).
Proof.
  intros (Hwf & Hcl & Hlk) Hs h x c Hx Hc. rewrite (step_dom _ _ _ Hs).
  destruct e; step_inv Hs; pssimpl_in Hx;
    repeat (apply lookup_insert_Some in Hx as [[<- <-]|[? Hx]]);
    try (eapply Hcl; eassumption);
    simpl in Hc; rewrite ?elem_of_without in Hc;
    try (eapply Hcl; [eassumption|tauto]).
  bool_hyps. apply elem_of_app in Hc as [Hc|Hc]; [eapply Hcl; eassumption|].
  apply elem_of_list_singleton in Hc. subst. split; [assumption|eauto].
Qed.

Lemma links_step s e s' : roles_inv s -> step s e = Some s' ->
  forall c y h, ps s' !! c = Some y -> link_up y = true -> client_of y = Some h -> c <> h /\ is_Some (ps s' !! h).
Proof.
  intros (Hwf & Hcl & Hlk) Hs c y h Hy Hl Hc. rewrite (step_dom _ _ _ Hs).
  destruct e; step_inv Hs; pssimpl_in Hy;
    repeat (apply lookup_insert_Some in Hy as [[<- <-]|[? Hy]]);
    try (eapply Hlk; eassumption);
    simpl in Hl, Hc; try discriminate;
    try (eapply Hlk; eassumption).
  bool_hyps.
  match goal with H1 : client_of ?y = Some ?a, H2 : client_of ?y = Some ?b |- _ => assert (a = b) by congruence; subst end.
  split; [assumption|eauto].
Qed.

Lemma roles_inv_step s e s' : roles_inv s -> step s e = Some s' -> roles_inv s'.
Proof.
  intros Hinv Hs. split; [|split].
  - eapply wf_step; eauto.
  - eapply clients_step; eauto.
  - eapply links_step; eauto.
Qed.

Lemma roles_inv_run tr : forall s s', roles_inv s -> run s tr = Some s' -> roles_inv s'.
Proof.
  induction tr as [|e tr IH]; intros s s' Hinv Hrun; simpl in Hrun.
  - inversion Hrun; subst. exact Hinv.
  - destruct (step s e) as [s1|] eqn:Hs; [|discriminate]. eapply IH; [|exact Hrun]. eapply roles_inv_step; eauto.
Qed.

(* ---------- the initial sessions ---------- *)

Lemma elem_of_client_ids n c : c ∈ client_ids n <-> (1 <= c <= N.of_nat n)%N.
Proof.
  unfold client_ids. rewrite elem_of_list_fmap. split.
  - intros (i & -> & Hi). apply elem_of_seq in Hi. lia.
  - intros Hc. exists (N.to_nat c). split; [lia|]. apply elem_of_seq. lia.
Qed.
Lemma NoDup_client_ids n : NoDup (client_ids n).
Proof. unfold client_ids. apply NoDup_fmap_2; [intros a b Hab; lia|apply NoDup_seq]. Qed.

Lemma const_map_lookup (cs : list peer) (v : ppeer) p :
  (list_to_map ((fun c => (c, v)) <$> cs) : gmap peer ppeer) !! p = if decide (p ∈ cs) then Some v else None.
Proof.
  induction cs as [|c cs IH]; [simpl|rewrite fmap_cons, list_to_map_cons].
  - rewrite lookup_empty. destruct (decide (p ∈ [])) as [H|_]; [inversion H|reflexivity].
  - destruct (decide (c = p)) as [->|Hne].
    + rewrite lookup_insert. destruct (decide (p ∈ p :: cs)) as [_|Hn]; [reflexivity|]. exfalso. apply Hn. left.
    + rewrite lookup_insert_ne by exact Hne. rewrite IH.
      destruct (decide (p ∈ cs)) as [Hin|Hn]; destruct (decide (p ∈ c :: cs)) as [Hin'|Hn']; try reflexivity.
      * exfalso. apply Hn'. right. exact Hin.
      * exfalso. apply elem_of_cons in Hin' as [->|Hin']; [apply Hne; reflexivity|apply Hn; exact Hin'].
Qed.

Lemma session_lookup n p :
  ps (session n) !! p = if decide (p = host) then Some (idle_host (client_ids n))
                        else if decide (p ∈ client_ids n) then Some (idle_client host) else None.
Proof.
  unfold session. rewrite ps_mk. simpl. destruct (decide (p = host)) as [->|Hne].
  - rewrite lookup_insert. reflexivity.
  - rewrite lookup_insert_ne by (intros H; apply Hne; symmetry; exact H). apply const_map_lookup.
Qed.

Lemma roles_inv_session n : roles_inv (session n).
Proof.
  split; [|split].
  - intros p x Hx. rewrite session_lookup in Hx. repeat case_decide; simplify_eq.
    + unfold wf_peer, idle_host; simpl. split_and?; try (intros; (discriminate || auto)). apply NoDup_client_ids.
    + unfold wf_peer, idle_client; simpl. split_and?; try (intros; (discriminate || eauto)). apply NoDup_nil_2.
  - intros h x c Hx Hc. rewrite session_lookup in Hx. rewrite session_lookup.
    destruct (decide (h = host)) as [->|Hh].
    + injection Hx as <-. simpl in Hc. apply elem_of_client_ids in Hc as Hc'. unfold host in *.
      split; [lia|]. rewrite decide_False by lia. rewrite decide_True by exact Hc. eauto.
    + destruct (decide (h ∈ client_ids n)); [|discriminate]. injection Hx as <-. inversion Hc.
  - intros c y h Hy Hl Hc. rewrite session_lookup in Hy. rewrite session_lookup.
    destruct (decide (c = host)) as [->|Hh].
    + injection Hy as <-. discriminate.
    + destruct (decide (c ∈ client_ids n)); [|discriminate]. injection Hy as <-. simpl in Hc. injection Hc as <-.
      split; [exact Hh|]. rewrite decide_True by reflexivity. eauto.
Qed.

Ltac ins_cases_in H :=
  repeat match type of H with
         | context [<[?a := _]> _ !! ?p] =>
             destruct (decide (a = p)) as [->|?];
             [rewrite lookup_insert in H | rewrite lookup_insert_ne in H by assumption]
         end.
Ltac use_lookups :=
  repeat match goal with
         | H : ps ?s !! ?q = Some _, H' : context [ps ?s !! ?q] |- _ =>
             lazymatch type of H' with ps s !! q = Some _ => fail | _ => rewrite H in H' end
         end.

(* the flag and the server transport change only at well-defined events *)
Lemma hosting_rises_only_by_promote s e s' p :
  step s e = Some s' -> pget hosting true s p = false -> pget hosting false s' p = true ->
  exists h, e = EDeliverDown h p /\ head (chan (down s) h p) = Some Promote.
Proof.
  intros Hs H1 H2. unfold pget in *.
  destruct e; step_inv Hs; pssimpl_in H2; ins_cases_in H2; use_lookups; simpl in *; try congruence;
    try (destruct (ps s !! p) eqn:?; congruence).
  all: try (eexists; split; [reflexivity|]; match goal with H : chan _ _ _ = _ |- _ => rewrite H end; reflexivity).
Qed.

Lemma hosting_falls_only_when s e s' p :
  step s e = Some s' -> pget hosting false s p = true -> pget hosting true s' p = false ->
  e = ENotify p /\
  exists x c q, ps s !! p = Some x /\ srv_gate x = true /\ flag x = true /\ clients x = [] /\ srv_events x = (false, c) :: q.
Proof.
  intros Hs H1 H2. unfold pget in *.
  destruct e; step_inv Hs; pssimpl_in H2; ins_cases_in H2; use_lookups; simpl in *; try congruence;
    try (destruct (ps s !! p) eqn:?; congruence).
  bool_hyps. split; [reflexivity|]. eexists _, _, _. split; [eassumption|]. split_and?; try eassumption.
  destruct (clients _); [reflexivity|discriminate].
Qed.

Lemma flag_rises_only_by_message s e s' p :
  step s e = Some s' -> pget flag true s p = false -> pget flag false s' p = true ->
  (exists h, e = EDeliverDown h p /\
             (head (chan (down s) h p) = Some Promote \/ exists q, head (chan (down s) h p) = Some (NewHost q)))
  \/ (exists c q, e = EDeliverUp c p /\ head (chan (up s) c p) = Some (NewHost q)).
Proof.
  intros Hs H1 H2. unfold pget in *.
  destruct e; step_inv Hs; pssimpl_in H2; ins_cases_in H2; use_lookups; simpl in *; try congruence;
    try (destruct (ps s !! p) eqn:?; congruence).
  all: match goal with H : chan _ _ _ = _ |- _ =>
         first [ left; eexists; split; [reflexivity|]; left; rewrite H; reflexivity
               | left; eexists; split; [reflexivity|]; right; rewrite H; eexists; reflexivity
               | right; eexists _, _; split; [reflexivity|]; rewrite H; reflexivity ] end.
Qed.

Lemma flag_falls_only_when s e s' p :
  step s e = Some s' -> pget flag false s p = true -> pget flag true s' p = false ->
  e = ENotify p \/ e = EVerify p.
Proof.
  intros Hs H1 H2. unfold pget in *.
  destruct e; step_inv Hs; pssimpl_in H2; ins_cases_in H2; use_lookups; simpl in *; try congruence;
    try (destruct (ps s !! p) eqn:?; congruence); auto.
Qed.

(* a promoted peer that hosts keeps hosting -- until it is itself told to hand over (a NewHost from
   one of its clients) or promoted again *)
Lemma promote_opens_window s h p s' :
  roles_inv s -> step s (EDeliverDown h p) = Some s' -> head (chan (down s) h p) = Some Promote ->
  pget hosting true s p = false ->
  exists x', ps s' !! p = Some x' /\ hosting x' = true /\ flag x' = true /\ window x'.
Proof.
  intros (Hwf & _ & _) Hs Hh Hp. unfold pget in Hp.
  step_inv Hs; simpl in Hh; try discriminate; try congruence.
  pssimpl. rewrite lookup_insert. eexists. split; [reflexivity|]. simpl.
  split; [reflexivity|]. split; [reflexivity|]. intros _. simpl. left.
  match goal with H : ps s !! p = Some ?y, H' : hosting ?y = false |- _ => destruct (Hwf _ _ H) as (W1 & _); destruct (W1 H') as (? & ? & _) end.
  auto.
Qed.

Lemma window_step s e s' p x :
  ps s !! p = Some x -> hosting x = true -> window x -> step s e = Some s' ->
  (forall c q, e = EDeliverUp c p -> head (chan (up s) c p) <> Some (NewHost q)) ->
  (forall h, e = EDeliverDown h p -> head (chan (down s) h p) = Some ReqInit) ->
  exists x', ps s' !! p = Some x' /\ hosting x' = true /\ window x'.
Proof.
  intros Hx Hh Hw Hs Hno1 Hno2.
  destruct e; step_inv Hs; pssimpl; ins_cases; same_lookup; rewrite ?Hx;
    try (eexists; split; [reflexivity|]; split; [assumption|assumption]).
  all: try (exfalso; specialize (Hno2 _ eq_refl);
            match goal with H : chan _ _ _ = _ |- _ => rewrite H in Hno2 end; discriminate).
  all: try (exfalso; eapply Hno1; [reflexivity|];
            match goal with H : chan _ _ _ = _ |- _ => rewrite H end; reflexivity).
  all: eexists; split; [reflexivity|]; unfold window in *; simpl; bool_hyps.
  all: try (split; [assumption|intros; discriminate]).
  - (* ENotify, ClientConnected, flag not set *)
    split; [assumption|]. intros Hf. congruence.
  - (* ENotify, the server is closed: impossible inside the window *)
    exfalso. destruct (Hw ltac:(assumption)) as [[Hq _]|(c' & q' & Hq)]; congruence.
  - (* ENotify, ClientDisconnected ignored *)
    split; [assumption|]. intros Hf. exfalso.
    destruct (Hw Hf) as [[Hq _]|(c' & q' & Hq)]; congruence.
  - (* EConnect to p *)
    split; [assumption|]. intros Hf. right.
    destruct (Hw Hf) as [[Hq _]|(c' & q' & Hq)]; rewrite Hq; simpl; eauto.
  - (* ETimeout at p *)
    split; [assumption|]. intros Hf. right.
    destruct (Hw Hf) as [[Hq Hc]|(c' & q' & Hq)].
    + exfalso. match goal with H : _ ∈ clients x |- _ => rewrite Hc in H; inversion H end.
    + rewrite Hq. simpl. eauto.
Qed.

(* ---------- channels after one step ---------- *)

Lemma chan_push M a b m a' b' : chan (push M a b m) a' b' = if decide ((a', b') = (a, b)) then chan M a b ++ [m] else chan M a' b'.
Proof.
  unfold push. unfold chan at 1. case_decide; simplify_eq.
  - rewrite lookup_insert. reflexivity.
  - rewrite lookup_insert_ne by congruence. reflexivity.
Qed.
Lemma chan_delete M a b a' b' : chan (delete (a, b) M) a' b' = if decide ((a', b') = (a, b)) then [] else chan M a' b'.
Proof.
  unfold chan. case_decide; simplify_eq.
  - rewrite lookup_delete. reflexivity.
  - rewrite lookup_delete_ne by congruence. reflexivity.
Qed.

Lemma chan_setchan M a b l a' b' : chan (setchan M a b l) a' b' = if decide ((a', b') = (a, b)) then l else chan M a' b'.
Proof.
  unfold setchan. destruct l as [|m l]; [apply chan_delete|].
  unfold chan. case_decide; simplify_eq.
  - rewrite lookup_insert. reflexivity.
  - rewrite lookup_insert_ne by congruence. reflexivity.
Qed.

Lemma down_setp s p x : down (setp s p x) = down s. Proof. reflexivity. Qed.
Lemma down_push_up s a b m : down (push_up s a b m) = down s. Proof. reflexivity. Qed.
Lemma down_push_down s a b m : down (push_down s a b m) = push (down s) a b m. Proof. reflexivity. Qed.
Lemma down_drop_link s c h : down (drop_link s c h) = delete (h, c) (down s). Proof. reflexivity. Qed.
Lemma down_mk a b c : down (PState a b c) = c. Proof. reflexivity. Qed.
Lemma up_setp s p x : up (setp s p x) = up s. Proof. reflexivity. Qed.
Lemma up_push_up s a b m : up (push_up s a b m) = push (up s) a b m. Proof. reflexivity. Qed.
Lemma up_push_down s a b m : up (push_down s a b m) = up s. Proof. reflexivity. Qed.
Lemma up_drop_link s c h : up (drop_link s c h) = delete (c, h) (up s). Proof. reflexivity. Qed.
Lemma up_mk a b c : up (PState a b c) = b. Proof. reflexivity. Qed.
Lemma up_relay s h l m : up (relay s h l m) = up s.
Proof. induction l as [|d l IH]; simpl; [reflexivity|]. exact IH. Qed.

Lemma chan_down_relay s h l m a b :
  exists l', chan (down (relay s h l m)) a b = chan (down s) a b ++ l' /\
             (l' = [] \/ (a = h /\ b ∈ l /\ forall m', m' ∈ l' -> m' = m)).
Proof.
  induction l as [|d l (l' & IH & Hl')].
  - exists []. simpl. rewrite app_nil_r. auto.
  - change (relay s h (d :: l) m) with (push_down (relay s h l m) h d m).
    rewrite down_push_down, chan_push. case_decide as Hd.
    + injection Hd as -> ->.
      exists (l' ++ [m]). rewrite IH, <- app_assoc. split; [reflexivity|]. right. split; [reflexivity|].
      split; [left|]. intros m' Hm'. apply elem_of_app in Hm' as [Hm'|Hm'].
      * destruct Hl' as [->|(_ & _ & H)]; [inversion Hm'|auto].
      * apply elem_of_list_singleton in Hm'. exact Hm'.
    + exists l'. split; [exact IH|]. destruct Hl' as [->|(-> & Hb & H)]; [left; reflexivity|].
      right. split; [reflexivity|]. split; [right; exact Hb|exact H].
Qed.

Lemma chan_down_drop_link_of s c t a b :
  chan (down (drop_link_of s c t)) a b = if decide (t = Some a /\ b = c) then [] else chan (down s) a b.
Proof.
  destruct t as [h|]; simpl.
  - rewrite chan_delete. destruct (decide ((a, b) = (h, c))) as [E|E];
      destruct (decide (Some h = Some a /\ b = c)) as [F|F]; try reflexivity; exfalso.
    + injection E as -> ->. apply F. auto.
    + destruct F as [Fa ->]. injection Fa as ->. apply E. reflexivity.
  - first [reflexivity | case_decide as H; [destruct H; discriminate|reflexivity]].
Qed.
Lemma chan_up_drop_link_of s c t a b :
  chan (up (drop_link_of s c t)) a b = if decide (t = Some b /\ a = c) then [] else chan (up s) a b.
Proof.
  destruct t as [h|]; simpl.
  - rewrite chan_delete. destruct (decide ((a, b) = (c, h))) as [E|E];
      destruct (decide (Some h = Some b /\ a = c)) as [F|F]; try reflexivity; exfalso.
    + injection E as -> ->. apply F. auto.
    + destruct F as [Fa ->]. injection Fa as ->. apply E. reflexivity.
  - first [reflexivity | case_decide as H; [destruct H; discriminate|reflexivity]].
Qed.

Ltac chan_norm :=
  repeat first [ rewrite chan_down_drop_link_of | rewrite chan_up_drop_link_of
               | rewrite down_drop_link | rewrite down_push_up | rewrite down_setp | rewrite down_mk | rewrite down_push_down
               | rewrite up_relay | rewrite up_drop_link | rewrite up_push_up | rewrite up_setp | rewrite up_mk | rewrite up_push_down
               | rewrite chan_delete | rewrite chan_setchan | rewrite chan_push ].

Lemma down_shape s e s' h c : internal e = true -> step s e = Some s' ->
  exists base l, chan (down s') h c = base ++ l /\
    ((e <> EDeliverDown h c /\ base = chan (down s) h c) \/
     (e = EDeliverDown h c /\ exists m0, chan (down s) h c = m0 :: base) \/ base = []) /\
    (l = [] \/ exists a q x, e = EDeliverUp a h /\ head (chan (up s) a h) = Some (NewHost q) /\
                 ps s !! h = Some x /\ c ∈ without a (clients x) /\ forall m, m ∈ l -> m = NewHost q).
Proof.
  intros Hi Hs. destruct e; try discriminate Hi; step_inv Hs.
  all: try (eexists _, []; rewrite app_nil_r; split; [reflexivity|]; split; [|left; reflexivity];
            chan_norm; repeat case_decide; simplify_eq;
            first [ left; split; [intros ?; simplify_eq; naive_solver|reflexivity]
                  | right; right; reflexivity
                  | right; left; split; [reflexivity|eexists; eassumption] ]).
  all: match goal with |- context [relay ?s0 ?h0 ?ds ?m] =>
         destruct (chan_down_relay s0 h0 ds m h c) as (l' & Hrel & Hl'); exists (chan (down s0) h c), l' end;
       (split; [exact Hrel|]); split.
  all: try (chan_norm; repeat case_decide; simplify_eq;
            first [ left; split; [intros ?; simplify_eq|reflexivity] | right; right; reflexivity ]).
  all: destruct Hl' as [->|(-> & Hin & Hall)]; [left; reflexivity|right];
       eexists _, _, _; (split; [reflexivity|]);
       (split; [match goal with H : chan _ _ _ = _ |- _ => rewrite H end; reflexivity|]);
       (split; [eassumption|]); split; assumption.
Qed.

Lemma up_shape s e s' c h : internal e = true -> step s e = Some s' ->
  exists base l, chan (up s') c h = base ++ l /\
    ((e <> EDeliverUp c h /\ base = chan (up s) c h) \/
     (e = EDeliverUp c h /\ exists m0, chan (up s) c h = m0 :: base) \/ base = []) /\
    (l = [] \/
     (l = [NewHost c] /\ e = ESrvUp c /\
        exists x, ps s !! c = Some x /\ client_of x = Some h /\ srv_added x = true /\ srv_state x = SDisconnected) \/
     (l = [ReqInit] /\ e = EVerify c)).
Proof.
  intros Hi Hs. destruct e; try discriminate Hi; step_inv Hs; bool_hyps.
  all: chan_norm; repeat case_decide; simplify_eq.
  all: first [ eexists _, [_]; split; [reflexivity|] | eexists _, []; split; [rewrite app_nil_r; reflexivity|] ].
  all: split;
       [ first [ left; split; [intros ?; simplify_eq|reflexivity]
               | right; right; reflexivity
               | right; left; split; [reflexivity|eexists; eassumption] ]
       | first [ left; reflexivity
               | right; left; split; [reflexivity|]; split; [reflexivity|]; eexists; split_and?; eassumption
               | right; right; split; reflexivity ] ].
Qed.

(* ---------- more "changes only at" lemmas ---------- *)

Lemma srv_added_rises_only_by_promote s e s' p :
  step s e = Some s' -> pget srv_added true s p = false -> pget srv_added false s' p = true ->
  exists h, e = EDeliverDown h p /\ head (chan (down s) h p) = Some Promote.
Proof.
  intros Hs H1 H2. unfold pget in *.
  destruct e; step_inv Hs; pssimpl_in H2; ins_cases_in H2; use_lookups; simpl in *; try congruence;
    try (destruct (ps s !! p) eqn:?; congruence).
  all: try (eexists; split; [reflexivity|]; match goal with H : chan _ _ _ = _ |- _ => rewrite H end; reflexivity).
Qed.

Lemma client_of_changes_only s e s' p :
  step s e = Some s' -> pget client_of None s' p <> pget client_of None s p ->
  (exists h q, e = EDeliverDown h p /\ head (chan (down s) h p) = Some (NewHost q) /\ pget client_of None s' p = Some q) \/
  (exists c q, e = EDeliverUp c p /\ head (chan (up s) c p) = Some (NewHost q) /\ pget client_of None s' p = Some q) \/
  (e = ENotify p /\ pget client_of None s' p = None).
Proof.
  intros Hs H2. unfold pget in *.
  destruct e; step_inv Hs; revert H2; pssimpl; ins_cases; intros H2; use_lookups;
    repeat match goal with H : ps s !! ?q = Some _ |- _ => rewrite H in * end; simpl in *; try congruence.
  all: try match goal with H : chan _ _ _ = _ |- _ =>
         first [ left; eexists _, _; split; [reflexivity|]; split; [rewrite H; reflexivity|reflexivity]
               | right; left; eexists _, _; split; [reflexivity|]; split; [rewrite H; reflexivity|reflexivity] ] end.
  all: try (right; right; split; reflexivity).
Qed.

Lemma deliver_down_head s h c s' : step s (EDeliverDown h c) = Some s' -> exists m, head (chan (down s) h c) = Some m.
Proof. intros Hs. step_inv Hs; simpl; eauto. Qed.
Lemma deliver_up_head s c h s' : step s (EDeliverUp c h) = Some s' -> exists m, head (chan (up s) c h) = Some m.
Proof. intros Hs. step_inv Hs; simpl; eauto. Qed.

Lemma head_elem_of {A} (l : list A) m : head l = Some m -> m ∈ l.
Proof. destruct l; simpl; [discriminate|]. intros [= ->]. left. Qed.

(* the client table of a server grows only when a live RenetClient that targets it connects *)
Lemma clients_grow_only_by_connect s e s' h x x' c :
  step s e = Some s' -> ps s !! h = Some x -> ps s' !! h = Some x' -> c ∈ clients x' -> c ∉ clients x ->
  e = EConnect c /\ pget client_of None s c = Some h /\ pget sticky true s c = false.
Proof.
  intros Hs Hx Hx' Hin Hnin. unfold pget.
  destruct e; step_inv Hs; pssimpl_in Hx'; ins_cases_in Hx'; same_lookup; rewrite ?Hx in *; simplify_eq; simpl in *;
    try contradiction; try (rewrite elem_of_without in Hin; tauto).
  apply elem_of_app in Hin as [Hin|Hin]; [contradiction|]. apply elem_of_list_singleton in Hin. subst c0.
  bool_hyps. match goal with H : ps s !! c = Some _ |- _ => rewrite H end. auto.
Qed.

(* what can happen to an untouched client itself *)
Lemma untouched_self s e s' c x :
  step s e = Some s' -> ps s !! c = Some x -> untouched s c x -> c <> host ->
  exists x', ps s' !! c = Some x' /\
    ((hosting x' = false /\ client_of x' = Some host /\ link_up x' = true /\ cli_state x' = CConnected /\ cli_removed x' = false)
     \/ (e = EDeliverDown host c /\ head (chan (down s) host c) = Some Promote)
     \/ (exists q, e = EDeliverDown host c /\ head (chan (down s) host c) = Some (NewHost q) /\
                   stranded x' /\ client_of x' = Some q /\ flag x' = true)).
Proof.
  intros Hs Hx (U1 & U2 & U3 & U4 & U5 & x0 & U6 & U7 & U8) Hc.
  destruct e; step_inv Hs; pssimpl; ins_cases; same_lookup; rewrite ?Hx; bool_hyps;
    unfold srv_gate, cli_gate in *; simpl; bool_hyps;
    try (eexists; split; [reflexivity|]; left; simpl; split_and?; (assumption || reflexivity));
    try congruence.
  all: repeat match goal with
              | H1 : client_of ?y = Some host, H2 : client_of ?y = Some ?b |- _ =>
                  assert (b = host) by congruence; subst b; clear H2
              end; same_lookup.
  - eexists; split; [reflexivity|]. right; left. split; [reflexivity|]. match goal with H : chan _ _ _ = _ |- _ => rewrite H end. reflexivity.
  - eexists; split; [reflexivity|]. right; right. eexists. split; [reflexivity|]. split; [match goal with H : chan _ _ _ = _ |- _ => rewrite H end; reflexivity|].
    unfold stranded; simpl. split_and?; eauto.
  - match goal with H : is_cdisc (cli_state _) = true |- _ => rewrite U4 in H; discriminate end.
  - exfalso. match goal with H : _ || _ = true |- _ => apply orb_true_iff in H as [H|H] end; bool_hyps; congruence.
Qed.

(* ... and to its entry in the old host's client table *)
Lemma untouched_host s e s' c x x0 :
  step s e = Some s' -> ps s !! c = Some x -> client_of x = Some host -> link_up x = true -> c <> host ->
  ps s !! host = Some x0 -> hosting x0 = true -> c ∈ clients x0 ->
  (forall q, e = EDeliverUp c host -> head (chan (up s) c host) <> Some (NewHost q)) ->
  exists x0', ps s' !! host = Some x0' /\ hosting x0' = true /\ c ∈ clients x0'.
Proof.
  intros Hs Hx U2 U3 Hc U6 U7 U8 Hno.
  destruct e; step_inv Hs; pssimpl; ins_cases; same_lookup; rewrite ?U6; bool_hyps;
    unfold srv_gate, cli_gate in *; simpl; bool_hyps;
    try (eexists; split; [reflexivity|]; simpl; split; (assumption || reflexivity));
    try congruence.
  - destruct (decide (c = c0)) as [->|Hne]; [exfalso; eapply Hno; [reflexivity|match goal with H : chan _ _ _ = _ |- _ => rewrite H end; reflexivity]|].
    eexists; split; [reflexivity|]; simpl. split; [assumption|]. apply elem_of_without. auto.
  - destruct (decide (c = c0)) as [->|Hne]; [exfalso; eapply Hno; [reflexivity|match goal with H : chan _ _ _ = _ |- _ => rewrite H end; reflexivity]|].
    eexists; split; [reflexivity|]; simpl. split; [assumption|]. apply elem_of_without. auto.
  - exfalso. match goal with H : is_nil (clients ?y) = true |- _ => destruct (clients y) end; [inversion U8|discriminate].
  - eexists; split; [reflexivity|]; simpl. split; [assumption|]. apply elem_of_app. left. assumption.
  - eexists; split; [reflexivity|]; simpl. split; [assumption|]. apply elem_of_without. split; [|assumption].
    intros ->. same_lookup.
    match goal with H : _ && _ = false |- _ => apply andb_false_iff in H as [H|H] end; bool_hyps; congruence.
Qed.

Lemma pget_Some {A} (f : ppeer -> A) d s p x : ps s !! p = Some x -> pget f d s p = f x.
Proof. intros H. unfold pget. rewrite H. reflexivity. Qed.

Lemma spi_step k s e s' : roles_inv s -> spi k s -> internal e = true -> step s e = Some s' -> spi k s'.
Proof.
  intros Hinv (Hk & H1 & H2 & H3 & H4 & H5 & H6 & H7 & H8 & H9) Hi Hs.
  pose proof (step_dom _ _ _ Hs) as Hdom.
  assert (Hup : forall c h q, head (chan (up s) c h) = Some (NewHost q) -> q = k /\ c = k /\ h = host).
  { intros c h q Hh. apply head_elem_of in Hh. destruct (H6 _ _ _ Hh) as [?|(? & ? & ?)]; [discriminate|]. simplify_eq. auto. }
  assert (Hold : forall p x', ps s' !! p = Some x' -> exists x, ps s !! p = Some x).
  { intros p x' Hx'. apply (Hdom p). eauto. }
  split; [exact Hk|]. split_and?.
  - (* hosts *)
    intros p x' Hx' Hh. destruct (Hold _ _ Hx') as [x Hx].
    destruct (hosting x) eqn:Hhx; [eapply H1; eauto|].
    destruct (hosting_rises_only_by_promote s e s' p Hs) as (h & -> & Hhead).
    { rewrite (pget_Some _ _ _ _ _ Hx). exact Hhx. } { rewrite (pget_Some _ _ _ _ _ Hx'). exact Hh. }
    apply head_elem_of in Hhead. destruct (H5 _ _ _ Hhead) as (_ & [(? & _)|(_ & -> & _)]); [discriminate|]. right; reflexivity.
  - (* srv_added *)
    intros p x' Hx' Hh. destruct (Hold _ _ Hx') as [x Hx].
    destruct (srv_added x) eqn:Hhx; [eapply H2; eauto|].
    destruct (srv_added_rises_only_by_promote s e s' p Hs) as (h & -> & Hhead).
    { rewrite (pget_Some _ _ _ _ _ Hx). exact Hhx. } { rewrite (pget_Some _ _ _ _ _ Hx'). exact Hh. }
    apply head_elem_of in Hhead. destruct (H5 _ _ _ Hhead) as (_ & [(? & _)|(_ & -> & _)]); [discriminate|]. reflexivity.
  - (* the target of k *)
    intros x' h Hx' Hc. destruct (Hold _ _ Hx') as [x Hx].
    destruct (decide (client_of x = Some h)) as [Heq|Hne]; [eapply H3; eauto|].
    destruct (client_of_changes_only s e s' k Hs) as [(h0 & q & -> & Hhead & Hq)|[(c & q & -> & Hhead & Hq)|(-> & Hq)]].
    { rewrite (pget_Some _ _ _ _ _ Hx), (pget_Some _ _ _ _ _ Hx'). congruence. }
    + apply head_elem_of in Hhead. destruct (H5 _ _ _ Hhead) as (_ & [(_ & ? & _)|(? & _)]); [congruence|discriminate].
    + destruct (Hup _ _ _ Hhead) as (_ & _ & ?). congruence.
    + rewrite (pget_Some _ _ _ _ _ Hx') in Hq. congruence.
  - (* the target of the old host *)
    intros x' h Hx' Hc. destruct (Hold _ _ Hx') as [x Hx].
    destruct (decide (client_of x = Some h)) as [Heq|Hne]; [eapply H4; eauto|].
    destruct (client_of_changes_only s e s' host Hs) as [(h0 & q & -> & Hhead & Hq)|[(c & q & -> & Hhead & Hq)|(-> & Hq)]].
    { rewrite (pget_Some _ _ _ _ _ Hx), (pget_Some _ _ _ _ _ Hx'). congruence. }
    + apply head_elem_of in Hhead. destruct (H5 _ _ _ Hhead) as (_ & [(_ & _ & ?)|(? & _)]); [congruence|discriminate].
    + destruct (Hup _ _ _ Hhead) as (-> & _ & _). rewrite (pget_Some _ _ _ _ _ Hx') in Hq. congruence.
    + rewrite (pget_Some _ _ _ _ _ Hx') in Hq. congruence.
  - (* downstream traffic *)
    intros h c m Hm. destruct (down_shape s e s' h c Hi Hs) as (base & l & Heq & Hbase & Hl).
    rewrite Heq in Hm. apply elem_of_app in Hm as [Hm|Hm].
    + assert (Hmo : m ∈ chan (down s) h c).
      { destruct Hbase as [(_ & <-)|[(_ & m0 & ->)| ->]]; [exact Hm|right; exact Hm|inversion Hm]. }
      destruct (H5 _ _ _ Hmo) as (-> & [(-> & ? & ?)|(-> & -> & Hch & Hhk)]); (split; [reflexivity|]); [left; auto|].
      right. split; [reflexivity|]. split; [reflexivity|].
      destruct Hbase as [(Hne & ->)|[(_ & m0 & Hpop)| ->]]; [|rewrite Hch in Hpop; simplify_eq; inversion Hm|inversion Hm].
      split.
      * rewrite Heq, Hch. destruct Hl as [->|(a & q & x & -> & Hhead & Hx & Hin & _)]; [reflexivity|].
        destruct (Hup _ _ _ Hhead) as (_ & -> & _). apply elem_of_without in Hin. tauto.
      * unfold pget in Hhk |- *. destruct (ps s !! k) as [x|] eqn:Hx; [|discriminate].
        destruct (proj2 (Hdom k) (ex_intro _ x Hx)) as [x' Hx']. rewrite Hx'.
        destruct (hosting x') eqn:Hh'; [|reflexivity]. exfalso.
        destruct (hosting_rises_only_by_promote s e s' k Hs) as (h0 & -> & Hhead).
        { rewrite (pget_Some _ _ _ _ _ Hx). exact Hhk. } { rewrite (pget_Some _ _ _ _ _ Hx'). exact Hh'. }
        apply head_elem_of in Hhead. destruct (H5 _ _ _ Hhead) as (-> & _). apply Hne. reflexivity.
    + destruct Hl as [->|(a & q & x & -> & Hhead & Hx & Hin & Hall)]; [inversion Hm|].
      destruct (Hup _ _ _ Hhead) as (-> & -> & ->). rewrite (Hall _ Hm). split; [reflexivity|]. left.
      apply elem_of_without in Hin as [Hne Hin]. split; [reflexivity|]. split; [exact Hne|].
      destruct Hinv as (_ & Hcl & _). destruct (Hcl _ _ _ Hx Hin) as [? _]. assumption.
  - (* upstream traffic *)
    intros c h m Hm. destruct (up_shape s e s' c h Hi Hs) as (base & l & Heq & Hbase & Hl).
    rewrite Heq in Hm. apply elem_of_app in Hm as [Hm|Hm].
    + apply (H6 c h m). destruct Hbase as [(_ & <-)|[(_ & m0 & ->)| ->]]; [exact Hm|right; exact Hm|inversion Hm].
    + destruct Hl as [->|[(-> & -> & x & Hx & Hco & Hsa & _)|(-> & _)]]; [inversion Hm| |].
      * apply elem_of_list_singleton in Hm as ->. right.
        pose proof (H2 _ _ Hx Hsa) as ->. split; [reflexivity|]. split; [reflexivity|]. eapply H3; eauto.
      * apply elem_of_list_singleton in Hm as ->. left. reflexivity.
  - (* the other clients *)
    intros c x' Hx' Hc0 Hck. destruct (Hold _ _ Hx') as [x Hx].
    destruct (H7 c x Hx Hc0 Hck) as [Hu|(Hst & Hco & Hfl)].
    + destruct (untouched_self s e s' c x Hs Hx Hu Hc0) as (x'' & Hx'' & Hcases).
      rewrite Hx' in Hx''. injection Hx'' as <-.
      destruct Hcases as [(U1 & U2 & U3 & U4 & U5)|[(-> & Hhead)|(q & -> & Hhead & Hst & Hco & Hfl)]].
      * left. unfold untouched. split_and?; try assumption.
        destruct Hu as (_ & V2 & V3 & _ & _ & x0 & V6 & V7 & V8).
        eapply (untouched_host s e s' c x x0); eauto.
        intros q -> Hhead. destruct (Hup _ _ _ Hhead) as (_ & ? & _). contradiction.
      * exfalso. apply head_elem_of in Hhead. destruct (H5 _ _ _ Hhead) as (_ & [(? & _)|(_ & ? & _)]); [discriminate|contradiction].
      * right. apply head_elem_of in Hhead. destruct (H5 _ _ _ Hhead) as (_ & [(Hq & _)|(? & _)]); [|discriminate].
        injection Hq as ->. auto.
    + right. destruct (stranded_frozen s e s' c x Hs Hx Hst) as (x'' & Hx'' & Hst' & Hco' & Hfl').
      rewrite Hx' in Hx''. injection Hx'' as <-. split; [exact Hst'|]. split; congruence.
  - (* the window of k *)
    intros x' Hx' Hh. destruct (Hold _ _ Hx') as [x Hx].
    destruct (hosting x) eqn:Hhx.
    + destruct (window_step s e s' k x Hx Hhx (H8 x Hx Hhx) Hs) as (x'' & Hx'' & _ & Hw).
      * intros c q -> Hhead. destruct (Hup _ _ _ Hhead) as (_ & _ & ?). contradiction.
      * intros h ->. exfalso. destruct (deliver_down_head _ _ _ _ Hs) as [m Hhead]. apply head_elem_of in Hhead.
        destruct (H5 _ _ _ Hhead) as (_ & [(_ & ? & _)|(_ & _ & _ & Hhk)]); [congruence|].
        rewrite (pget_Some _ _ _ _ _ Hx) in Hhk. congruence.
      * rewrite Hx' in Hx''. injection Hx'' as <-. exact Hw.
    + destruct (hosting_rises_only_by_promote s e s' k Hs) as (h & -> & Hhead).
      { rewrite (pget_Some _ _ _ _ _ Hx). exact Hhx. } { rewrite (pget_Some _ _ _ _ _ Hx'). exact Hh. }
      destruct (promote_opens_window s h k s' Hinv Hs Hhead) as (x'' & Hx'' & _ & _ & Hw).
      { rewrite (pget_Some _ _ _ _ _ Hx). exact Hhx. }
      rewrite Hx' in Hx''. injection Hx'' as <-. exact Hw.
  - (* the clients of k *)
    intros x' c Hx' Hin. destruct (Hold _ _ Hx') as [x Hx].
    destruct (decide (c ∈ clients x)) as [Hc|Hc]; [eapply H9; eauto|].
    destruct (clients_grow_only_by_connect s e s' k x x' c Hs Hx Hx' Hin Hc) as (-> & Hco & Hsk).
    unfold pget in Hco, Hsk. destruct (ps s !! c) as [y|] eqn:Hy; [|discriminate].
    destruct (decide (c = host)) as [->|Hc0]; [reflexivity|]. exfalso.
    destruct (decide (c = k)) as [->|Hck].
    + apply Hk. eapply H3; eauto.
    + destruct (H7 c y Hy Hc0 Hck) as [(_ & U2 & _)|((_ & S2 & _) & _)]; [|congruence].
      rewrite U2 in Hco. injection Hco as Hco. apply Hk. symmetry. exact Hco.
Qed.

Lemma spi_hosting_step k s e s' :
  roles_inv s -> spi k s -> internal e = true -> step s e = Some s' ->
  pget hosting false s k = true -> pget hosting false s' k = true.
Proof.
  intros Hinv (Hk & H1 & H2 & H3 & H4 & H5 & H6 & H7 & H8 & H9) Hi Hs Hh.
  unfold pget in Hh. destruct (ps s !! k) as [x|] eqn:Hx; [|discriminate].
  destruct (window_step s e s' k x Hx Hh (H8 x eq_refl Hh) Hs) as (x'' & Hx'' & Hh' & _).
  - intros c q -> Hhead. apply head_elem_of in Hhead.
    destruct (H6 _ _ _ Hhead) as [?|(_ & _ & ?)]; [discriminate|contradiction].
  - intros h ->. exfalso. destruct (deliver_down_head _ _ _ _ Hs) as [m Hhead]. apply head_elem_of in Hhead.
    destruct (H5 _ _ _ Hhead) as (_ & [(_ & ? & _)|(_ & _ & _ & Hhk)]); [congruence|].
    rewrite (pget_Some _ _ _ _ _ Hx) in Hhk. congruence.
  - rewrite (pget_Some _ _ _ _ _ Hx''). exact Hh'.
Qed.

Lemma spi_run k tr : forall s s', roles_inv s -> spi k s -> all_internal tr -> run s tr = Some s' ->
  roles_inv s' /\ spi k s' /\ (pget hosting false s k = true -> pget hosting false s' k = true).
Proof.
  induction tr as [|e tr IH]; intros s s' Hinv Hspi Hall Hrun; simpl in Hrun.
  - inversion Hrun; subst. split; [assumption|split; [assumption|intros H; exact H]].
  - destruct (step s e) as [s1|] eqn:Hs; [|discriminate]. apply Forall_cons in Hall as [Hi Hall].
    destruct (IH s1 s' (roles_inv_step _ _ _ Hinv Hs) (spi_step _ _ _ _ Hinv Hspi Hi Hs) Hall Hrun) as (A & B & C).
    split; [exact A|]. split; [exact B|]. intros Hh. apply C. exact (spi_hosting_step _ _ _ _ Hinv Hspi Hi Hs Hh).
Qed.

(* ---------- the state right after the request ---------- *)

Lemma promoted_eq n k : k ∈ client_ids n ->
  step (session n) (EPromote host k) = Some (promoted n k) /\ promoted n k = push_down (session n) host k Promote.
Proof.
  intros Hk. assert (Hk0 : k <> host) by (apply elem_of_client_ids in Hk; unfold host; lia).
  assert (Hstep : step (session n) (EPromote host k) = Some (push_down (session n) host k Promote)).
  { unfold step. rewrite !session_lookup. rewrite decide_True by reflexivity.
    rewrite (decide_False _ _ Hk0), (decide_True _ _ Hk).
    unfold srv_gate, idle_host; simpl. rewrite (bool_decide_eq_true_2 _ Hk). reflexivity. }
  unfold promoted. rewrite Hstep. auto.
Qed.

Lemma spi_promoted n k : k ∈ client_ids n -> roles_inv (promoted n k) /\ spi k (promoted n k).
Proof.
  intros Hk. destruct (promoted_eq n k Hk) as [Hstep Heq].
  split; [eapply roles_inv_step; [apply roles_inv_session|exact Hstep]|].
  assert (Hk0 : k <> host) by (apply elem_of_client_ids in Hk; unfold host; lia).
  rewrite Heq.
  assert (Hl : forall p, ps (push_down (session n) host k Promote) !! p = ps (session n) !! p) by reflexivity.
  assert (Hd : forall h c, chan (down (push_down (session n) host k Promote)) h c =
                           if decide ((h, c) = (host, k)) then [Promote] else []).
  { intros h c. rewrite down_push_down, chan_push. unfold session; simpl. unfold chan. rewrite !lookup_empty. reflexivity. }
  assert (Hu : forall c h, chan (up (push_down (session n) host k Promote)) c h = []).
  { intros c h. unfold chan, session; simpl. rewrite lookup_empty. reflexivity. }
  split; [exact Hk0|]. split_and?.
  - intros p x Hx Hh. rewrite Hl, session_lookup in Hx. repeat case_decide; simplify_eq; simpl in *; try discriminate; auto.
  - intros p x Hx Hh. rewrite Hl, session_lookup in Hx. repeat case_decide; simplify_eq; simpl in *; discriminate.
  - intros x h Hx Hc. rewrite Hl, session_lookup in Hx. repeat case_decide; simplify_eq; simpl in *; try discriminate; try congruence.
  - intros x h Hx Hc. rewrite Hl, session_lookup in Hx. repeat case_decide; simplify_eq; simpl in *; try discriminate; try congruence.
  - intros h c m Hm. rewrite Hd in Hm. case_decide as Hhc; [|inversion Hm]. injection Hhc as -> ->.
    apply elem_of_list_singleton in Hm as ->. split; [reflexivity|]. right. split; [reflexivity|]. split; [reflexivity|].
    split; [rewrite Hd, decide_True by reflexivity; reflexivity|].
    unfold pget. rewrite Hl, session_lookup, (decide_False _ _ Hk0), (decide_True _ _ Hk). reflexivity.
  - intros c h m Hm. rewrite Hu in Hm. inversion Hm.
  - intros c x Hx Hc0 Hck. rewrite Hl, session_lookup in Hx. rewrite (decide_False _ _ Hc0) in Hx.
    case_decide as Hc; simplify_eq. left. unfold untouched, idle_client; simpl. split_and?; try reflexivity.
    exists (idle_host (client_ids n)). rewrite Hl, session_lookup, decide_True by reflexivity. auto.
  - intros x Hx Hh. rewrite Hl, session_lookup in Hx. rewrite (decide_False _ _ Hk0), (decide_True _ _ Hk) in Hx.
    simplify_eq; simpl in *; try discriminate.
  - intros x c Hx Hc. rewrite Hl, session_lookup in Hx. rewrite (decide_False _ _ Hk0), (decide_True _ _ Hk) in Hx.
    simplify_eq; simpl in *; try (inversion Hc).
Qed.

Lemma run_dom tr : forall s s', run s tr = Some s' -> forall p, is_Some (ps s' !! p) <-> is_Some (ps s !! p).
Proof.
  induction tr as [|e tr IH]; intros s s' Hrun p; simpl in Hrun.
  - inversion Hrun; subst. reflexivity.
  - destruct (step s e) as [s1|] eqn:Hs; [|discriminate]. rewrite (IH _ _ Hrun). apply (step_dom _ _ _ Hs).
Qed.

(* ---------- the theorems ---------- *)

(* (1) whatever the application does (any number of promotions, of anybody, at any time) *)
Theorem promotion_preserves_roles_invariant n tr s : run (session n) tr = Some s -> roles_inv s.
Proof. intros Hrun. eapply roles_inv_run; [apply roles_inv_session|exact Hrun]. Qed.
Print Assumptions promotion_preserves_roles_invariant.

(* (2) one promotion in a session of any size: at every point of every run *)
Theorem single_promotion_invariant n k tr s :
  k ∈ client_ids n -> all_internal tr -> run (promoted n k) tr = Some s -> roles_inv s /\ spi k s.
Proof.
  intros Hk Hall Hrun. destruct (spi_promoted n k Hk) as [Hinv Hspi].
  destruct (spi_run k tr _ _ Hinv Hspi Hall Hrun) as (A & B & _). auto.
Qed.
Print Assumptions single_promotion_invariant.

Lemma elem_of_hosts s p : p ∈ hosts s <-> exists x, ps s !! p = Some x /\ hosting x = true.
Proof.
  unfold hosts. rewrite elem_of_list_fmap. split.
  - intros ([q x] & -> & Hin). apply elem_of_list_filter in Hin as [Hh Hin]. apply elem_of_map_to_list in Hin. eauto.
  - intros (x & Hx & Hh). exists (p, x). split; [reflexivity|]. apply elem_of_list_filter. split; [exact Hh|].
    apply elem_of_map_to_list. exact Hx.
Qed.

Corollary at_most_two_hosts n k tr s :
  k ∈ client_ids n -> all_internal tr -> run (promoted n k) tr = Some s -> forall p, p ∈ hosts s -> p = host \/ p = k.
Proof.
  intros Hk Hall Hrun p Hp. destruct (single_promotion_invariant n k tr s Hk Hall Hrun) as (_ & _ & H1 & _).
  apply elem_of_hosts in Hp as (x & Hx & Hh). eauto.
Qed.

(* a promoted peer that hosts keeps hosting *)
Corollary promoted_host_keeps_hosting n k tr s tr' s' :
  k ∈ client_ids n -> all_internal tr -> run (promoted n k) tr = Some s ->
  all_internal tr' -> run s tr' = Some s' ->
  pget hosting false s k = true -> pget hosting false s' k = true.
Proof.
  intros Hk Hall Hrun Hall' Hrun' Hh. destruct (single_promotion_invariant n k tr s Hk Hall Hrun) as (Hinv & Hspi).
  destruct (spi_run k tr' _ _ Hinv Hspi Hall' Hrun') as (_ & _ & C). auto.
Qed.

(* S8 for every n: with a second client c the promotion NEVER reaches its goal -- at no point of any
   run; c is an ordinary client of the old host until it obeys NewHost, stranded from then on, and
   never enters the client table of the new host *)
Theorem C07_never_with_more_clients n k c tr s :
  k ∈ client_ids n -> c ∈ client_ids n -> c <> k -> all_internal tr -> run (promoted n k) tr = Some s ->
  (exists x, ps s !! c = Some x /\ (untouched s c x \/ (stranded x /\ client_of x = Some k /\ flag x = true))) /\
  (forall d, d ∈ pget clients [] s k -> d = host) /\
  ~ session_ok s k.
Proof.
  intros Hk Hc Hck Hall Hrun. destruct (single_promotion_invariant n k tr s Hk Hall Hrun) as (Hinv & Hspi).
  destruct Hspi as (Hk0 & H1 & H2 & H3 & H4 & H5 & H6 & H7 & H8 & H9).
  assert (Hc0 : c <> host) by (apply elem_of_client_ids in Hc; unfold host; lia).
  assert (Hdom : is_Some (ps s !! c)).
  { apply (run_dom _ _ _ Hrun). destruct (promoted_eq n k Hk) as [_ ->]. rewrite ps_push_down, session_lookup.
    rewrite (decide_False _ _ Hc0), (decide_True _ _ Hc). eauto. }
  destruct Hdom as [x Hx]. pose proof (H7 c x Hx Hc0 Hck) as Hcase.
  split; [eauto|]. split.
  - intros d Hd. unfold pget in Hd. destruct (ps s !! k) as [xk|] eqn:Hxk; [|inversion Hd]. eapply H9; eauto.
  - intros [_ Hok]. destruct (Hok c x Hx Hck) as (Hco & Hl & _).
    destruct Hcase as [(_ & U2 & _)|((_ & _ & S3 & _) & _)]; [|congruence].
    rewrite U2 in Hco. injection Hco as Hco. apply Hk0. symmetry. exact Hco.
Qed.
Print Assumptions C07_never_with_more_clients.

(* the hypotheses are satisfiable and the disjunction is not vacuous: in the S8 witness state peer 2 is
   in its second case *)
Example C07_never_example :
  exists x, ps s8_state !! 2 = Some x /\ stranded x /\ client_of x = Some 1 /\ flag x = true.
Proof. eexists. split; [vm_compute; reflexivity|]. vm_compute. repeat split; eauto. Qed.

(* (3) a promoted peer that hosts keeps hosting, in ANY session and whatever else goes on (other
   promotions included), as long as it does not itself handle another promotion message *)
Theorem hosting_after_promotion s h p s1 tr s' :
  roles_inv s -> step s (EDeliverDown h p) = Some s1 -> head (chan (down s) h p) = Some Promote ->
  pget hosting true s p = false ->
  run s1 tr = Some s' -> quiet_for p s1 tr -> pget hosting false s' p = true.
Proof.
  intros Hinv Hs Hhead Hnh Hrun Hq.
  destruct (promote_opens_window s h p s1 Hinv Hs Hhead Hnh) as (x1 & Hx1 & Hh1 & _ & Hw1).
  clear Hs Hhead Hnh Hinv. revert s1 x1 Hx1 Hh1 Hw1 Hrun Hq.
  induction tr as [|e tr IH]; intros s1 x1 Hx1 Hh1 Hw1 Hrun Hq; simpl in Hrun, Hq.
  - inversion Hrun; subst. rewrite (pget_Some _ _ _ _ _ Hx1). exact Hh1.
  - destruct Hq as [Hnot Hq]. destruct (step s1 e) as [s2|] eqn:Hs; [|discriminate].
    destruct (window_step s1 e s2 p x1 Hx1 Hh1 Hw1 Hs) as (x2 & Hx2 & Hh2 & Hw2).
    + intros c q -> Hc. apply Hnot. left. eauto.
    + intros h' ->. destruct (decide (head (chan (down s1) h' p) = Some ReqInit)) as [Hy|Hn]; [exact Hy|].
      exfalso. apply Hnot. right. eauto.
    + eapply IH; eauto.
Qed.
Print Assumptions hosting_after_promotion.

Definition handles_promo_msgb (s : pstate) (e : pevent) (p : peer) : bool :=
  match e with
  | EDeliverUp c p' => bool_decide (p' = p) && match head (chan (up s) c p) with Some (NewHost _) => true | _ => false end
  | EDeliverDown h p' => bool_decide (p' = p) && negb (bool_decide (head (chan (down s) h p) = Some ReqInit))
  | _ => false
  end.
Lemma handles_promo_msgb_complete s e p : handles_promo_msg s e p -> handles_promo_msgb s e p = true.
Proof.
  intros [(c & q & -> & Hh)|(h & -> & Hh)]; simpl.
  - rewrite bool_decide_eq_true_2 by reflexivity. rewrite Hh. reflexivity.
  - rewrite bool_decide_eq_true_2 by reflexivity. rewrite bool_decide_eq_false_2 by exact Hh. reflexivity.
Qed.
Fixpoint quiet_forb (p : peer) (s : pstate) (tr : list pevent) : bool :=
  match tr with
  | [] => true
  | e :: tr => negb (handles_promo_msgb s e p) && match step s e with Some s' => quiet_forb p s' tr | None => true end
  end.
Lemma quiet_forb_true p tr : forall s, quiet_forb p s tr = true -> quiet_for p s tr.
Proof.
  induction tr as [|e tr IH]; intros s Hq; simpl in *; [exact I|].
  apply andb_true_iff in Hq as [Hn Hq]. split.
  - intros Hh. apply handles_promo_msgb_complete in Hh. rewrite Hh in Hn. discriminate.
  - destruct (step s e); [apply IH; exact Hq|exact I].
Qed.

(* non-vacuity: the promoted peer of the S8 run; the rest of that run is quiet for peer 1 *)
Example hosting_after_promotion_example :
  let s1 := default (session 2) (step (promoted 2 1) (EDeliverDown 0 1)) in
  step (promoted 2 1) (EDeliverDown 0 1) = Some s1 /\
  head (chan (down (promoted 2 1)) 0 1) = Some Promote /\
  pget hosting true (promoted 2 1) 1 = false /\
  run s1 (tail s8_run) = Some s8_state /\ quiet_for 1 s1 (tail s8_run).
Proof.
  cbv zeta. split; [vm_compute; reflexivity|]. split; [vm_compute; reflexivity|]. split; [vm_compute; reflexivity|].
  split; [vm_compute; reflexivity|]. apply quiet_forb_true. vm_compute. reflexivity.
Qed.

(* what the real code shows 30 frames after the promotion in a 3-peer session (harness scenario
   "PEERS 3 / setup x3 / ROUND 10 / OP 0 promote 1 / ROUND 30"): the S8 run up to the netcode time-out
   of the old host (15 s), which is the only thing still to happen *)
Example s8_as_observed :
  (fun s => (roles s, enabled s)) <$> run (promoted 2 1) (take 12 s8_run)
  = Some ([(0, (true, SConnected, [2], Some 1, CConnected, true, false, false));
           (1, (true, SConnected, [0], None, CDisconnected, false, true, false));
           (2, (false, SDisconnected, [], Some 1, CConnected, false, true, true))], [ETimeout 0 2]).
Proof. vm_compute. reflexivity. Qed.

(* ================================================================================================
   Part 6: a chain of promotions (two peers): promote 1, then promote 0 back
   ================================================================================================ *)

(* The first hand-over has exactly two outcomes.  They differ in ONE bit: whether the kick
   (server.disconnect(1) on the old host) reached peer 1's RenetClient while peer 1 still had its
   old client transport (ELinkDown 1 before ENotify 1) -- on a real network it does. *)
Definition finals1 : list pstate := filter (fun s => stableb s = true) R1.
Example finals1_roles :
  roles <$> finals1 = [ [(0, (false, SDisconnected, [], Some 1, CConnected, true, false, false));
                         (1, (true, SConnected, [0], None, CDisconnected, false, true, false))];
                        [(0, (false, SDisconnected, [], Some 1, CConnected, true, false, false));
                         (1, (true, SConnected, [0], None, CDisconnected, false, false, false))] ].
Proof. vm_compute. reflexivity. Qed.

Definition new_host_alive (F : pstate) : bool := negb (pget sticky true F 1).

Definition chain_good (F s : pstate) : bool := if new_host_alive F then handed_overb s 0 1 else chain_brokenb s 1 0.
Lemma chain_checked :
  forallb (fun F => let s0 := promote_in F 1 0 in
                    let R := default [] (explore 1000 [s0] []) in
                    inb s0 R && checkb (chain_good F) R) finals1 = true.
Proof. vm_cast_no_check (eq_refl true). Qed.

Lemma promote_back_enabled : forallb (fun F => bool_decide (step F (EPromote 1 0) = Some (promote_in F 1 0))) finals1 = true.
Proof. vm_compute. reflexivity. Qed.

(* C07_chain_of_promotions: the roles can be swapped back if and only if the RenetClient of the
   first promoted peer survived the first hand-over.  If it did not (the normal case), the second
   promotion ends -- in every interleaving -- with peer 0 hosting nobody, its flag stuck, and peer 1
   in ClientState::Connecting for ever. *)
Theorem C07_chain_of_promotions :
  forall tr F, all_internal tr -> run (promoted 1 1) tr = Some F -> stable F ->
    step F (EPromote 1 0) = Some (promote_in F 1 0) /\
    forall tr' s, all_internal tr' -> run (promote_in F 1 0) tr' = Some s ->
      (length tr' + measure s <= measure (promote_in F 1%N 0%N))%nat /\
      (stable s -> if new_host_alive F then handed_over s 0 1 else chain_broken s 1 0) /\
      (exists tr'' s', all_internal tr'' /\ run s tr'' = Some s' /\ stable s').
Proof.
  intros tr F Hall Hrun Hst.
  destruct (check_run _ _ R1_checked _ _ _ R1_start Hall Hrun) as [Hin _].
  assert (HF : F ∈ finals1).
  { unfold finals1. apply elem_of_list_filter. split; [apply stableb_true; exact Hst|exact Hin]. }
  pose proof chain_checked as Hc. rewrite forallb_forall in Hc.
  specialize (Hc F (proj1 (elem_of_list_In _ _) HF)). cbv zeta in Hc.
  apply andb_true_iff in Hc as [Hs0 Hc]. apply inb_true in Hs0.
  pose proof promote_back_enabled as Hp. rewrite forallb_forall in Hp.
  specialize (Hp F (proj1 (elem_of_list_In _ _) HF)). apply bool_decide_eq_true in Hp.
  split; [exact Hp|]. intros tr' s Hall' Hrun'.
  destruct (check_run _ _ Hc _ _ _ Hs0 Hall' Hrun') as [Hin' Hle].
  split; [exact Hle|]. split.
  - intros Hst'. pose proof (check_stable _ _ _ Hc Hin' Hst') as Hg. unfold chain_good in Hg.
    destruct (new_host_alive F); [apply handed_overb_true|apply chain_brokenb_true]; exact Hg.
  - destruct (check_completes _ _ Hc _ Hin') as (tr'' & s' & H1 & H2 & H3 & _). eauto.
Qed.
Print Assumptions C07_chain_of_promotions.

(* both cases occur *)
Example chain_alive_reachable :
  exists tr F, all_internal tr /\ run (promoted 1 1) tr = Some F /\ stable F /\ new_host_alive F = true.
Proof.
  exists (tail ex_one_client), (default (session 1) (run (promoted 1 1) (tail ex_one_client))).
  split; [unfold all_internal; repeat constructor|]. split; [vm_compute; reflexivity|].
  split; [apply stableb_true; vm_compute; reflexivity|vm_compute; reflexivity].
Qed.
Example chain_dead_reachable :
  exists tr F, all_internal tr /\ run (promoted 1 1) tr = Some F /\ stable F /\ new_host_alive F = false.
Proof.
  exists (tail ex_one_client_kicked), (default (session 1) (run (promoted 1 1) (tail ex_one_client_kicked))).
  split; [unfold all_internal; repeat constructor|]. split; [vm_compute; reflexivity|].
  split; [apply stableb_true; vm_compute; reflexivity|vm_compute; reflexivity].
Qed.

Theorem C07_chain_refuted : ~ C07_chain_statement.
Proof.
  intros Hst. destruct chain_dead_reachable as (tr & F & Hall & Hrun & HstF & Hdead).
  destruct (C07_chain_of_promotions tr F Hall Hrun HstF) as [_ Hc].
  destruct (Hc [] (promote_in F 1 0) ltac:(constructor) eq_refl) as (_ & _ & tr'' & s' & Hall'' & Hrun'' & Hst').
  pose proof (Hst tr F Hall Hrun HstF tr'' s' Hall'' Hrun'' Hst') as Hgood.
  destruct (Hc tr'' s' Hall'' Hrun'') as (_ & Hbad & _). specialize (Hbad Hst'). rewrite Hdead in Hbad.
  destruct Hgood as [(x & y & Hps & _ & Hx & _) _]. destruct Hbad as [(x' & y' & Hps' & _ & _ & _ & Hcl & _) _].
  assert (H0 : ps s' !! (0 : peer) = Some x) by (rewrite Hps; apply lookup_insert).
  assert (H0' : ps s' !! (0 : peer) = Some x') by (rewrite Hps'; apply lookup_insert).
  rewrite H0 in H0'. injection H0' as <-. destruct Hx as (_ & _ & _ & _ & Hcl' & _). congruence.
Qed.
Print Assumptions C07_chain_refuted.

(* the failing second promotion, event by event *)
Definition ex_chain_broken : list pevent :=
  tail ex_one_client_kicked ++
  [EPromote 1 0; EDeliverDown 1 0; ESrvUp 0; EDeliverUp 0 1; ENotify 1; ESrvDown 1; ECliConnecting 1; ELinkDown 0].
Example ex_chain_broken_runs :
  (fun s => (roles s, stableb s, chain_brokenb s 1 0)) <$> run (promoted 1 1) ex_chain_broken
  = Some ([(0, (true, SConnected, [], Some 1, CConnected, false, true, true));
           (1, (false, SDisconnected, [], Some 0, CConnecting, false, true, false))], true, true).
Proof. vm_compute. reflexivity. Qed.
(* and the succeeding one (possible only if the kick notice lost the race in the first hand-over) *)
Definition ex_chain_ok : list pevent :=
  tail ex_one_client ++
  [EPromote 1 0; EDeliverDown 1 0; ESrvUp 0; EDeliverUp 0 1; ENotify 1; ESrvDown 1; ECliConnecting 1;
   EConnect 1; ENotify 0; ECliDown 0; EVerify 1; EDeliverUp 1 0].
Example ex_chain_ok_runs :
  (fun s => (roles s, stableb s, bool_decide (s = session 1))) <$> run (promoted 1 1) ex_chain_ok
  = Some ([(0, (true, SConnected, [1], None, CDisconnected, false, false, false));
           (1, (false, SDisconnected, [], Some 0, CConnected, true, false, false))], true, true).
Proof. vm_compute. reflexivity. Qed.
