(* Proofs about the event-level model of host promotion (Promotion.v) after the repairs of S9 / S8:
   (1) both handlers of NewHost insert a NEW RenetClient together with the new client transport;
   (2) commit b8e47f4: tracker flag closing_server_after_promotion ([closing]), set by the old host's
       NewHost handler, tested next to the flag when a ClientDisconnected finds the client table empty;
       the client's NewHost handler no longer sets host_promotion_in_progress.

   Part 0-1  the enumeration of internal events is complete; [stable] is decidable; soundness of the
             exhaustive checks [checkb] (lists) and [checkb_h] (hash table): closed set + decreasing
             measure + good stable states = [checked].
   Part 2    C07_single_client_promotion, C07_single_client (= C07_statement 1 1): one client, every
             interleaving, termination measure [measure] (at most 36 events).
   Part 3    one step seen from one peer (any N, any event): sticky_resets_only_by_newhost,
             stranded_frozen, stranded_never_connects (a peer with a dead RenetClient, ClientState
             Connected and no server can never have it replaced).
   Part 4    invariants for every N: promotion_preserves_roles_invariant (any events), hosting / flag /
             closing "change only at" lemmas, window_step / hosting_after_promotion,
             hosting_without_flag, closing_closes, channel shapes, single_promotion_invariant [spi],
             at_most_two_hosts, promoted_host_keeps_hosting, C07_other_clients (every other client is
             untouched or MOVED to k with a fresh RenetClient that stays alive; flags never set; nobody
             stranded), old_host_closing (the old host, while it has its server after the hand-over,
             is closing: verify_client_connected cannot make it keep the server),
             old_host_closing_persists (that is absorbing).
   Part 5    C07 with two and three clients, every interleaving, with termination measure:
             C07_two_clients_promotion, C07_two_clients (= C07_statement 2 1),
             C07_three_clients_promotion, C07_three_clients (= C07_statement 3 1), C07_two_clients_other
             (= C07_statement 2 2), C07_all_n_statement / C07_all_n_partial.
   Part 6    chains: C07_chain_of_promotions_repaired (three promotions), C07_chain
             (= C07_chain_statement), C07_chain_forever (chains of any length).

   Open: the decrease of [measure] and "every stable state is session_ok" are proved on the complete
   reachable sets for 2, 3 and 4 peers (by computation), not for arbitrary n; for arbitrary n the
   safety properties of Part 4 hold at every point of every run. *)
From Coq Require Import NArith List Lia.
From stdpp Require Import gmap list.
From RecordUpdate Require Import RecordSet.
From BS Require Import Abs.Promotion.
Import RecordSetNotations.

Local Open Scope N_scope.

(* ================================================================================================
   Part 0: the enumeration of events is complete; stability is decidable
   ================================================================================================ *)

Lemma elem_of_peers_of s p : p ∈ peers_of s <-> is_Some (ps s !! p).
Proof.
  unfold peers_of. rewrite elem_of_list_fmap. split.
  - intros [[q x] [-> Hin]]. apply elem_of_map_to_list in Hin. simpl. eauto.
  - intros [x Hx]. exists (p, x). split; [reflexivity|]. apply elem_of_map_to_list. exact Hx.
Qed.

Lemma step_peers s e s' : step s e = Some s' -> Forall (fun p => is_Some (ps s !! p)) (epeers e).
Proof.
  intros Hs. destruct e as [h c|h c|c h|p|p|p|p|p|h|c|c|h c]; simpl in Hs |- *;
    repeat match goal with
           | H : context [ps s !! ?q] |- _ =>
               lazymatch goal with
               | Hq : ps s !! q = _ |- _ => fail
               | _ => destruct (ps s !! q) eqn:?; try discriminate
               end
           end;
    repeat constructor; eauto.
Qed.

Lemma in_events1 s p e : p ∈ peers_of s -> e ∈ events1 p -> e ∈ events_of s.
Proof.
  intros Hp He. unfold events_of. apply elem_of_app. left. apply elem_of_list_bind. exists p. split; assumption.
Qed.
Lemma in_events2 s a b e : a ∈ peers_of s -> b ∈ peers_of s -> e ∈ events2 a b -> e ∈ events_of s.
Proof.
  intros Ha Hb He. unfold events_of. apply elem_of_app. right. apply elem_of_list_bind. exists a. split; [|assumption].
  apply elem_of_list_bind. exists b. split; assumption.
Qed.

Lemma events_of_complete s e s' : internal e = true -> step s e = Some s' -> e ∈ events_of s.
Proof.
  intros Hi Hs. pose proof (step_peers _ _ _ Hs) as Hp.
  destruct e as [h c|h c|c h|p|p|p|p|p|h|c|c|h c]; simpl in Hi, Hp; try discriminate;
    repeat match goal with H : Forall _ (_ :: _) |- _ => apply Forall_cons in H as [? H] end;
    repeat match goal with H : is_Some (ps s !! _) |- _ => apply elem_of_peers_of in H end.
  - apply (in_events2 s h c); [assumption..|]. unfold events2. repeat constructor.
  - apply (in_events2 s c h); [assumption..|]. unfold events2. repeat constructor.
  - apply (in_events1 s p); [assumption|]. unfold events1. repeat constructor.
  - apply (in_events1 s p); [assumption|]. unfold events1. repeat constructor.
  - apply (in_events1 s p); [assumption|]. unfold events1. repeat constructor.
  - apply (in_events1 s p); [assumption|]. unfold events1. repeat constructor.
  - apply (in_events1 s p); [assumption|]. unfold events1. repeat constructor.
  - apply (in_events1 s h); [assumption|]. unfold events1. repeat constructor.
  - apply (in_events1 s c); [assumption|]. unfold events1. repeat constructor.
  - apply (in_events1 s c); [assumption|]. unfold events1. repeat constructor.
  - apply (in_events2 s h c); [assumption..|]. unfold events2. repeat constructor.
Qed.

Lemma events_of_internal s e : e ∈ events_of s -> internal e = true.
Proof.
  unfold events_of. rewrite elem_of_app, !elem_of_list_bind.
  intros [(p & He & _)|(a & He & _)].
  - unfold events1 in He. set_unfold. naive_solver.
  - apply elem_of_list_bind in He as (b & He & _). unfold events2 in He. set_unfold. naive_solver.
Qed.

Lemma stableb_true s : stableb s = true <-> stable s.
Proof.
  unfold stableb, stable. rewrite forallb_forall. split.
  - intros H e Hi. destruct (step s e) as [s'|] eqn:Hs; [|reflexivity].
    specialize (H e). rewrite Hs in H. exfalso.
    assert (false = true) by (apply H, elem_of_list_In; eapply events_of_complete; eauto). discriminate.
  - intros H e Hin. rewrite H; [reflexivity|]. apply elem_of_list_In in Hin. eapply events_of_internal; eauto.
Qed.

Global Instance stable_dec s : Decision (stable s).
Proof. destruct (stableb s) eqn:H; [left; apply stableb_true; exact H|right; intros Hs; apply stableb_true in Hs; congruence]. Defined.

Lemma not_stable s : ~ stable s -> exists e s', internal e = true /\ step s e = Some s'.
Proof.
  intros Hn. destruct (stableb s) eqn:Hb; [exfalso; apply Hn, stableb_true; exact Hb|].
  unfold stableb in Hb. apply not_true_iff_false in Hb. rewrite forallb_forall in Hb.
  destruct (decide (Exists (fun e => is_Some (step s e)) (events_of s))) as [Hex|Hnex].
  - apply Exists_exists in Hex as (e & Hin & [s' Hs']). exists e, s'. split; [|exact Hs'].
    eapply events_of_internal; eauto.
  - exfalso. apply Hb. intros e Hin. destruct (step s e) eqn:Hs; [|reflexivity].
    exfalso. apply Hnex. apply Exists_exists. exists e. split; [apply elem_of_list_In; exact Hin|eauto].
Qed.

(* ================================================================================================
   Part 1: soundness of the exhaustive check
   ================================================================================================ *)

Lemma inb_true s R : inb s R = true <-> s ∈ R.
Proof. unfold inb. apply bool_decide_eq_true. Qed.

(* what a successful check establishes: R is closed under internal events, every such event decreases
   the measure, and every stable state of R is good *)
Definition checked (good : pstate -> bool) (R : list pstate) : Prop :=
  forall s, s ∈ R ->
    (forall e s', internal e = true -> step s e = Some s' -> s' ∈ R /\ (measure s' < measure s)%nat) /\
    (stable s -> good s = true).

Lemma checkb_checked good R : checkb good R = true -> checked good R.
Proof.
  unfold checkb. rewrite forallb_forall. intros Hc s Hin.
  specialize (Hc s (proj1 (elem_of_list_In _ _) Hin)). apply andb_true_iff in Hc as [Hc Hg]. split.
  - intros e s' Hi Hs. rewrite forallb_forall in Hc.
    specialize (Hc e (proj1 (elem_of_list_In _ _) (events_of_complete _ _ _ Hi Hs))).
    rewrite Hs in Hc. apply andb_true_iff in Hc as [H1 H2]. split; [apply inb_true; exact H1|apply Nat.ltb_lt; exact H2].
  - intros Hst. apply orb_true_iff in Hg as [Hg|Hg]; [|exact Hg].
    apply stableb_true in Hst. rewrite Hst in Hg. discriminate.
Qed.

(* the hash table: a bucket holds only states that were added *)
Lemma tmem_tadd s a (T : gmap N (list pstate)) : tmem s (tadd a T) = true -> s = a \/ tmem s T = true.
Proof.
  unfold tmem, tadd. rewrite !bool_decide_eq_true. destruct (decide (hkey a = hkey s)) as [E|E].
  - rewrite E, lookup_insert. simpl. intros Hin. apply elem_of_cons in Hin as [->|Hin]; [left; reflexivity|right; exact Hin].
  - rewrite lookup_insert_ne by exact E. intros Hin. right. exact Hin.
Qed.
Lemma tmem_foldr s R : tmem s (foldr tadd ∅ R) = true -> s ∈ R.
Proof.
  induction R as [|a R IH]; simpl.
  - unfold tmem. rewrite lookup_empty. intros H. apply bool_decide_eq_true in H. simpl in H. inversion H.
  - intros H. apply tmem_tadd in H as [->|H]; [left|right; apply IH; exact H].
Qed.

Lemma checkb_h_checked good R : checkb_h good R = true -> checked good R.
Proof.
  unfold checkb_h. cbv zeta. rewrite forallb_forall. intros Hc s Hin.
  specialize (Hc s (proj1 (elem_of_list_In _ _) Hin)). apply andb_true_iff in Hc as [Hc Hg]. split.
  - intros e s' Hi Hs. rewrite forallb_forall in Hc.
    specialize (Hc e (proj1 (elem_of_list_In _ _) (events_of_complete _ _ _ Hi Hs))).
    rewrite Hs in Hc. apply andb_true_iff in Hc as [H1 H2]. split; [apply tmem_foldr; exact H1|apply Nat.ltb_lt; exact H2].
  - intros Hst. apply orb_true_iff in Hg as [Hg|Hg]; [|exact Hg].
    apply stableb_true in Hst. rewrite Hst in Hg. discriminate.
Qed.

Lemma check_step good R s e s' :
  checked good R -> s ∈ R -> internal e = true -> step s e = Some s' ->
  s' ∈ R /\ (measure s' < measure s)%nat.
Proof. intros Hc Hin Hi Hs. exact (proj1 (Hc s Hin) e s' Hi Hs). Qed.

Lemma check_stable good R s : checked good R -> s ∈ R -> stable s -> good s = true.
Proof. intros Hc Hin Hst. exact (proj2 (Hc s Hin) Hst). Qed.

Lemma check_run good R : checked good R -> forall tr s s',
  s ∈ R -> all_internal tr -> run s tr = Some s' -> s' ∈ R /\ (length tr + measure s' <= measure s)%nat.
Proof.
  intros Hc tr. induction tr as [|e tr IH]; intros s s' Hin Hall Hrun; simpl in Hrun.
  - inversion Hrun; subst. split; [exact Hin|simpl; lia].
  - destruct (step s e) as [s1|] eqn:Hs; [|discriminate].
    apply Forall_cons in Hall as [Hi Hall].
    destruct (check_step _ _ _ _ _ Hc Hin Hi Hs) as [Hin1 Hlt].
    destruct (IH _ _ Hin1 Hall Hrun) as [Hin' Hle]. split; [exact Hin'|simpl; lia].
Qed.

(* every run can be completed to a stable state (inside a checked set) *)
Lemma check_completes good R : checked good R -> forall s, s ∈ R ->
  exists tr s', all_internal tr /\ run s tr = Some s' /\ stable s' /\ s' ∈ R /\ good s' = true.
Proof.
  intros Hc s. remember (measure s) as m eqn:Hm. revert s Hm.
  induction m as [m IH] using lt_wf_ind. intros s -> Hin.
  destruct (decide (stable s)) as [Hst|Hn].
  - exists [], s. split; [constructor|]. split; [reflexivity|]. split; [exact Hst|]. split; [exact Hin|]. eapply check_stable; eauto.
  - destruct (not_stable _ Hn) as (e & s1 & Hi & Hs).
    destruct (check_step _ _ _ _ _ Hc Hin Hi Hs) as [Hin1 Hlt].
    destruct (IH _ Hlt s1 eq_refl Hin1) as (tr & s' & Hall & Hrun & Hst & Hin' & Hg).
    exists (e :: tr), s'. split; [constructor; assumption|]. split; [simpl; rewrite Hs; exact Hrun|]. auto.
Qed.

Lemma run_app s tr1 tr2 : run s (tr1 ++ tr2) = match run s tr1 with Some s1 => run s1 tr2 | None => None end.
Proof. revert s. induction tr1 as [|e tr1 IH]; intros s; simpl; [reflexivity|]. destruct (step s e); [apply IH|reflexivity]. Qed.

Lemma all_internal_app tr1 tr2 : all_internal tr1 -> all_internal tr2 -> all_internal (tr1 ++ tr2).
Proof. unfold all_internal. intros H1 H2. apply Forall_app. split; assumption. Qed.

Lemma handed_overb_true s h c : handed_overb s h c = true -> handed_over s h c.
Proof.
  unfold handed_overb, handed_over, no_traffic. destruct (ps s !! h) as [x|]; [|discriminate].
  destruct (ps s !! c) as [y|]; [|discriminate].
  rewrite !andb_true_iff, !bool_decide_eq_true. intros [[[[[H1 H2] H3] H4] H5] H6]. eauto 10.
Qed.

(* ================================================================================================
   Part 2: C07 with ONE client -- every interleaving, with a termination measure
   ================================================================================================ *)

(* the initial state of the theorem, said without [session]: *)
Example session_1_roles : handed_over (session 1) 0 1.
Proof. apply handed_overb_true. vm_compute. reflexivity. Qed.
Example promoted_1_1 : step (session 1) (EPromote 0 1) = Some (promoted 1 1) /\ promoted 1 1 = push_down (session 1) 0 1 Promote.
Proof. split; vm_compute; reflexivity. Qed.

(* all states reachable after the request, computed (67 states) *)
Definition R1 : list pstate := default [] (explore 1000 [promoted 1 1] []).
Lemma R1_checked : checked (fun s => handed_overb s 1 0 && bool_decide (session_ok s 1)) R1.
Proof. apply checkb_checked. vm_cast_no_check (eq_refl true). Qed.
Lemma R1_start : promoted 1 1 ∈ R1.
Proof. apply inb_true. vm_compute. reflexivity. Qed.
Example R1_size : length R1 = 67%nat.
Proof. vm_compute. reflexivity. Qed.

Theorem C07_single_client_promotion :
  forall tr s, all_internal tr -> run (promoted 1 1) tr = Some s ->
    (* termination: [measure] drops by at least 1 with every event, whatever the interleaving *)
    (length tr + measure s <= measure (promoted 1 1%N))%nat
    (* a run that cannot be continued has handed the session over *)
    /\ (stable s -> handed_over s 1 0)
    (* any other run can be continued, and every continuation decreases the measure *)
    /\ (~ stable s -> exists e s', internal e = true /\ step s e = Some s' /\ (measure s' < measure s)%nat)
    /\ (exists tr' s', all_internal tr' /\ run s tr' = Some s' /\ stable s' /\ handed_over s' 1 0).
Proof.
  intros tr s Hall Hrun.
  destruct (check_run _ _ R1_checked _ _ _ R1_start Hall Hrun) as [Hin Hle].
  split; [exact Hle|]. split; [|split].
  - intros Hst. apply handed_overb_true.
    exact (proj1 (proj1 (andb_true_iff _ _) (check_stable _ _ _ R1_checked Hin Hst))).
  - intros Hn. destruct (not_stable _ Hn) as (e & s' & Hi & Hs). exists e, s'.
    split; [exact Hi|]. split; [exact Hs|]. exact (proj2 (check_step _ _ _ _ _ R1_checked Hin Hi Hs)).
  - destruct (check_completes _ _ R1_checked _ Hin) as (tr' & s' & H1 & H2 & H3 & _ & H4).
    exists tr', s'. split; [exact H1|]. split; [exact H2|]. split; [exact H3|]. apply handed_overb_true.
    exact (proj1 (proj1 (andb_true_iff _ _) H4)).
Qed.
Print Assumptions C07_single_client_promotion.

(* the full statement of C07 (Promotion.v) holds for one client *)
Corollary C07_single_client : C07_statement 1 1.
Proof.
  intros tr s Hall Hrun Hst. destruct (check_run _ _ R1_checked _ _ _ R1_start Hall Hrun) as [Hin _].
  pose proof (check_stable _ _ _ R1_checked Hin Hst) as Hg. apply andb_true_iff in Hg as [_ Hg].
  apply bool_decide_eq_true in Hg. exact Hg.
Qed.
Print Assumptions C07_single_client.

Example measure_promoted_1_1 : measure (promoted 1 1) = 36%nat.
Proof. vm_compute. reflexivity. Qed.

(* no run after the request has more than 36 events *)
Corollary C07_single_client_bound tr s : all_internal tr -> run (promoted 1 1) tr = Some s -> (length tr <= 36)%nat.
Proof. intros Ha Hr. destruct (C07_single_client_promotion _ _ Ha Hr) as [H _]. rewrite measure_promoted_1_1 in H. lia. Qed.

(* ================================================================================================
   Part 3: one step, seen from one peer (all N, all events)
   ================================================================================================ *)

Lemma ps_setp s p x : ps (setp s p x) = <[p := x]> (ps s).
Proof. reflexivity. Qed.
Lemma ps_push_up s a b m : ps (push_up s a b m) = ps s.
Proof. reflexivity. Qed.
Lemma ps_push_down s a b m : ps (push_down s a b m) = ps s.
Proof. reflexivity. Qed.
Lemma ps_drop_link s a b : ps (drop_link s a b) = ps s.
Proof. reflexivity. Qed.
Lemma ps_drop_link_of s a t : ps (drop_link_of s a t) = ps s.
Proof. destruct t; reflexivity. Qed.
Lemma ps_relay s h l m : ps (relay s h l m) = ps s.
Proof. induction l as [|d l IH]; simpl; [reflexivity|]. exact IH. Qed.
Lemma ps_mk a b c : ps (PState a b c) = a.
Proof. reflexivity. Qed.

Ltac pssimpl :=
  repeat first [ rewrite ps_relay | rewrite ps_drop_link_of | rewrite ps_drop_link | rewrite ps_push_up
               | rewrite ps_push_down | rewrite ps_setp | rewrite ps_mk ].

(* case analysis of one step: one goal per branch of [step] that returns Some *)
Ltac step_inv Hs :=
  unfold step in Hs;
  repeat (match type of Hs with context [match ?t with _ => _ end] => destruct t eqn:? end; try discriminate);
  injection Hs as <-.

Ltac ins_cases :=
  repeat match goal with
         | |- context [<[?a := _]> _ !! ?p] =>
             destruct (decide (a = p)) as [->|?];
             [rewrite lookup_insert | rewrite lookup_insert_ne by assumption]
         end.


Ltac pssimpl_in H :=
  repeat first [ rewrite ps_relay in H | rewrite ps_drop_link_of in H | rewrite ps_drop_link in H | rewrite ps_push_up in H
               | rewrite ps_push_down in H | rewrite ps_setp in H | rewrite ps_mk in H ].
Ltac ins_cases_in H :=
  repeat match type of H with
         | context [<[?a := _]> _ !! ?p] =>
             destruct (decide (a = p)) as [->|?];
             [rewrite lookup_insert in H | rewrite lookup_insert_ne in H by assumption]
         end.
Ltac use_lookups :=
  repeat match goal with
         | H : ps ?s !! ?q = Some _, H' : context [ps ?s !! ?q] |- _ =>
             lazymatch type of H' with ps s !! q = Some _ => fail | _ => rewrite H in H' end
         end.

(* after the repair a dead RenetClient is replaced in exactly two places: the two handlers of NewHost *)
Lemma sticky_resets_only_by_newhost s e s' p :
  step s e = Some s' -> pget sticky false s p = true -> pget sticky true s' p = false ->
  (exists h q, e = EDeliverDown h p /\ head (chan (down s) h p) = Some (NewHost q)) \/
  (exists c q, e = EDeliverUp c p /\ head (chan (up s) c p) = Some (NewHost q)).
Proof.
  intros Hs H1 H2. unfold pget in *.
  destruct e; step_inv Hs; pssimpl_in H2; ins_cases_in H2; use_lookups; simpl in *; try congruence;
    try (destruct (ps s !! p) eqn:?; congruence).
  all: match goal with H : chan _ _ _ = _ |- _ =>
         first [ left; eexists _, _; split; [reflexivity|]; rewrite H; reflexivity
               | right; eexists _, _; split; [reflexivity|]; rewrite H; reflexivity ] end.
Qed.

Ltac bool_hyps :=
  repeat match goal with
         | H : _ && _ = true |- _ => apply andb_true_iff in H as [? ?]
         | H : negb _ = true |- _ => apply negb_true_iff in H
         | H : negb _ = false |- _ => apply negb_false_iff in H
         | H : bool_decide _ = true |- _ => apply bool_decide_eq_true in H
         | H : bool_decide _ = false |- _ => apply bool_decide_eq_false in H
         end.

Ltac same_lookup :=
  repeat match goal with
         | H : ps ?s !! ?q = Some _, H' : ps ?s !! ?q = Some _ |- _ => rewrite H in H'; injection H' as <-
         | H : ps ?s !! ?q = Some _, H' : ps ?s !! ?q = None |- _ => rewrite H in H'; discriminate
         end.

Definition strandedP (s : pstate) (p : peer) : Prop := pget stranded False s p.

(* a stranded peer is frozen: target and flag never change again *)
Lemma stranded_frozen s e s' p x :
  step s e = Some s' -> ps s !! p = Some x -> stranded x ->
  exists x', ps s' !! p = Some x' /\ stranded x' /\ client_of x' = client_of x /\ flag x' = flag x.
Proof.
  intros Hs Hxp (S1 & S2 & S3 & S4 & S5 & S6).
  destruct e; step_inv Hs; pssimpl; ins_cases; same_lookup; rewrite ?Hxp; bool_hyps;
    unfold stranded, srv_gate, cli_gate in *; simpl; bool_hyps;
    try (eexists; split; [reflexivity|]; simpl; split_and?; (assumption || reflexivity || eauto));
    try congruence.
  match goal with H : is_cdisc (cli_state _) = true |- _ => rewrite S4 in H; discriminate end.
Qed.

(* the stuck lemma (still true after the repair): once stranded, for ever stranded -- whatever
   happens afterwards, new promotions by the application included, in a session of any size.
   After the repair nobody gets stranded in a single promotion any more: C07_other_clients (Part 4) *)
Lemma stranded_step s e s' p : step s e = Some s' -> strandedP s p -> strandedP s' p.
Proof.
  intros Hs Hp. unfold strandedP, pget in *. destruct (ps s !! p) as [xp|] eqn:Hxp; [|contradiction].
  destruct (stranded_frozen s e s' p xp Hs Hxp Hp) as (x' & -> & Hst & _). exact Hst.
Qed.

Lemma stranded_run tr : forall s s' p, run s tr = Some s' -> strandedP s p -> strandedP s' p.
Proof.
  induction tr as [|e tr IH]; intros s s' p Hrun Hp; simpl in Hrun.
  - inversion Hrun; subst. exact Hp.
  - destruct (step s e) as [s1|] eqn:Hs; [|discriminate]. eapply IH; [exact Hrun|]. eapply stranded_step; eauto.
Qed.


(* in particular a stranded peer is never linked again and never leaves ClientState::Connected: it can
   handle neither a downstream NewHost (needs a live link) nor an upstream one (needs a server), so
   its dead RenetClient is never replaced -- whatever happens, new promotions included *)
Corollary stranded_never_connects tr s s' p :
  run s tr = Some s' -> strandedP s p ->
  exists x, ps s' !! p = Some x /\ link_up x = false /\ cli_state x = CConnected /\ sticky x = true.
Proof.
  intros Hrun Hp. pose proof (stranded_run _ _ _ _ Hrun Hp) as H. unfold strandedP, pget in H.
  destruct (ps s' !! p) as [x|]; [|contradiction]. exists x. unfold stranded in H. tauto.
Qed.
Print Assumptions stranded_never_connects.

(* ================================================================================================
   Part 4: invariants for sessions of ANY size
   ================================================================================================ *)


Lemma NoDup_without c l : NoDup l -> NoDup (without c l).
Proof. intros H. unfold without. apply NoDup_filter. exact H. Qed.
Lemma elem_of_without c l d : d ∈ without c l <-> d <> c /\ d ∈ l.
Proof. unfold without. rewrite elem_of_list_filter. reflexivity. Qed.
Lemma NoDup_snoc_fresh (c : peer) l : NoDup l -> c ∉ l -> NoDup (l ++ [c]).
Proof. intros H1 H2. apply NoDup_app. split; [exact H1|]. split; [|apply NoDup_singleton]. intros x Hx Hx'. apply elem_of_list_singleton in Hx'. subst. contradiction. Qed.

Ltac old_wf Hwf :=
  match goal with
  | |- wf_peer ?t =>
      match goal with
      | H : ps _ !! _ = Some ?y |- _ =>
          match t with context [y] => destruct (Hwf _ _ H) as (W1 & W2 & W3 & W4 & W5 & W6 & W7) end
      end
  end.

Lemma wf_step s e s' : roles_inv s -> step s e = Some s' -> forall p x, ps s' !! p = Some x -> wf_peer x.
Proof.
  intros (Hwf & Hcl & Hlk) Hs p x Hx.
  destruct e; step_inv Hs; pssimpl_in Hx;
    repeat (apply lookup_insert_Some in Hx as [[<- <-]|[? Hx]]);
    try (eapply Hwf; eassumption);
    old_wf Hwf; unfold wf_peer, srv_gate, cli_gate in *; simpl; bool_hyps;
    split_and?; intros; simpl in *;
    try (first [ tauto | congruence | eauto using NoDup_without, NoDup_snoc_fresh; fail ]).
  all: try (split_and?; first [ tauto | congruence | eauto using NoDup_without, NoDup_snoc_fresh; fail ]).
  all: try (destruct (hosting _) eqn:?; intuition congruence).
  - match goal with |- is_Some (client_of ?y) \/ _ => destruct (client_of y) eqn:? end; [left; eauto|destruct (W2 eq_refl); congruence].
  - match goal with H : is_nil (clients ?y) = true |- _ => destruct (clients y) end; [auto|discriminate].
Qed.

Lemma insert_dom (m : gmap peer ppeer) i x j : is_Some (m !! i) -> (is_Some (<[i:=x]> m !! j) <-> is_Some (m !! j)).
Proof.
  intros Hi. rewrite lookup_insert_is_Some. split.
  - intros [->|[_ H]]; assumption.
  - intros H. destruct (decide (i = j)); [left; assumption|right; split; assumption].
Qed.

Lemma step_dom s e s' : step s e = Some s' -> forall p, is_Some (ps s' !! p) <-> is_Some (ps s !! p).
Proof.
  intros Hs p. destruct e; step_inv Hs; pssimpl; rewrite ?insert_dom; try reflexivity;
    rewrite ?insert_dom; eauto.
Qed.

Lemma clients_step s e s' : roles_inv s -> step s e = Some s' ->
  forall h x c, ps s' !! h = Some x -> c ∈ clients x -> c <> h /\ is_Some (ps s' !! c).
Proof.
  intros (Hwf & Hcl & Hlk) Hs h x c Hx Hc. rewrite (step_dom _ _ _ Hs).
  destruct e; step_inv Hs; pssimpl_in Hx;
    repeat (apply lookup_insert_Some in Hx as [[<- <-]|[? Hx]]);
    try (eapply Hcl; eassumption);
    simpl in Hc; rewrite ?elem_of_without in Hc;
    try (eapply Hcl; [eassumption|tauto]).
  bool_hyps. apply elem_of_app in Hc as [Hc|Hc]; [eapply Hcl; eassumption|].
  apply elem_of_list_singleton in Hc. subst. split; [assumption|eauto].
Qed.

Lemma links_step s e s' : roles_inv s -> step s e = Some s' ->
  forall c y h, ps s' !! c = Some y -> link_up y = true -> client_of y = Some h -> c <> h /\ is_Some (ps s' !! h).
Proof.
  intros (Hwf & Hcl & Hlk) Hs c y h Hy Hl Hc. rewrite (step_dom _ _ _ Hs).
  destruct e; step_inv Hs; pssimpl_in Hy;
    repeat (apply lookup_insert_Some in Hy as [[<- <-]|[? Hy]]);
    try (eapply Hlk; eassumption);
    simpl in Hl, Hc; try discriminate;
    try (eapply Hlk; eassumption).
  bool_hyps.
  match goal with H1 : client_of ?y = Some ?a, H2 : client_of ?y = Some ?b |- _ => assert (a = b) by congruence; subst end.
  split; [assumption|eauto].
Qed.

Lemma roles_inv_step s e s' : roles_inv s -> step s e = Some s' -> roles_inv s'.
Proof.
  intros Hinv Hs. split; [|split].
  - eapply wf_step; eauto.
  - eapply clients_step; eauto.
  - eapply links_step; eauto.
Qed.

Lemma roles_inv_run tr : forall s s', roles_inv s -> run s tr = Some s' -> roles_inv s'.
Proof.
  induction tr as [|e tr IH]; intros s s' Hinv Hrun; simpl in Hrun.
  - inversion Hrun; subst. exact Hinv.
  - destruct (step s e) as [s1|] eqn:Hs; [|discriminate]. eapply IH; [|exact Hrun]. eapply roles_inv_step; eauto.
Qed.

(* ---------- the initial sessions ---------- *)

Lemma elem_of_client_ids n c : c ∈ client_ids n <-> (1 <= c <= N.of_nat n)%N.
Proof.
  unfold client_ids. rewrite elem_of_list_fmap. split.
  - intros (i & -> & Hi). apply elem_of_seq in Hi. lia.
  - intros Hc. exists (N.to_nat c). split; [lia|]. apply elem_of_seq. lia.
Qed.
Lemma NoDup_client_ids n : NoDup (client_ids n).
Proof. unfold client_ids. apply NoDup_fmap_2; [intros a b Hab; lia|apply NoDup_seq]. Qed.

Lemma const_map_lookup (cs : list peer) (v : ppeer) p :
  (list_to_map ((fun c => (c, v)) <$> cs) : gmap peer ppeer) !! p = if decide (p ∈ cs) then Some v else None.
Proof.
  induction cs as [|c cs IH]; [simpl|rewrite fmap_cons, list_to_map_cons].
  - rewrite lookup_empty. destruct (decide (p ∈ [])) as [H|_]; [inversion H|reflexivity].
  - destruct (decide (c = p)) as [->|Hne].
    + rewrite lookup_insert. destruct (decide (p ∈ p :: cs)) as [_|Hn]; [reflexivity|]. exfalso. apply Hn. left.
    + rewrite lookup_insert_ne by exact Hne. rewrite IH.
      destruct (decide (p ∈ cs)) as [Hin|Hn]; destruct (decide (p ∈ c :: cs)) as [Hin'|Hn']; try reflexivity.
      * exfalso. apply Hn'. right. exact Hin.
      * exfalso. apply elem_of_cons in Hin' as [->|Hin']; [apply Hne; reflexivity|apply Hn; exact Hin'].
Qed.

Lemma session_lookup n p :
  ps (session n) !! p = if decide (p = host) then Some (idle_host (client_ids n))
                        else if decide (p ∈ client_ids n) then Some (idle_client host) else None.
Proof.
  unfold session. rewrite ps_mk. simpl. destruct (decide (p = host)) as [->|Hne].
  - rewrite lookup_insert. reflexivity.
  - rewrite lookup_insert_ne by (intros H; apply Hne; symmetry; exact H). apply const_map_lookup.
Qed.

Lemma roles_inv_session n : roles_inv (session n).
Proof.
  split; [|split].
  - intros p x Hx. rewrite session_lookup in Hx. repeat case_decide; simplify_eq.
    + unfold wf_peer, idle_host; simpl. split_and?; try (intros; (discriminate || auto)). apply NoDup_client_ids.
    + unfold wf_peer, idle_client; simpl. split_and?; try (intros; (discriminate || eauto)). apply NoDup_nil_2.
  - intros h x c Hx Hc. rewrite session_lookup in Hx. rewrite session_lookup.
    destruct (decide (h = host)) as [->|Hh].
    + injection Hx as <-. simpl in Hc. apply elem_of_client_ids in Hc as Hc'. unfold host in *.
      split; [lia|]. rewrite decide_False by lia. rewrite decide_True by exact Hc. eauto.
    + destruct (decide (h ∈ client_ids n)); [|discriminate]. injection Hx as <-. inversion Hc.
  - intros c y h Hy Hl Hc. rewrite session_lookup in Hy. rewrite session_lookup.
    destruct (decide (c = host)) as [->|Hh].
    + injection Hy as <-. discriminate.
    + destruct (decide (c ∈ client_ids n)); [|discriminate]. injection Hy as <-. simpl in Hc. injection Hc as <-.
      split; [exact Hh|]. rewrite decide_True by reflexivity. eauto.
Qed.


(* the flag and the server transport change only at well-defined events *)
Lemma hosting_rises_only_by_promote s e s' p :
  step s e = Some s' -> pget hosting true s p = false -> pget hosting false s' p = true ->
  exists h, e = EDeliverDown h p /\ head (chan (down s) h p) = Some Promote.
Proof.
  intros Hs H1 H2. unfold pget in *.
  destruct e; step_inv Hs; pssimpl_in H2; ins_cases_in H2; use_lookups; simpl in *; try congruence;
    try (destruct (ps s !! p) eqn:?; congruence).
  all: try (eexists; split; [reflexivity|]; match goal with H : chan _ _ _ = _ |- _ => rewrite H end; reflexivity).
Qed.

Lemma hosting_falls_only_when s e s' p :
  step s e = Some s' -> pget hosting false s p = true -> pget hosting true s' p = false ->
  e = ENotify p /\
  exists x c q, ps s !! p = Some x /\ srv_gate x = true /\ (flag x = true \/ closing x = true) /\ clients x = [] /\
                srv_events x = (false, c) :: q.
Proof.
  intros Hs H1 H2. unfold pget in *.
  destruct e; step_inv Hs; pssimpl_in H2; ins_cases_in H2; use_lookups; simpl in *; try congruence;
    try (destruct (ps s !! p) eqn:?; congruence).
  bool_hyps. split; [reflexivity|]. eexists _, _, _. split; [eassumption|]. split_and?; try eassumption.
  - match goal with H : _ || _ = true |- _ => apply orb_true_iff in H as [H|H] end; [left|right]; assumption.
  - destruct (clients _); [reflexivity|discriminate].
Qed.

Lemma flag_rises_only_by_message s e s' p :
  step s e = Some s' -> pget flag true s p = false -> pget flag false s' p = true ->
  (exists h, e = EDeliverDown h p /\ head (chan (down s) h p) = Some Promote)
  \/ (exists c q, e = EDeliverUp c p /\ head (chan (up s) c p) = Some (NewHost q)).
Proof.
  intros Hs H1 H2. unfold pget in *.
  destruct e; step_inv Hs; pssimpl_in H2; ins_cases_in H2; use_lookups; simpl in *; try congruence;
    try (destruct (ps s !! p) eqn:?; congruence).
  all: match goal with H : chan _ _ _ = _ |- _ =>
         first [ left; eexists; split; [reflexivity|]; rewrite H; reflexivity
               | right; eexists _, _; split; [reflexivity|]; rewrite H; reflexivity ] end.
Qed.

(* [closing] is set only by the server-side handler of NewHost, and cleared only when the server is closed *)
Lemma closing_rises_only_by_newhost s e s' p :
  step s e = Some s' -> pget closing true s p = false -> pget closing false s' p = true ->
  exists c q, e = EDeliverUp c p /\ head (chan (up s) c p) = Some (NewHost q).
Proof.
  intros Hs H1 H2. unfold pget in *.
  destruct e; step_inv Hs; pssimpl_in H2; ins_cases_in H2; use_lookups; simpl in *; try congruence;
    try (destruct (ps s !! p) eqn:?; congruence).
  all: match goal with H : chan _ _ _ = _ |- _ => eexists _, _; split; [reflexivity|]; rewrite H; reflexivity end.
Qed.
Lemma closing_falls_only_with_server s e s' p :
  step s e = Some s' -> pget closing false s p = true -> pget closing true s' p = false ->
  e = ENotify p /\ pget hosting true s' p = false.
Proof.
  intros Hs H1 H2. unfold pget in *.
  destruct e; step_inv Hs; revert H2; pssimpl; ins_cases; intros H2; use_lookups; simpl in *; try congruence;
    try (destruct (ps s !! p) eqn:?; congruence).
  split; reflexivity.
Qed.

Lemma flag_falls_only_when s e s' p :
  step s e = Some s' -> pget flag false s p = true -> pget flag true s' p = false ->
  e = ENotify p \/ e = EVerify p.
Proof.
  intros Hs H1 H2. unfold pget in *.
  destruct e; step_inv Hs; pssimpl_in H2; ins_cases_in H2; use_lookups; simpl in *; try congruence;
    try (destruct (ps s !! p) eqn:?; congruence); auto.
Qed.

(* a promoted peer that hosts keeps hosting -- until it is itself told to hand over (a NewHost from
   one of its clients) or promoted again *)
Lemma promote_opens_window s h p s' :
  roles_inv s -> step s (EDeliverDown h p) = Some s' -> head (chan (down s) h p) = Some Promote ->
  pget hosting true s p = false ->
  exists x', ps s' !! p = Some x' /\ hosting x' = true /\ flag x' = true /\ window x'.
Proof.
  intros (Hwf & _ & _) Hs Hh Hp. unfold pget in Hp.
  step_inv Hs; simpl in Hh; try discriminate; try congruence.
  pssimpl. rewrite lookup_insert. eexists. split; [reflexivity|]. simpl.
  split; [reflexivity|]. split; [reflexivity|].
  match goal with H : ps s !! p = Some ?y, H' : hosting ?y = false |- _ =>
    destruct (Hwf _ _ H) as (W1 & _ & _ & _ & _ & _ & W7); destruct (W1 H') as (? & ? & _) end.
  split; simpl.
  - match goal with |- closing ?y = false => destruct (closing y); [|reflexivity] end. specialize (W7 eq_refl). congruence.
  - intros _. left. auto.
Qed.

Lemma window_step s e s' p x :
  ps s !! p = Some x -> hosting x = true -> window x -> step s e = Some s' ->
  (forall c q, e = EDeliverUp c p -> head (chan (up s) c p) <> Some (NewHost q)) ->
  (forall h, e = EDeliverDown h p -> head (chan (down s) h p) = Some ReqInit) ->
  exists x', ps s' !! p = Some x' /\ hosting x' = true /\ window x'.
Proof.
  intros Hx Hh [Hcl Hw] Hs Hno1 Hno2.
  destruct e; step_inv Hs; pssimpl; ins_cases; same_lookup; rewrite ?Hx;
    try (eexists; split; [reflexivity|]; split; [assumption|split; assumption]).
  all: try (exfalso; specialize (Hno2 _ eq_refl);
            match goal with H : chan _ _ _ = _ |- _ => rewrite H in Hno2 end; discriminate).
  all: try (exfalso; eapply Hno1; [reflexivity|];
            match goal with H : chan _ _ _ = _ |- _ => rewrite H end; reflexivity).
  all: eexists; split; [reflexivity|]; unfold window in *; simpl; bool_hyps.
  all: try (split; [assumption|split; [assumption|intros; discriminate]]).
  - (* ENotify, ClientConnected, flag not set *)
    split; [assumption|]. split; [assumption|]. intros Hf. congruence.
  - (* ENotify, the server is closed: impossible inside the window *)
    exfalso. match goal with H : _ || _ = true |- _ => apply orb_true_iff in H as [H|H] end; [|congruence].
    destruct (Hw ltac:(assumption)) as [[Hq _]|(c' & q' & Hq)]; congruence.
  - (* ENotify, ClientDisconnected ignored *)
    split; [assumption|]. split; [assumption|]. intros Hf. exfalso.
    destruct (Hw Hf) as [[Hq _]|(c' & q' & Hq)]; congruence.
  - (* EConnect to p *)
    split; [assumption|]. split; [assumption|]. intros Hf. right.
    destruct (Hw Hf) as [[Hq _]|(c' & q' & Hq)]; rewrite Hq; simpl; eauto.
  - (* ETimeout at p *)
    split; [assumption|]. split; [assumption|]. intros Hf. right.
    destruct (Hw Hf) as [[Hq Hc]|(c' & q' & Hq)].
    + exfalso. match goal with H : _ ∈ clients x |- _ => rewrite Hc in H; inversion H end.
    + rewrite Hq. simpl. eauto.
Qed.

(* ---------- channels after one step ---------- *)

Lemma chan_push M a b m a' b' : chan (push M a b m) a' b' = if decide ((a', b') = (a, b)) then chan M a b ++ [m] else chan M a' b'.
Proof.
  unfold push. unfold chan at 1. case_decide; simplify_eq.
  - rewrite lookup_insert. reflexivity.
  - rewrite lookup_insert_ne by congruence. reflexivity.
Qed.
Lemma chan_delete M a b a' b' : chan (delete (a, b) M) a' b' = if decide ((a', b') = (a, b)) then [] else chan M a' b'.
Proof.
  unfold chan. case_decide; simplify_eq.
  - rewrite lookup_delete. reflexivity.
  - rewrite lookup_delete_ne by congruence. reflexivity.
Qed.

Lemma chan_setchan M a b l a' b' : chan (setchan M a b l) a' b' = if decide ((a', b') = (a, b)) then l else chan M a' b'.
Proof.
  unfold setchan. destruct l as [|m l]; [apply chan_delete|].
  unfold chan. case_decide; simplify_eq.
  - rewrite lookup_insert. reflexivity.
  - rewrite lookup_insert_ne by congruence. reflexivity.
Qed.

Lemma down_setp s p x : down (setp s p x) = down s. Proof. reflexivity. Qed.
Lemma down_push_up s a b m : down (push_up s a b m) = down s. Proof. reflexivity. Qed.
Lemma down_push_down s a b m : down (push_down s a b m) = push (down s) a b m. Proof. reflexivity. Qed.
Lemma down_drop_link s c h : down (drop_link s c h) = delete (h, c) (down s). Proof. reflexivity. Qed.
Lemma down_mk a b c : down (PState a b c) = c. Proof. reflexivity. Qed.
Lemma up_setp s p x : up (setp s p x) = up s. Proof. reflexivity. Qed.
Lemma up_push_up s a b m : up (push_up s a b m) = push (up s) a b m. Proof. reflexivity. Qed.
Lemma up_push_down s a b m : up (push_down s a b m) = up s. Proof. reflexivity. Qed.
Lemma up_drop_link s c h : up (drop_link s c h) = delete (c, h) (up s). Proof. reflexivity. Qed.
Lemma up_mk a b c : up (PState a b c) = b. Proof. reflexivity. Qed.
Lemma up_relay s h l m : up (relay s h l m) = up s.
Proof. induction l as [|d l IH]; simpl; [reflexivity|]. exact IH. Qed.

Lemma chan_down_relay s h l m a b :
  exists l', chan (down (relay s h l m)) a b = chan (down s) a b ++ l' /\
             (l' = [] \/ (a = h /\ b ∈ l /\ forall m', m' ∈ l' -> m' = m)).
Proof.
  induction l as [|d l (l' & IH & Hl')].
  - exists []. simpl. rewrite app_nil_r. auto.
  - change (relay s h (d :: l) m) with (push_down (relay s h l m) h d m).
    rewrite down_push_down, chan_push. case_decide as Hd.
    + injection Hd as -> ->.
      exists (l' ++ [m]). rewrite IH, <- app_assoc. split; [reflexivity|]. right. split; [reflexivity|].
      split; [left|]. intros m' Hm'. apply elem_of_app in Hm' as [Hm'|Hm'].
      * destruct Hl' as [->|(_ & _ & H)]; [inversion Hm'|auto].
      * apply elem_of_list_singleton in Hm'. exact Hm'.
    + exists l'. split; [exact IH|]. destruct Hl' as [->|(-> & Hb & H)]; [left; reflexivity|].
      right. split; [reflexivity|]. split; [right; exact Hb|exact H].
Qed.

Lemma chan_down_drop_link_of s c t a b :
  chan (down (drop_link_of s c t)) a b = if decide (t = Some a /\ b = c) then [] else chan (down s) a b.
Proof.
  destruct t as [h|]; simpl.
  - rewrite chan_delete. destruct (decide ((a, b) = (h, c))) as [E|E];
      destruct (decide (Some h = Some a /\ b = c)) as [F|F]; try reflexivity; exfalso.
    + injection E as -> ->. apply F. auto.
    + destruct F as [Fa ->]. injection Fa as ->. apply E. reflexivity.
  - first [reflexivity | case_decide as H; [destruct H; discriminate|reflexivity]].
Qed.
Lemma chan_up_drop_link_of s c t a b :
  chan (up (drop_link_of s c t)) a b = if decide (t = Some b /\ a = c) then [] else chan (up s) a b.
Proof.
  destruct t as [h|]; simpl.
  - rewrite chan_delete. destruct (decide ((a, b) = (c, h))) as [E|E];
      destruct (decide (Some h = Some b /\ a = c)) as [F|F]; try reflexivity; exfalso.
    + injection E as -> ->. apply F. auto.
    + destruct F as [Fa ->]. injection Fa as ->. apply E. reflexivity.
  - first [reflexivity | case_decide as H; [destruct H; discriminate|reflexivity]].
Qed.

Ltac chan_norm :=
  repeat first [ rewrite chan_down_drop_link_of | rewrite chan_up_drop_link_of
               | rewrite down_drop_link | rewrite down_push_up | rewrite down_setp | rewrite down_mk | rewrite down_push_down
               | rewrite up_relay | rewrite up_drop_link | rewrite up_push_up | rewrite up_setp | rewrite up_mk | rewrite up_push_down
               | rewrite chan_delete | rewrite chan_setchan | rewrite chan_push ].

Lemma down_shape s e s' h c : internal e = true -> step s e = Some s' ->
  exists base l, chan (down s') h c = base ++ l /\
    ((e <> EDeliverDown h c /\ base = chan (down s) h c) \/
     (e = EDeliverDown h c /\ exists m0, chan (down s) h c = m0 :: base) \/ base = []) /\
    (l = [] \/ exists a q x, e = EDeliverUp a h /\ head (chan (up s) a h) = Some (NewHost q) /\
                 ps s !! h = Some x /\ c ∈ without a (clients x) /\ forall m, m ∈ l -> m = NewHost q).
Proof.
  intros Hi Hs. destruct e; try discriminate Hi; step_inv Hs.
  all: try (eexists _, []; rewrite app_nil_r; split; [reflexivity|]; split; [|left; reflexivity];
            chan_norm; repeat case_decide; simplify_eq;
            first [ left; split; [intros ?; simplify_eq; naive_solver|reflexivity]
                  | right; right; reflexivity
                  | right; left; split; [reflexivity|eexists; eassumption] ]).
  all: match goal with |- context [relay ?s0 ?h0 ?ds ?m] =>
         destruct (chan_down_relay s0 h0 ds m h c) as (l' & Hrel & Hl'); exists (chan (down s0) h c), l' end;
       (split; [exact Hrel|]); split.
  all: try (chan_norm; repeat case_decide; simplify_eq;
            first [ left; split; [intros ?; simplify_eq|reflexivity] | right; right; reflexivity ]).
  all: destruct Hl' as [->|(-> & Hin & Hall)]; [left; reflexivity|right];
       eexists _, _, _; (split; [reflexivity|]);
       (split; [match goal with H : chan _ _ _ = _ |- _ => rewrite H end; reflexivity|]);
       (split; [eassumption|]); split; assumption.
Qed.

Lemma up_shape s e s' c h : internal e = true -> step s e = Some s' ->
  exists base l, chan (up s') c h = base ++ l /\
    ((e <> EDeliverUp c h /\ base = chan (up s) c h) \/
     (e = EDeliverUp c h /\ exists m0, chan (up s) c h = m0 :: base) \/ base = []) /\
    (l = [] \/
     (l = [NewHost c] /\ e = ESrvUp c /\
        exists x, ps s !! c = Some x /\ client_of x = Some h /\ srv_added x = true /\ srv_state x = SDisconnected) \/
     (l = [ReqInit] /\ e = EVerify c)).
Proof.
  intros Hi Hs. destruct e; try discriminate Hi; step_inv Hs; bool_hyps.
  all: chan_norm; repeat case_decide; simplify_eq.
  all: first [ eexists _, [_]; split; [reflexivity|] | eexists _, []; split; [rewrite app_nil_r; reflexivity|] ].
  all: split;
       [ first [ left; split; [intros ?; simplify_eq|reflexivity]
               | right; right; reflexivity
               | right; left; split; [reflexivity|eexists; eassumption] ]
       | first [ left; reflexivity
               | right; left; split; [reflexivity|]; split; [reflexivity|]; eexists; split_and?; eassumption
               | right; right; split; reflexivity ] ].
Qed.

(* ---------- more "changes only at" lemmas ---------- *)

Lemma srv_added_rises_only_by_promote s e s' p :
  step s e = Some s' -> pget srv_added true s p = false -> pget srv_added false s' p = true ->
  exists h, e = EDeliverDown h p /\ head (chan (down s) h p) = Some Promote.
Proof.
  intros Hs H1 H2. unfold pget in *.
  destruct e; step_inv Hs; pssimpl_in H2; ins_cases_in H2; use_lookups; simpl in *; try congruence;
    try (destruct (ps s !! p) eqn:?; congruence).
  all: try (eexists; split; [reflexivity|]; match goal with H : chan _ _ _ = _ |- _ => rewrite H end; reflexivity).
Qed.

Lemma client_of_changes_only s e s' p :
  step s e = Some s' -> pget client_of None s' p <> pget client_of None s p ->
  (exists h q, e = EDeliverDown h p /\ head (chan (down s) h p) = Some (NewHost q) /\ pget client_of None s' p = Some q) \/
  (exists c q, e = EDeliverUp c p /\ head (chan (up s) c p) = Some (NewHost q) /\ pget client_of None s' p = Some q) \/
  (e = ENotify p /\ pget client_of None s' p = None).
Proof.
  intros Hs H2. unfold pget in *.
  destruct e; step_inv Hs; revert H2; pssimpl; ins_cases; intros H2; use_lookups;
    repeat match goal with H : ps s !! ?q = Some _ |- _ => rewrite H in * end; simpl in *; try congruence.
  all: try match goal with H : chan _ _ _ = _ |- _ =>
         first [ left; eexists _, _; split; [reflexivity|]; split; [rewrite H; reflexivity|reflexivity]
               | right; left; eexists _, _; split; [reflexivity|]; split; [rewrite H; reflexivity|reflexivity] ] end.
  all: try (right; right; split; reflexivity).
Qed.

Lemma deliver_down_head s h c s' : step s (EDeliverDown h c) = Some s' -> exists m, head (chan (down s) h c) = Some m.
Proof. intros Hs. step_inv Hs; simpl; eauto. Qed.
Lemma deliver_up_head s c h s' : step s (EDeliverUp c h) = Some s' -> exists m, head (chan (up s) c h) = Some m.
Proof. intros Hs. step_inv Hs; simpl; eauto. Qed.

Lemma head_elem_of {A} (l : list A) m : head l = Some m -> m ∈ l.
Proof. destruct l; simpl; [discriminate|]. intros [= ->]. left. Qed.

(* the client table of a server grows only when a live RenetClient that targets it connects *)
Lemma clients_grow_only_by_connect s e s' h x x' c :
  step s e = Some s' -> ps s !! h = Some x -> ps s' !! h = Some x' -> c ∈ clients x' -> c ∉ clients x ->
  e = EConnect c /\ pget client_of None s c = Some h /\ pget sticky true s c = false.
Proof.
  intros Hs Hx Hx' Hin Hnin. unfold pget.
  destruct e; step_inv Hs; pssimpl_in Hx'; ins_cases_in Hx'; same_lookup; rewrite ?Hx in *; simplify_eq; simpl in *;
    try contradiction; try (rewrite elem_of_without in Hin; tauto).
  apply elem_of_app in Hin as [Hin|Hin]; [contradiction|]. apply elem_of_list_singleton in Hin. subst c0.
  bool_hyps. match goal with H : ps s !! c = Some _ |- _ => rewrite H end. auto.
Qed.

(* what can happen to an untouched client itself *)
Lemma untouched_self s e s' c x :
  step s e = Some s' -> ps s !! c = Some x -> untouched s c x -> c <> host ->
  exists x', ps s' !! c = Some x' /\
    ((hosting x' = false /\ client_of x' = Some host /\ link_up x' = true /\ cli_state x' = CConnected /\ cli_removed x' = false)
     \/ (e = EDeliverDown host c /\ head (chan (down s) host c) = Some Promote)
     \/ (exists q, e = EDeliverDown host c /\ head (chan (down s) host c) = Some (NewHost q) /\
                   hosting x' = false /\ client_of x' = Some q /\ cli_state x' = CConnected /\ cli_removed x' = false /\
                   sticky x' = false /\ link_up x' = false)).
Proof.
  intros Hs Hx (U1 & U2 & U3 & U4 & U5 & x0 & U6 & U7 & U8) Hc.
  destruct e; step_inv Hs; pssimpl; ins_cases; same_lookup; rewrite ?Hx; bool_hyps;
    unfold srv_gate, cli_gate in *; simpl; bool_hyps;
    try (eexists; split; [reflexivity|]; left; simpl; split_and?; (assumption || reflexivity));
    try congruence.
  all: repeat match goal with
              | H1 : client_of ?y = Some host, H2 : client_of ?y = Some ?b |- _ =>
                  assert (b = host) by congruence; subst b; clear H2
              end; same_lookup.
  - eexists; split; [reflexivity|]. right; left. split; [reflexivity|]. match goal with H : chan _ _ _ = _ |- _ => rewrite H end. reflexivity.
  - eexists; split; [reflexivity|]. right; right. eexists. split; [reflexivity|]. split; [match goal with H : chan _ _ _ = _ |- _ => rewrite H end; reflexivity|].
    simpl. split_and?; eauto.
  - match goal with H : is_cdisc (cli_state _) = true |- _ => rewrite U4 in H; discriminate end.
  - exfalso. match goal with H : _ || _ = true |- _ => apply orb_true_iff in H as [H|H] end; bool_hyps; congruence.
Qed.

(* ... and to its entry in the old host's client table *)
Lemma untouched_host s e s' c x x0 :
  step s e = Some s' -> ps s !! c = Some x -> client_of x = Some host -> link_up x = true -> c <> host ->
  ps s !! host = Some x0 -> hosting x0 = true -> c ∈ clients x0 ->
  (forall q, e = EDeliverUp c host -> head (chan (up s) c host) <> Some (NewHost q)) ->
  exists x0', ps s' !! host = Some x0' /\ hosting x0' = true /\ c ∈ clients x0'.
Proof.
  intros Hs Hx U2 U3 Hc U6 U7 U8 Hno.
  destruct e; step_inv Hs; pssimpl; ins_cases; same_lookup; rewrite ?U6; bool_hyps;
    unfold srv_gate, cli_gate in *; simpl; bool_hyps;
    try (eexists; split; [reflexivity|]; simpl; split; (assumption || reflexivity));
    try congruence.
  - destruct (decide (c = c0)) as [->|Hne]; [exfalso; eapply Hno; [reflexivity|match goal with H : chan _ _ _ = _ |- _ => rewrite H end; reflexivity]|].
    eexists; split; [reflexivity|]; simpl. split; [assumption|]. apply elem_of_without. auto.
  - destruct (decide (c = c0)) as [->|Hne]; [exfalso; eapply Hno; [reflexivity|match goal with H : chan _ _ _ = _ |- _ => rewrite H end; reflexivity]|].
    eexists; split; [reflexivity|]; simpl. split; [assumption|]. apply elem_of_without. auto.
  - exfalso. match goal with H : is_nil (clients ?y) = true |- _ => destruct (clients y) end; [inversion U8|discriminate].
  - eexists; split; [reflexivity|]; simpl. split; [assumption|]. apply elem_of_app. left. assumption.
  - eexists; split; [reflexivity|]; simpl. split; [assumption|]. apply elem_of_without. split; [|assumption].
    intros ->. same_lookup.
    match goal with H : _ && _ = false |- _ => apply andb_false_iff in H as [H|H] end; bool_hyps; congruence.
Qed.

Lemma pget_Some {A} (f : ppeer -> A) d s p x : ps s !! p = Some x -> pget f d s p = f x.
Proof. intros H. unfold pget. rewrite H. reflexivity. Qed.

Ltac same_target :=
  repeat match goal with
         | H1 : client_of ?y = Some ?a, H2 : client_of ?y = Some ?b |- _ =>
             rewrite H1 in H2; injection H2 as H2; first [subst a | subst b | (constr_eq a b; clear H2)]
         end.

(* what can happen to a client that has moved over to k, seen from that client: nothing, except that
   it connects.  (No message reaches it from k; it has no server; its link, once up, cannot go down
   because k hosts and has it in its client table.) *)
Lemma moved_self s e s' k c x :
  step s e = Some s' -> ps s !! c = Some x -> c <> k ->
  hosting x = false -> client_of x = Some k -> cli_state x = CConnected -> cli_removed x = false ->
  sticky x = false -> srv_added x = false ->
  (link_up x = true -> pget hosting false s k = true /\ c ∈ pget clients [] s k) ->
  chan (down s) k c = [] ->
  exists x', ps s' !! c = Some x' /\ hosting x' = false /\ client_of x' = Some k /\ cli_state x' = CConnected /\
    cli_removed x' = false /\ sticky x' = false /\
    (link_up x' = true -> link_up x = true \/ e = EConnect c).
Proof.
  intros Hs Hx Hck M1 M2 M3 M4 M5 M7 M8 M9. unfold pget in M8.
  destruct e; step_inv Hs; pssimpl; ins_cases; same_lookup; rewrite ?Hx; bool_hyps;
    unfold srv_gate, cli_gate in *; simpl; bool_hyps;
    try (eexists; split; [reflexivity|]; simpl; split_and?; (assumption || reflexivity || (intros; left; assumption) || eauto));
    try congruence.
  all: same_target; same_lookup; try congruence.
  all: try (match goal with H : is_cdisc (cli_state _) = true |- _ => rewrite M3 in H; discriminate end).
  all: try (match goal with H : is_cconnecting (cli_state _) = true |- _ => rewrite M3 in H; discriminate end).
  exfalso. match goal with H : link_up _ = true |- _ => destruct (M8 H) as [Mh Mc] end.
  match goal with H : ps s !! _ = Some ?xk, H' : _ || _ = true |- _ =>
    rewrite H in Mh; rewrite H in Mc; apply orb_true_iff in H' as [H'|H'] end; bool_hyps; congruence.
Qed.

(* a server forgets a client only by time-out (of a client that is not linked to it) or because that
   client announces itself as the new host *)
Lemma clients_shrink_only s e s' h x x' c :
  step s e = Some s' -> ps s !! h = Some x -> ps s' !! h = Some x' -> c ∈ clients x -> c ∉ clients x' ->
  (e = ETimeout h c /\ ~ (pget client_of None s c = Some h /\ pget link_up false s c = true)) \/
  (exists q, e = EDeliverUp c h /\ head (chan (up s) c h) = Some (NewHost q)).
Proof.
  intros Hs Hx Hx' Hin Hnin. unfold pget.
  destruct e; step_inv Hs; pssimpl_in Hx'; ins_cases_in Hx'; same_lookup; rewrite ?Hx in *; simplify_eq; simpl in *;
    try contradiction; try (exfalso; apply Hnin; apply elem_of_app; left; exact Hin).
  all: rewrite elem_of_without in Hnin.
  all: match goal with |- context [ETimeout ?a ?b] => destruct (decide (c = b)) as [->|Hne]
                     | |- context [EDeliverUp ?a ?b] => destruct (decide (c = a)) as [->|Hne] end;
       try (exfalso; apply Hnin; split; assumption).
  all: try (right; eexists; split; [reflexivity|]; match goal with H : chan _ _ _ = _ |- _ => rewrite H end; reflexivity).
  left. split; [reflexivity|]. bool_hyps.
  repeat match goal with H : ps s !! _ = Some _ |- _ => rewrite H end. intros [A B].
  match goal with H : _ && _ = false |- _ => apply andb_false_iff in H as [H|H] end; bool_hyps; congruence.
Qed.

Lemma connect_joins s c s' x h : step s (EConnect c) = Some s' -> ps s !! c = Some x -> client_of x = Some h ->
  c ∈ pget clients [] s' h.
Proof.
  intros Hs Hx Hc. unfold pget. step_inv Hs. injection Hx as <-. same_target. pssimpl.
  rewrite lookup_insert. simpl. apply elem_of_app. right. left.
Qed.

(* the server-side handler of NewHost sets [closing] *)
Lemma newhost_up_sets_closing s c h s' q :
  step s (EDeliverUp c h) = Some s' -> head (chan (up s) c h) = Some (NewHost q) -> pget closing false s' h = true.
Proof.
  intros Hs Hhead. unfold pget. step_inv Hs; simpl in Hhead; try discriminate.
  all: pssimpl; rewrite lookup_insert; reflexivity.
Qed.

Lemma spi_hosting_step k s e s' :
  roles_inv s -> spi k s -> internal e = true -> step s e = Some s' ->
  pget hosting false s k = true -> pget hosting false s' k = true.
Proof.
  intros Hinv (Hk & H1 & H2 & H3 & H4 & H5 & H6 & H7 & H8 & H9 & H10) Hi Hs Hh.
  unfold pget in Hh. destruct (ps s !! k) as [x|] eqn:Hx; [|discriminate].
  destruct (window_step s e s' k x Hx Hh (H8 x eq_refl Hh) Hs) as (x'' & Hx'' & Hh' & _).
  - intros c q -> Hhead. apply head_elem_of in Hhead.
    destruct (H6 _ _ _ Hhead) as [?|(_ & _ & ? & _)]; [discriminate|contradiction].
  - intros h ->. exfalso. destruct (deliver_down_head _ _ _ _ Hs) as [m Hhead]. apply head_elem_of in Hhead.
    destruct (H5 _ _ _ Hhead) as (_ & [(_ & ? & _)|(_ & _ & _ & Hhk)]); [congruence|].
    rewrite (pget_Some _ _ _ _ _ Hx) in Hhk. congruence.
  - rewrite (pget_Some _ _ _ _ _ Hx''). exact Hh'.
Qed.

Lemma spi_step k s e s' : roles_inv s -> spi k s -> internal e = true -> step s e = Some s' -> spi k s'.
Proof.
  intros Hinv Hspi Hi Hs.
  pose proof (spi_hosting_step k s e s' Hinv Hspi Hi Hs) as Hkh.
  destruct Hspi as (Hk & H1 & H2 & H3 & H4 & H5 & H6 & H7 & H8 & H9 & H10).
  pose proof (step_dom _ _ _ Hs) as Hdom.
  assert (Hup : forall c h q, head (chan (up s) c h) = Some (NewHost q) ->
                  q = k /\ c = k /\ h = host /\ pget hosting false s k = true).
  { intros c h q Hh. apply head_elem_of in Hh. destruct (H6 _ _ _ Hh) as [?|(? & ? & ? & ?)]; [discriminate|]. simplify_eq. auto. }
  assert (Hold : forall p x', ps s' !! p = Some x' -> exists x, ps s !! p = Some x).
  { intros p x' Hx'. apply (Hdom p). eauto. }
  split; [exact Hk|]. split_and?.
  - (* hosts *)
    intros p x' Hx' Hh. destruct (Hold _ _ Hx') as [x Hx].
    destruct (hosting x) eqn:Hhx; [eapply H1; eauto|].
    destruct (hosting_rises_only_by_promote s e s' p Hs) as (h & -> & Hhead).
    { rewrite (pget_Some _ _ _ _ _ Hx). exact Hhx. } { rewrite (pget_Some _ _ _ _ _ Hx'). exact Hh. }
    apply head_elem_of in Hhead. destruct (H5 _ _ _ Hhead) as (_ & [(? & _)|(_ & -> & _)]); [discriminate|]. right; reflexivity.
  - (* srv_added *)
    intros p x' Hx' Hh. destruct (Hold _ _ Hx') as [x Hx].
    destruct (srv_added x) eqn:Hhx; [eapply H2; eauto|].
    destruct (srv_added_rises_only_by_promote s e s' p Hs) as (h & -> & Hhead).
    { rewrite (pget_Some _ _ _ _ _ Hx). exact Hhx. } { rewrite (pget_Some _ _ _ _ _ Hx'). exact Hh. }
    apply head_elem_of in Hhead. destruct (H5 _ _ _ Hhead) as (_ & [(? & _)|(_ & -> & _)]); [discriminate|]. reflexivity.
  - (* the target of k *)
    intros x' h Hx' Hc. destruct (Hold _ _ Hx') as [x Hx].
    destruct (decide (client_of x = Some h)) as [Heq|Hne]; [eapply H3; eauto|].
    destruct (client_of_changes_only s e s' k Hs) as [(h0 & q & -> & Hhead & Hq)|[(c & q & -> & Hhead & Hq)|(-> & Hq)]].
    { rewrite (pget_Some _ _ _ _ _ Hx), (pget_Some _ _ _ _ _ Hx'). congruence. }
    + apply head_elem_of in Hhead. destruct (H5 _ _ _ Hhead) as (_ & [(_ & ? & _)|(? & _)]); [congruence|discriminate].
    + destruct (Hup _ _ _ Hhead) as (_ & _ & ? & _). congruence.
    + rewrite (pget_Some _ _ _ _ _ Hx') in Hq. congruence.
  - (* the target of the old host *)
    intros x' h Hx' Hc. destruct (Hold _ _ Hx') as [x Hx].
    destruct (decide (client_of x = Some h)) as [Heq|Hne]; [eapply H4; eauto|].
    destruct (client_of_changes_only s e s' host Hs) as [(h0 & q & -> & Hhead & Hq)|[(c & q & -> & Hhead & Hq)|(-> & Hq)]].
    { rewrite (pget_Some _ _ _ _ _ Hx), (pget_Some _ _ _ _ _ Hx'). congruence. }
    + apply head_elem_of in Hhead. destruct (H5 _ _ _ Hhead) as (_ & [(_ & _ & ? & _)|(? & _)]); [congruence|discriminate].
    + destruct (Hup _ _ _ Hhead) as (-> & _ & _). rewrite (pget_Some _ _ _ _ _ Hx') in Hq. congruence.
    + rewrite (pget_Some _ _ _ _ _ Hx') in Hq. congruence.
  - (* downstream traffic *)
    intros h c m Hm. destruct (down_shape s e s' h c Hi Hs) as (base & l & Heq & Hbase & Hl).
    rewrite Heq in Hm. apply elem_of_app in Hm as [Hm|Hm].
    + assert (Hmo : m ∈ chan (down s) h c).
      { destruct Hbase as [(_ & <-)|[(_ & m0 & ->)| ->]]; [exact Hm|right; exact Hm|inversion Hm]. }
      destruct (H5 _ _ _ Hmo) as (-> & [(-> & ? & ? & ?)|(-> & -> & Hch & Hhk)]); (split; [reflexivity|]); [left; auto|].
      right. split; [reflexivity|]. split; [reflexivity|].
      destruct Hbase as [(Hne & ->)|[(_ & m0 & Hpop)| ->]]; [|rewrite Hch in Hpop; simplify_eq; inversion Hm|inversion Hm].
      split.
      * rewrite Heq, Hch. destruct Hl as [->|(a & q & x & -> & Hhead & Hx & Hin & _)]; [reflexivity|].
        destruct (Hup _ _ _ Hhead) as (_ & -> & _). apply elem_of_without in Hin. tauto.
      * unfold pget in Hhk |- *. destruct (ps s !! k) as [x|] eqn:Hx; [|discriminate].
        destruct (proj2 (Hdom k) (ex_intro _ x Hx)) as [x' Hx']. rewrite Hx'.
        destruct (hosting x') eqn:Hh'; [|reflexivity]. exfalso.
        destruct (hosting_rises_only_by_promote s e s' k Hs) as (h0 & -> & Hhead).
        { rewrite (pget_Some _ _ _ _ _ Hx). exact Hhk. } { rewrite (pget_Some _ _ _ _ _ Hx'). exact Hh'. }
        apply head_elem_of in Hhead. destruct (H5 _ _ _ Hhead) as (-> & _). apply Hne. reflexivity.
    + destruct Hl as [->|(a & q & x & -> & Hhead & Hx & Hin & Hall)]; [inversion Hm|].
      destruct (Hup _ _ _ Hhead) as (-> & -> & -> & Hkhost). rewrite (Hall _ Hm). split; [reflexivity|]. left.
      apply elem_of_without in Hin as [Hne Hin]. split; [reflexivity|]. split; [exact Hne|].
      split; [|apply Hkh; exact Hkhost].
      destruct Hinv as (_ & Hcl & _). destruct (Hcl _ _ _ Hx Hin) as [? _]. assumption.
  - (* upstream traffic *)
    intros c h m Hm. destruct (up_shape s e s' c h Hi Hs) as (base & l & Heq & Hbase & Hl).
    rewrite Heq in Hm. apply elem_of_app in Hm as [Hm|Hm].
    + assert (Hmo : m ∈ chan (up s) c h).
      { destruct Hbase as [(_ & <-)|[(_ & m0 & ->)| ->]]; [exact Hm|right; exact Hm|inversion Hm]. }
      destruct (H6 c h m Hmo) as [?|(? & ? & ? & ?)]; [left; assumption|right; auto].
    + destruct Hl as [->|[(-> & -> & x & Hx & Hco & Hsa & _)|(-> & _)]]; [inversion Hm| |].
      * apply elem_of_list_singleton in Hm as ->. right.
        pose proof (H2 _ _ Hx Hsa) as ->. split; [reflexivity|]. split; [reflexivity|]. split; [eapply H3; eauto|].
        apply Hkh. rewrite (pget_Some _ _ _ _ _ Hx). destruct Hinv as (Hwf & _ & _).
        destruct (Hwf _ _ Hx) as (W1 & _). destruct (hosting x) eqn:Hhx; [reflexivity|].
        destruct (W1 eq_refl) as (_ & _ & ?). congruence.
      * apply elem_of_list_singleton in Hm as ->. left. reflexivity.
  - (* the other clients *)
    intros c x' Hx' Hc0 Hck. destruct (Hold _ _ Hx') as [x Hx].
    destruct (H7 c x Hx Hc0 Hck) as [Hu|(M1 & M2 & M3 & M4 & M5 & M7 & M8)].
    + destruct (untouched_self s e s' c x Hs Hx Hu Hc0) as (x'' & Hx'' & Hcases).
      rewrite Hx' in Hx''. injection Hx'' as <-.
      destruct Hcases as [(U1 & U2 & U3 & U4 & U5)|[(-> & Hhead)|(q & -> & Hhead & N1 & N2 & N3 & N4 & N5 & N7)]].
      * left. unfold untouched. split_and?; try assumption.
        destruct Hu as (_ & V2 & V3 & _ & _ & x0 & V6 & V7 & V8).
        eapply (untouched_host s e s' c x x0); eauto.
        intros q -> Hhead. destruct (Hup _ _ _ Hhead) as (_ & ? & _). contradiction.
      * exfalso. apply head_elem_of in Hhead. destruct (H5 _ _ _ Hhead) as (_ & [(? & _)|(_ & ? & _)]); [discriminate|contradiction].
      * right. apply head_elem_of in Hhead. destruct (H5 _ _ _ Hhead) as (_ & [(Hq & _ & _ & Hkhost)|(? & _)]); [|discriminate].
        injection Hq as ->. unfold moved. split_and?; try assumption; [apply Hkh; exact Hkhost|].
        intros Hl. congruence.
    + right. destruct (moved_self s e s' k c x Hs Hx Hck M1 M2 M3 M4 M5) as (x'' & Hx'' & N1 & N2 & N3 & N4 & N5 & N7).
      * destruct (srv_added x) eqn:Hsa; [|reflexivity]. exfalso. apply Hck. eapply H2; eauto.
      * intros Hl. split; [exact M7|exact (M8 Hl)].
      * destruct (chan (down s) k c) as [|m0 rest] eqn:Hch; [reflexivity|]. exfalso.
        destruct (H5 k c m0) as (Hkhost & _); [rewrite Hch; left|]. apply Hk. exact Hkhost.
      * rewrite Hx' in Hx''. injection Hx'' as <-. unfold moved. split_and?; try assumption; [apply Hkh; exact M7|].
        intros Hl'. destruct (decide (e = EConnect c)) as [->|Hne].
        -- eapply connect_joins; eauto.
        -- destruct (N7 Hl') as [Hl|?]; [|contradiction]. specialize (M8 Hl).
           unfold pget in M7, M8 |- *. destruct (ps s !! k) as [xk|] eqn:Hxk; [|discriminate].
           destruct (proj2 (Hdom k) (ex_intro _ xk Hxk)) as [xk' Hxk']. rewrite Hxk'.
           destruct (decide (c ∈ clients xk')) as [Hin|Hnin]; [exact Hin|]. exfalso.
           destruct (clients_shrink_only s e s' k xk xk' c Hs Hxk Hxk' M8 Hnin) as [(-> & Hnot)|(q & -> & Hhead)].
           ++ apply Hnot. rewrite !(pget_Some _ _ _ _ _ Hx). auto.
           ++ destruct (Hup _ _ _ Hhead) as (_ & ? & _). contradiction.
  - (* the window of k *)
    intros x' Hx' Hh. destruct (Hold _ _ Hx') as [x Hx].
    destruct (hosting x) eqn:Hhx.
    + destruct (window_step s e s' k x Hx Hhx (H8 x Hx Hhx) Hs) as (x'' & Hx'' & _ & Hw).
      * intros c q -> Hhead. destruct (Hup _ _ _ Hhead) as (_ & _ & ? & _). contradiction.
      * intros h ->. exfalso. destruct (deliver_down_head _ _ _ _ Hs) as [m Hhead]. apply head_elem_of in Hhead.
        destruct (H5 _ _ _ Hhead) as (_ & [(_ & ? & _)|(_ & _ & _ & Hhk)]); [congruence|].
        rewrite (pget_Some _ _ _ _ _ Hx) in Hhk. congruence.
      * rewrite Hx' in Hx''. injection Hx'' as <-. exact Hw.
    + destruct (hosting_rises_only_by_promote s e s' k Hs) as (h & -> & Hhead).
      { rewrite (pget_Some _ _ _ _ _ Hx). exact Hhx. } { rewrite (pget_Some _ _ _ _ _ Hx'). exact Hh. }
      destruct (promote_opens_window s h k s' Hinv Hs Hhead) as (x'' & Hx'' & _ & _ & Hw).
      { rewrite (pget_Some _ _ _ _ _ Hx). exact Hhx. }
      rewrite Hx' in Hx''. injection Hx'' as <-. exact Hw.
  - (* the flags of the other clients *)
    intros c x' Hx' Hc0 Hck. destruct (Hold _ _ Hx') as [x Hx]. destruct (H9 c x Hx Hc0 Hck) as [Hf Hcl]. split.
    + destruct (flag x') eqn:Hf'; [|reflexivity]. exfalso.
      destruct (flag_rises_only_by_message s e s' c Hs) as [(h & -> & Hhead)|(a & q & -> & Hhead)].
      { rewrite (pget_Some _ _ _ _ _ Hx). exact Hf. } { rewrite (pget_Some _ _ _ _ _ Hx'). exact Hf'. }
      * apply head_elem_of in Hhead. destruct (H5 _ _ _ Hhead) as (_ & [(? & _)|(_ & ? & _)]); [discriminate|contradiction].
      * destruct (Hup _ _ _ Hhead) as (_ & _ & ? & _). contradiction.
    + destruct (closing x') eqn:Hcl'; [|reflexivity]. exfalso.
      destruct (closing_rises_only_by_newhost s e s' c Hs) as (a & q & -> & Hhead).
      { rewrite (pget_Some _ _ _ _ _ Hx). exact Hcl. } { rewrite (pget_Some _ _ _ _ _ Hx'). exact Hcl'. }
      destruct (Hup _ _ _ Hhead) as (_ & _ & ? & _). contradiction.
  - (* the old host *)
    intros x' Hx' Hh'. destruct (Hold _ _ Hx') as [x Hx].
    assert (Hhx : hosting x = true).
    { destruct (hosting x) eqn:Hhx; [reflexivity|]. exfalso.
      destruct (hosting_rises_only_by_promote s e s' host Hs) as (h & -> & Hhead).
      { rewrite (pget_Some _ _ _ _ _ Hx). exact Hhx. } { rewrite (pget_Some _ _ _ _ _ Hx'). exact Hh'. }
      apply head_elem_of in Hhead. destruct (H5 _ _ _ Hhead) as (_ & [(? & _)|(_ & ? & _)]); [discriminate|].
      apply Hk. symmetry. assumption. }
    destruct (closing x') eqn:Hcl'; [left; reflexivity|right]. split; [reflexivity|].
    destruct (H10 x Hx Hhx) as [Hcl|(Hcl & Hco & Hf)].
    { exfalso. destruct (closing_falls_only_with_server s e s' host Hs) as (_ & Hnh).
      { rewrite (pget_Some _ _ _ _ _ Hx). exact Hcl. } { rewrite (pget_Some _ _ _ _ _ Hx'). exact Hcl'. }
      rewrite (pget_Some _ _ _ _ _ Hx') in Hnh. congruence. }
    assert (Hnew : forall a q, e = EDeliverUp a host -> head (chan (up s) a host) = Some (NewHost q) -> False).
    { intros a q -> Hhead. pose proof (newhost_up_sets_closing s a host s' q Hs Hhead) as Hc.
      rewrite (pget_Some _ _ _ _ _ Hx') in Hc. congruence. }
    split.
    + destruct (decide (client_of x' = None)) as [Hn|Hn]; [exact Hn|]. exfalso.
      destruct (client_of_changes_only s e s' host Hs) as [(h0 & q & -> & Hhead & Hq)|[(a & q & -> & Hhead & Hq)|(-> & Hq)]].
      { rewrite (pget_Some _ _ _ _ _ Hx), (pget_Some _ _ _ _ _ Hx'). congruence. }
      * apply head_elem_of in Hhead. destruct (H5 _ _ _ Hhead) as (_ & [(_ & _ & ? & _)|(_ & ? & _)]); [contradiction|].
        apply Hk. symmetry. assumption.
      * eapply Hnew; eauto.
      * rewrite (pget_Some _ _ _ _ _ Hx') in Hq. contradiction.
    + destruct (flag x') eqn:Hf'; [|reflexivity]. exfalso.
      destruct (flag_rises_only_by_message s e s' host Hs) as [(h & -> & Hhead)|(a & q & -> & Hhead)].
      { rewrite (pget_Some _ _ _ _ _ Hx). exact Hf. } { rewrite (pget_Some _ _ _ _ _ Hx'). exact Hf'. }
      * apply head_elem_of in Hhead. destruct (H5 _ _ _ Hhead) as (_ & [(? & _)|(_ & ? & _)]); [discriminate|].
        apply Hk. symmetry. assumption.
      * eapply Hnew; eauto.
Qed.

Lemma spi_run k tr : forall s s', roles_inv s -> spi k s -> all_internal tr -> run s tr = Some s' ->
  roles_inv s' /\ spi k s' /\ (pget hosting false s k = true -> pget hosting false s' k = true).
Proof.
  induction tr as [|e tr IH]; intros s s' Hinv Hspi Hall Hrun; simpl in Hrun.
  - inversion Hrun; subst. split; [assumption|split; [assumption|intros H; exact H]].
  - destruct (step s e) as [s1|] eqn:Hs; [|discriminate]. apply Forall_cons in Hall as [Hi Hall].
    destruct (IH s1 s' (roles_inv_step _ _ _ Hinv Hs) (spi_step _ _ _ _ Hinv Hspi Hi Hs) Hall Hrun) as (A & B & C).
    split; [exact A|]. split; [exact B|]. intros Hh. apply C. exact (spi_hosting_step _ _ _ _ Hinv Hspi Hi Hs Hh).
Qed.

(* ---------- the state right after the request ---------- *)

Lemma promoted_eq n k : k ∈ client_ids n ->
  step (session n) (EPromote host k) = Some (promoted n k) /\ promoted n k = push_down (session n) host k Promote.
Proof.
  intros Hk. assert (Hk0 : k <> host) by (apply elem_of_client_ids in Hk; unfold host; lia).
  assert (Hstep : step (session n) (EPromote host k) = Some (push_down (session n) host k Promote)).
  { unfold step. rewrite !session_lookup. rewrite decide_True by reflexivity.
    rewrite (decide_False _ _ Hk0), (decide_True _ _ Hk).
    unfold srv_gate, idle_host; simpl. rewrite (bool_decide_eq_true_2 _ Hk). reflexivity. }
  unfold promoted. rewrite Hstep. auto.
Qed.

Lemma spi_promoted n k : k ∈ client_ids n -> roles_inv (promoted n k) /\ spi k (promoted n k).
Proof.
  intros Hk. destruct (promoted_eq n k Hk) as [Hstep Heq].
  split; [eapply roles_inv_step; [apply roles_inv_session|exact Hstep]|].
  assert (Hk0 : k <> host) by (apply elem_of_client_ids in Hk; unfold host; lia).
  rewrite Heq.
  assert (Hl : forall p, ps (push_down (session n) host k Promote) !! p = ps (session n) !! p) by reflexivity.
  assert (Hd : forall h c, chan (down (push_down (session n) host k Promote)) h c =
                           if decide ((h, c) = (host, k)) then [Promote] else []).
  { intros h c. rewrite down_push_down, chan_push. unfold session; simpl. unfold chan. rewrite !lookup_empty. reflexivity. }
  assert (Hu : forall c h, chan (up (push_down (session n) host k Promote)) c h = []).
  { intros c h. unfold chan, session; simpl. rewrite lookup_empty. reflexivity. }
  split; [exact Hk0|]. split_and?.
  - intros p x Hx Hh. rewrite Hl, session_lookup in Hx. repeat case_decide; simplify_eq; simpl in *; try discriminate; auto.
  - intros p x Hx Hh. rewrite Hl, session_lookup in Hx. repeat case_decide; simplify_eq; simpl in *; discriminate.
  - intros x h Hx Hc. rewrite Hl, session_lookup in Hx. repeat case_decide; simplify_eq; simpl in *; try discriminate; try congruence.
  - intros x h Hx Hc. rewrite Hl, session_lookup in Hx. repeat case_decide; simplify_eq; simpl in *; try discriminate; try congruence.
  - intros h c m Hm. rewrite Hd in Hm. case_decide as Hhc; [|inversion Hm]. injection Hhc as -> ->.
    apply elem_of_list_singleton in Hm as ->. split; [reflexivity|]. right. split; [reflexivity|]. split; [reflexivity|].
    split; [rewrite Hd, decide_True by reflexivity; reflexivity|].
    unfold pget. rewrite Hl, session_lookup, (decide_False _ _ Hk0), (decide_True _ _ Hk). reflexivity.
  - intros c h m Hm. rewrite Hu in Hm. inversion Hm.
  - intros c x Hx Hc0 Hck. rewrite Hl, session_lookup in Hx. rewrite (decide_False _ _ Hc0) in Hx.
    case_decide as Hc; simplify_eq. left. unfold untouched, idle_client; simpl. split_and?; try reflexivity.
    exists (idle_host (client_ids n)). rewrite Hl, session_lookup, decide_True by reflexivity. auto.
  - intros x Hx Hh. rewrite Hl, session_lookup in Hx. rewrite (decide_False _ _ Hk0), (decide_True _ _ Hk) in Hx.
    simplify_eq; simpl in *; try discriminate.
  - intros c x Hx Hc0 Hck. rewrite Hl, session_lookup in Hx. rewrite (decide_False _ _ Hc0) in Hx.
    case_decide as Hc; simplify_eq. split; reflexivity.
  - intros x Hx Hh. rewrite Hl, session_lookup in Hx. rewrite decide_True in Hx by reflexivity.
    simplify_eq. right. split_and?; reflexivity.
Qed.

Lemma run_dom tr : forall s s', run s tr = Some s' -> forall p, is_Some (ps s' !! p) <-> is_Some (ps s !! p).
Proof.
  induction tr as [|e tr IH]; intros s s' Hrun p; simpl in Hrun.
  - inversion Hrun; subst. reflexivity.
  - destruct (step s e) as [s1|] eqn:Hs; [|discriminate]. rewrite (IH _ _ Hrun). apply (step_dom _ _ _ Hs).
Qed.

(* ---------- the theorems ---------- *)

(* (1) whatever the application does (any number of promotions, of anybody, at any time) *)
Theorem promotion_preserves_roles_invariant n tr s : run (session n) tr = Some s -> roles_inv s.
Proof. intros Hrun. eapply roles_inv_run; [apply roles_inv_session|exact Hrun]. Qed.
Print Assumptions promotion_preserves_roles_invariant.

(* (2) one promotion in a session of any size: at every point of every run *)
Theorem single_promotion_invariant n k tr s :
  k ∈ client_ids n -> all_internal tr -> run (promoted n k) tr = Some s -> roles_inv s /\ spi k s.
Proof.
  intros Hk Hall Hrun. destruct (spi_promoted n k Hk) as [Hinv Hspi].
  destruct (spi_run k tr _ _ Hinv Hspi Hall Hrun) as (A & B & _). auto.
Qed.
Print Assumptions single_promotion_invariant.

Lemma elem_of_hosts s p : p ∈ hosts s <-> exists x, ps s !! p = Some x /\ hosting x = true.
Proof.
  unfold hosts. rewrite elem_of_list_fmap. split.
  - intros ([q x] & -> & Hin). apply elem_of_list_filter in Hin as [Hh Hin]. apply elem_of_map_to_list in Hin. eauto.
  - intros (x & Hx & Hh). exists (p, x). split; [reflexivity|]. apply elem_of_list_filter. split; [exact Hh|].
    apply elem_of_map_to_list. exact Hx.
Qed.

Corollary at_most_two_hosts n k tr s :
  k ∈ client_ids n -> all_internal tr -> run (promoted n k) tr = Some s -> forall p, p ∈ hosts s -> p = host \/ p = k.
Proof.
  intros Hk Hall Hrun p Hp. destruct (single_promotion_invariant n k tr s Hk Hall Hrun) as (_ & _ & H1 & _).
  apply elem_of_hosts in Hp as (x & Hx & Hh). eauto.
Qed.
Print Assumptions at_most_two_hosts.

(* a promoted peer that hosts keeps hosting *)
Corollary promoted_host_keeps_hosting n k tr s tr' s' :
  k ∈ client_ids n -> all_internal tr -> run (promoted n k) tr = Some s ->
  all_internal tr' -> run s tr' = Some s' ->
  pget hosting false s k = true -> pget hosting false s' k = true.
Proof.
  intros Hk Hall Hrun Hall' Hrun' Hh. destruct (single_promotion_invariant n k tr s Hk Hall Hrun) as (Hinv & Hspi).
  destruct (spi_run k tr' _ _ Hinv Hspi Hall' Hrun') as (_ & _ & C). auto.
Qed.
Print Assumptions promoted_host_keeps_hosting.

(* The other clients, for every n, at every point of every run after the request: a client c other
   than the promoted one is an ordinary client of the old host until it obeys NewHost(k); from then on
   it is a client of the new host k with a FRESH RenetClient that is and stays alive ([moved]: k hosts,
   and once c is linked it is in k's client table, so neither a kick nor a time-out can hit it).  Its
   tracker flags are never set, its RenetClient is never dead: nobody is stranded. *)
Theorem C07_other_clients n k c tr s :
  k ∈ client_ids n -> c ∈ client_ids n -> c <> k -> all_internal tr -> run (promoted n k) tr = Some s ->
  exists x, ps s !! c = Some x /\ (untouched s c x \/ moved s k c x) /\
            flag x = false /\ closing x = false /\ sticky x = false /\ ~ stranded x.
Proof.
  intros Hk Hc Hck Hall Hrun. destruct (single_promotion_invariant n k tr s Hk Hall Hrun) as (Hinv & Hspi).
  destruct Hspi as (Hk0 & H1 & H2 & H3 & H4 & H5 & H6 & H7 & H8 & H9 & H10).
  assert (Hc0 : c <> host) by (apply elem_of_client_ids in Hc; unfold host; lia).
  assert (Hdom : is_Some (ps s !! c)).
  { apply (run_dom _ _ _ Hrun). destruct (promoted_eq n k Hk) as [_ ->]. rewrite ps_push_down, session_lookup.
    rewrite (decide_False _ _ Hc0), (decide_True _ _ Hc). eauto. }
  destruct Hdom as [x Hx]. pose proof (H7 c x Hx Hc0 Hck) as Hcase. destruct (H9 c x Hx Hc0 Hck) as [Hf Hcl].
  assert (Hs : sticky x = false).
  { destruct Hcase as [(_ & _ & U3 & _)|(_ & _ & _ & _ & M5 & _)]; [|exact M5].
    destruct Hinv as (Hwf & _ & _). destruct (Hwf _ _ Hx) as (_ & _ & W3 & _).
    destruct (sticky x); [|reflexivity]. specialize (W3 eq_refl). congruence. }
  exists x. split; [exact Hx|]. split; [exact Hcase|]. split; [exact Hf|]. split; [exact Hcl|]. split; [exact Hs|].
  intros (_ & S2 & _). congruence.
Qed.
Print Assumptions C07_other_clients.

(* The old host, for every n, at every point of every run after the request: as long as it has its
   server it either has not yet handled NewHost(k) (no client transport, flag not set), or [closing]
   is set.  In particular verify_client_connected -- which consumes [flag] when the old host connects
   to k -- can no longer make it keep its server: the rest of S8 is repaired. *)
Theorem old_host_closing n k tr s x0 :
  k ∈ client_ids n -> all_internal tr -> run (promoted n k) tr = Some s ->
  ps s !! host = Some x0 -> hosting x0 = true ->
  closing x0 = true \/ (closing x0 = false /\ client_of x0 = None /\ flag x0 = false).
Proof.
  intros Hk Hall Hrun Hx Hh. destruct (single_promotion_invariant n k tr s Hk Hall Hrun) as (_ & Hspi).
  destruct Hspi as (_ & _ & _ & _ & _ & _ & _ & _ & _ & _ & H10). exact (H10 x0 Hx Hh).
Qed.
Print Assumptions old_host_closing.
Corollary old_host_closing_after_handover n k tr s x0 h :
  k ∈ client_ids n -> all_internal tr -> run (promoted n k) tr = Some s ->
  ps s !! host = Some x0 -> hosting x0 = true -> client_of x0 = Some h -> h = k /\ closing x0 = true.
Proof.
  intros Hk Hall Hrun Hx Hh Hc. destruct (single_promotion_invariant n k tr s Hk Hall Hrun) as (_ & Hspi).
  split; [destruct Hspi as (_ & _ & _ & _ & H4 & _); eapply H4; eauto|].
  destruct (old_host_closing n k tr s x0 Hk Hall Hrun Hx Hh) as [?|(_ & ? & _)]; [assumption|congruence].
Qed.

(* "the old host has handled NewHost(k)" (it is closing, or has already closed its server) is absorbing:
   [closing] stays set as long as the old host has its server, and the old host never hosts again *)
Definition handed_off (s : pstate) : Prop := pget closing false s host = true \/ pget hosting true s host = false.
Lemma handed_off_step k s e s' : spi k s -> step s e = Some s' -> handed_off s -> handed_off s'.
Proof.
  intros (Hk & _ & _ & _ & _ & H5 & _) Hs Hho. unfold handed_off in *.
  assert (Hx : exists x, ps s !! host = Some x).
  { unfold pget in Hho. destruct (ps s !! host) as [x|]; [eauto|]. destruct Hho; discriminate. }
  destruct Hx as [x Hx]. destruct (proj2 (step_dom _ _ _ Hs host) (ex_intro _ x Hx)) as [x' Hx'].
  rewrite !(pget_Some _ _ _ _ _ Hx) in Hho. rewrite !(pget_Some _ _ _ _ _ Hx').
  destruct Hho as [Hc|Hh].
  - destruct (closing x') eqn:Hc'; [left; reflexivity|right].
    destruct (closing_falls_only_with_server s e s' host Hs) as [_ Hnh].
    { rewrite (pget_Some _ _ _ _ _ Hx). exact Hc. } { rewrite (pget_Some _ _ _ _ _ Hx'). exact Hc'. }
    rewrite (pget_Some _ _ _ _ _ Hx') in Hnh. exact Hnh.
  - right. destruct (hosting x') eqn:Hh'; [|reflexivity]. exfalso.
    destruct (hosting_rises_only_by_promote s e s' host Hs) as (h & -> & Hhead).
    { rewrite (pget_Some _ _ _ _ _ Hx). exact Hh. } { rewrite (pget_Some _ _ _ _ _ Hx'). exact Hh'. }
    apply head_elem_of in Hhead. destruct (H5 _ _ _ Hhead) as (_ & [(? & _)|(_ & ? & _)]); [discriminate|].
    apply Hk. symmetry. assumption.
Qed.
Theorem old_host_closing_persists n k tr s tr' s' :
  k ∈ client_ids n -> all_internal tr -> run (promoted n k) tr = Some s -> handed_off s ->
  all_internal tr' -> run s tr' = Some s' -> handed_off s'.
Proof.
  intros Hk Hall Hrun Hho Hall' Hrun'. destruct (single_promotion_invariant n k tr s Hk Hall Hrun) as (Hinv & Hspi).
  clear Hrun Hall. revert s Hinv Hspi Hho Hall' Hrun'.
  induction tr' as [|e tr' IH]; intros s Hinv Hspi Hho Hall' Hrun'; simpl in Hrun'.
  - inversion Hrun'; subst. exact Hho.
  - destruct (step s e) as [s1|] eqn:Hs; [|discriminate]. apply Forall_cons in Hall' as [Hi Hall'].
    eapply (IH s1); eauto using roles_inv_step, spi_step, handed_off_step.
Qed.
Print Assumptions old_host_closing_persists.

(* ... and a closing server closes as soon as a ClientDisconnected finds its client table empty
   (any session, any peer) *)
Lemma closing_closes s h x c q :
  ps s !! h = Some x -> srv_gate x = true -> flag x = true \/ closing x = true ->
  clients x = [] -> srv_events x = (false, c) :: q ->
  exists s' x', step s (ENotify h) = Some s' /\ ps s' !! h = Some x' /\
    hosting x' = false /\ srv_removed x' = true /\ flag x' = false /\ closing x' = false /\ srv_events x' = [].
Proof.
  intros Hx Hg Hfc Hcl Hev. unfold step. rewrite Hx, Hg, Hev, Hcl. simpl.
  assert (Hb : flag x || closing x = true) by (destruct Hfc as [-> | ->]; [reflexivity|apply orb_true_r]).
  rewrite Hb. eexists _, _. split; [reflexivity|]. pssimpl. rewrite lookup_insert. split; [reflexivity|].
  simpl. split_and?; reflexivity.
Qed.

(* (3) a promoted peer that hosts keeps hosting, in ANY session and whatever else goes on (other
   promotions included), as long as it does not itself handle another promotion message *)
Theorem hosting_after_promotion s h p s1 tr s' :
  roles_inv s -> step s (EDeliverDown h p) = Some s1 -> head (chan (down s) h p) = Some Promote ->
  pget hosting true s p = false ->
  run s1 tr = Some s' -> quiet_for p s1 tr -> pget hosting false s' p = true.
Proof.
  intros Hinv Hs Hhead Hnh Hrun Hq.
  destruct (promote_opens_window s h p s1 Hinv Hs Hhead Hnh) as (x1 & Hx1 & Hh1 & _ & Hw1).
  clear Hs Hhead Hnh Hinv. revert s1 x1 Hx1 Hh1 Hw1 Hrun Hq.
  induction tr as [|e tr IH]; intros s1 x1 Hx1 Hh1 Hw1 Hrun Hq; simpl in Hrun, Hq.
  - inversion Hrun; subst. rewrite (pget_Some _ _ _ _ _ Hx1). exact Hh1.
  - destruct Hq as [Hnot Hq]. destruct (step s1 e) as [s2|] eqn:Hs; [|discriminate].
    destruct (window_step s1 e s2 p x1 Hx1 Hh1 Hw1 Hs) as (x2 & Hx2 & Hh2 & Hw2).
    + intros c q -> Hc. apply Hnot. left. eauto.
    + intros h' ->. destruct (decide (head (chan (down s1) h' p) = Some ReqInit)) as [Hy|Hn]; [exact Hy|].
      exfalso. apply Hnot. right. eauto.
    + eapply IH; eauto.
Qed.
Print Assumptions hosting_after_promotion.

Definition handles_promo_msgb (s : pstate) (e : pevent) (p : peer) : bool :=
  match e with
  | EDeliverUp c p' => bool_decide (p' = p) && match head (chan (up s) c p) with Some (NewHost _) => true | _ => false end
  | EDeliverDown h p' => bool_decide (p' = p) && negb (bool_decide (head (chan (down s) h p) = Some ReqInit))
  | _ => false
  end.
Lemma handles_promo_msgb_complete s e p : handles_promo_msg s e p -> handles_promo_msgb s e p = true.
Proof.
  intros [(c & q & -> & Hh)|(h & -> & Hh)]; simpl.
  - rewrite bool_decide_eq_true_2 by reflexivity. rewrite Hh. reflexivity.
  - rewrite bool_decide_eq_true_2 by reflexivity. rewrite bool_decide_eq_false_2 by exact Hh. reflexivity.
Qed.
Fixpoint quiet_forb (p : peer) (s : pstate) (tr : list pevent) : bool :=
  match tr with
  | [] => true
  | e :: tr => negb (handles_promo_msgb s e p) && match step s e with Some s' => quiet_forb p s' tr | None => true end
  end.
Lemma quiet_forb_true p tr : forall s, quiet_forb p s tr = true -> quiet_for p s tr.
Proof.
  induction tr as [|e tr IH]; intros s Hq; simpl in *; [exact I|].
  apply andb_true_iff in Hq as [Hn Hq]. split.
  - intros Hh. apply handles_promo_msgb_complete in Hh. rewrite Hh in Hn. discriminate.
  - destruct (step s e); [apply IH; exact Hq|exact I].
Qed.

(* the run of Promotion.ex_two_clients to its end (without its first event, the request itself) *)
Definition two_clients_run : list pevent := tail ex_two_clients ++ [ETimeout 0 2; ENotify 0; ESrvDown 0].
Definition two_clients_state : pstate := default (session 2) (run (promoted 2 1) two_clients_run).
Example two_clients_run_runs : all_internal two_clients_run /\ run (promoted 2 1) two_clients_run = Some two_clients_state.
Proof. split; [unfold all_internal; repeat constructor|vm_compute; reflexivity]. Qed.

(* non-vacuity: the promoted peer of that run; the rest of the run is quiet for peer 1 *)
Example hosting_after_promotion_example :
  let s1 := default (session 2) (step (promoted 2 1) (EDeliverDown 0 1)) in
  step (promoted 2 1) (EDeliverDown 0 1) = Some s1 /\
  head (chan (down (promoted 2 1)) 0 1) = Some Promote /\
  pget hosting true (promoted 2 1) 1 = false /\
  run s1 (tail two_clients_run) = Some two_clients_state /\ quiet_for 1 s1 (tail two_clients_run).
Proof.
  cbv zeta. split; [vm_compute; reflexivity|]. split; [vm_compute; reflexivity|]. split; [vm_compute; reflexivity|].
  split; [vm_compute; reflexivity|]. apply quiet_forb_true. vm_compute. reflexivity.
Qed.

(* non-vacuity of old_host_closing_after_handover and closing_closes: the real-code run right after
   verify_client_connected on the old host (EVerify 0): server, client transport towards 1, flag
   consumed, closing set; and two events later the last ClientDisconnected closes the server *)
Example old_host_closing_example :
  let s := default (session 2) (run (promoted 2 1) (take 12 two_clients_run)) in
  run (promoted 2 1) (take 12 two_clients_run) = Some s /\ all_internal (take 12 two_clients_run) /\
  pget hosting false s host = true /\ pget client_of None s host = Some 1 /\ pget flag true s host = false /\
  pget closing false s host = true /\ pget clients [] s host = [2] /\
  (fun s' => (pget hosting true s' host, pget closing true s' host, pget srv_removed false s' host))
    <$> run s [EConnect 2; ENotify 1; ETimeout 0 2; ENotify 0] = Some (false, false, true).
Proof.
  cbv zeta. split; [vm_compute; reflexivity|]. split; [unfold all_internal; simpl; repeat constructor|].
  split_and?; vm_compute; reflexivity.
Qed.

(* ---------- a server whose flags are not set is never closed ---------- *)

(* the only place that closes a server tests flag || closing; both are set only by promotion messages *)
Lemma hosting_without_flag_step s e s' p :
  step s e = Some s' -> pget hosting false s p = true -> pget flag true s p = false -> pget closing true s p = false ->
  (forall c q, e = EDeliverUp c p -> head (chan (up s) c p) <> Some (NewHost q)) ->
  (forall h, e = EDeliverDown h p -> head (chan (down s) h p) = Some ReqInit) ->
  pget hosting false s' p = true /\ pget flag true s' p = false /\ pget closing true s' p = false.
Proof.
  intros Hs Hh Hf Hc Hno1 Hno2. unfold pget in Hh, Hf, Hc. destruct (ps s !! p) as [x|] eqn:Hx; [|discriminate].
  destruct (proj2 (step_dom _ _ _ Hs p) (ex_intro _ x Hx)) as [x' Hx'].
  rewrite !(pget_Some _ _ _ _ _ Hx'). split_and?.
  - destruct (hosting x') eqn:Hh'; [reflexivity|]. exfalso.
    destruct (hosting_falls_only_when s e s' p Hs) as (_ & y & c & q & Hy & _ & Hfy & _).
    { rewrite (pget_Some _ _ _ _ _ Hx). exact Hh. } { rewrite (pget_Some _ _ _ _ _ Hx'). exact Hh'. }
    rewrite Hx in Hy. injection Hy as <-. destruct Hfy; congruence.
  - destruct (flag x') eqn:Hf'; [|reflexivity]. exfalso.
    destruct (flag_rises_only_by_message s e s' p Hs) as [(h & -> & Hhead)|(c & q & -> & Hhead)].
    { rewrite (pget_Some _ _ _ _ _ Hx). exact Hf. } { rewrite (pget_Some _ _ _ _ _ Hx'). exact Hf'. }
    + rewrite (Hno2 h eq_refl) in Hhead. discriminate.
    + exact (Hno1 c q eq_refl Hhead).
  - destruct (closing x') eqn:Hc'; [|reflexivity]. exfalso.
    destruct (closing_rises_only_by_newhost s e s' p Hs) as (c & q & -> & Hhead).
    { rewrite (pget_Some _ _ _ _ _ Hx). exact Hc. } { rewrite (pget_Some _ _ _ _ _ Hx'). exact Hc'. }
    exact (Hno1 c q eq_refl Hhead).
Qed.

(* in ANY session, whatever goes on (promotions included): a peer that hosts with neither flag set
   keeps hosting as long as it does not itself handle a promotion message *)
Theorem hosting_without_flag s p tr s' :
  pget hosting false s p = true -> pget flag true s p = false -> pget closing true s p = false ->
  run s tr = Some s' -> quiet_for p s tr ->
  pget hosting false s' p = true /\ pget flag true s' p = false /\ pget closing true s' p = false.
Proof.
  revert s. induction tr as [|e tr IH]; intros s Hh Hf Hc Hrun Hq; simpl in Hrun, Hq.
  - inversion Hrun; subst. auto.
  - destruct Hq as [Hnot Hq]. destruct (step s e) as [s1|] eqn:Hs; [|discriminate].
    destruct (hosting_without_flag_step s e s1 p Hs Hh Hf Hc) as (Hh1 & Hf1 & Hc1).
    + intros c q -> Hhd. apply Hnot. left. eauto.
    + intros h' ->. destruct (decide (head (chan (down s) h' p) = Some ReqInit)) as [Hy|Hn]; [exact Hy|].
      exfalso. apply Hnot. right. eauto.
    + eapply IH; eauto.
Qed.
Print Assumptions hosting_without_flag.

(* one promotion, any n: once the hand-over has reached the old host it has reached it for good *)
Lemma pending_absorbing k s e s' :
  spi k s -> internal e = true -> step s e = Some s' -> ~ handover_pending k s -> ~ handover_pending k s'.
Proof.
  intros (Hk & H1 & H2 & H3 & H4 & H5 & H6 & H7 & H8 & H9 & H10) Hi Hs Hn [Hp|[Hp|Hp]]; apply Hn.
  - (* a Promote in flight was in flight before *)
    destruct (down_shape s e s' host k Hi Hs) as (base & l & Heq & Hbase & Hl).
    rewrite Heq in Hp. apply elem_of_app in Hp as [Hp|Hp].
    + left. destruct Hbase as [(_ & <-)|[(_ & m0 & ->)| ->]]; [exact Hp|right; exact Hp|inversion Hp].
    + destruct Hl as [->|(a & q & x & _ & _ & _ & _ & Hall)]; [inversion Hp|]. specialize (Hall _ Hp). discriminate.
  - (* the server transport of k appears only when the Promote is handled *)
    unfold pget in Hp. destruct (ps s' !! k) as [x'|] eqn:Hx'; [|discriminate].
    destruct (proj1 (step_dom _ _ _ Hs k) (ex_intro _ x' Hx')) as [x Hx].
    destruct (srv_added x) eqn:Hsa; [right; left; rewrite (pget_Some _ _ _ _ _ Hx); exact Hsa|].
    destruct (srv_added_rises_only_by_promote s e s' k Hs) as (h & -> & Hhead).
    { rewrite (pget_Some _ _ _ _ _ Hx). exact Hsa. } { rewrite (pget_Some _ _ _ _ _ Hx'). exact Hp. }
    apply head_elem_of in Hhead. destruct (H5 _ _ _ Hhead) as (-> & _). left. exact Hhead.
  - (* NewHost(k) is sent only when ServerState enters Connected after that *)
    destruct (up_shape s e s' k host Hi Hs) as (base & l & Heq & Hbase & Hl).
    rewrite Heq in Hp. apply elem_of_app in Hp as [Hp|Hp].
    + right; right. destruct Hbase as [(_ & <-)|[(_ & m0 & ->)| ->]]; [exact Hp|right; exact Hp|inversion Hp].
    + destruct Hl as [->|[(_ & _ & x & Hx & _ & Hsa & _)|(-> & _)]]; [inversion Hp| |].
      * right; left. rewrite (pget_Some _ _ _ _ _ Hx). exact Hsa.
      * apply elem_of_list_singleton in Hp. discriminate.
Qed.

Global Instance handover_pending_dec k s : Decision (handover_pending k s).
Proof. unfold handover_pending. apply _. Defined.

(* ================================================================================================
   Part 5: C07 with TWO and THREE clients -- every interleaving, with a termination measure
   ================================================================================================ *)

Example session_2_roles :
  roles (session 2) = [(0, (true, SConnected, [1; 2], None, CDisconnected, false, false, false));
                       (1, (false, SDisconnected, [], Some 0, CConnected, true, false, false));
                       (2, (false, SDisconnected, [], Some 0, CConnected, true, false, false))].
Proof. vm_compute. reflexivity. Qed.

(* [promotion_outcome] (Promotion.v), said with quantifiers *)
Lemma promotion_outcome_spec s k : promotion_outcome s k ->
  no_traffic s /\
  (exists xk, ps s !! k = Some xk /\ pure_host xk (clients xk) /\
              forall p, p <> k -> is_Some (ps s !! p) -> p ∈ clients xk) /\
  (forall p x, ps s !! p = Some x -> p <> k -> pure_client x k) /\
  (forall p, p ∈ hosts s -> p = k).
Proof.
  intros (Hu & Hd & Hk & Hall). split; [split; assumption|]. split; [|split].
  - destruct (ps s !! k) as [xk|] eqn:Hxk; [|contradiction]. destruct Hk as [Hph Hcl].
    exists xk. split; [reflexivity|]. split; [exact Hph|]. intros p Hp [x Hx]. exact (Hcl p x Hx Hp).
  - intros p x Hx Hp. exact (Hall p x Hx Hp).
  - intros p Hp. apply elem_of_hosts in Hp as (x & Hx & Hh).
    destruct (decide (p = k)) as [->|Hpk]; [reflexivity|].
    destruct (Hall p x Hx Hpk) as (Hh' & _). congruence.
Qed.

(* the stable end states, as the checker sees them: the goal of C07, the detailed outcome, and the number
   of clients of the new host (with the membership part of the outcome: exactly all other peers) *)
Definition endb (k : peer) (nclients : nat) (s : pstate) : bool :=
  bool_decide (session_ok s k) && bool_decide (promotion_outcome s k)
  && bool_decide (length (pget clients [] s k) = nclients).
Lemma endb_true k n s : endb k n s = true ->
  session_ok s k /\ promotion_outcome s k /\ length (pget clients [] s k) = n.
Proof. unfold endb. rewrite !andb_true_iff, !bool_decide_eq_true. tauto. Qed.

(* what the exhaustive check of a reachable set gives (the shape of C07_single_client_promotion) *)
Lemma promotion_checked n k nclients R :
  checked (endb k nclients) R -> promoted n k ∈ R ->
  forall tr s, all_internal tr -> run (promoted n k) tr = Some s ->
    (length tr + measure s <= measure (promoted n k))%nat
    /\ (stable s -> session_ok s k /\ promotion_outcome s k /\ length (pget clients [] s k) = nclients)
    /\ (~ stable s -> exists e s', internal e = true /\ step s e = Some s' /\ (measure s' < measure s)%nat)
    /\ (exists tr' s', all_internal tr' /\ run s tr' = Some s' /\ stable s' /\ session_ok s' k /\ promotion_outcome s' k).
Proof.
  intros Hc Hs0 tr s Hall Hrun.
  destruct (check_run _ _ Hc _ _ _ Hs0 Hall Hrun) as [Hin Hle].
  split; [exact Hle|]. split; [|split].
  - intros Hst. exact (endb_true _ _ _ (check_stable _ _ _ Hc Hin Hst)).
  - intros Hn. destruct (not_stable _ Hn) as (e & s' & Hi & Hs). exists e, s'.
    split; [exact Hi|]. split; [exact Hs|]. exact (proj2 (check_step _ _ _ _ _ Hc Hin Hi Hs)).
  - destruct (check_completes _ _ Hc _ Hin) as (tr' & s' & H1 & H2 & H3 & _ & H4).
    destruct (endb_true _ _ _ H4) as (Hok & Hout & _). exists tr', s'. auto.
Qed.

(* ---------- two clients: all 1025 states reachable after the request ---------- *)
Definition R2 : list pstate := default [] (explore_h (100 * 100) [promoted 2 1] ∅ []).
Lemma R2_checked : checked (endb 1 2) R2.
Proof. apply checkb_h_checked. vm_cast_no_check (eq_refl true). Qed.
Lemma R2_start : promoted 2 1 ∈ R2.
Proof. apply inb_true. vm_compute. reflexivity. Qed.
Example R2_size : length R2 = 1025%nat /\ measure (promoted 2 1) = 50%nat.
Proof. split; vm_compute; reflexivity. Qed.

(* With two clients EVERY run terminates, and every run that cannot be continued has reached the goal:
   exactly one host, the promoted peer 1, hosting exactly 0 and 2; both are nothing but connected
   clients of 1 with a live RenetClient and no flag; the old host has closed its server *)
Theorem C07_two_clients_promotion :
  forall tr s, all_internal tr -> run (promoted 2 1) tr = Some s ->
    (length tr + measure s <= measure (promoted 2 1%N))%nat
    /\ (stable s -> session_ok s 1 /\ promotion_outcome s 1 /\ length (pget clients [] s 1) = 2%nat)
    /\ (~ stable s -> exists e s', internal e = true /\ step s e = Some s' /\ (measure s' < measure s)%nat)
    /\ (exists tr' s', all_internal tr' /\ run s tr' = Some s' /\ stable s' /\ session_ok s' 1 /\ promotion_outcome s' 1).
Proof. exact (promotion_checked 2 1 2 R2 R2_checked R2_start). Qed.
Print Assumptions C07_two_clients_promotion.

Theorem C07_two_clients : C07_statement 2 1.
Proof. intros tr s Hall Hrun Hst. destruct (C07_two_clients_promotion tr s Hall Hrun) as (_ & H & _). exact (proj1 (H Hst)). Qed.
Print Assumptions C07_two_clients.

(* no run after the request has more than 50 events *)
Corollary C07_two_clients_bound tr s : all_internal tr -> run (promoted 2 1) tr = Some s -> (length tr <= 50)%nat.
Proof. intros Ha Hr. destruct (C07_two_clients_promotion _ _ Ha Hr) as [H _]. rewrite (proj2 R2_size) in H. lia. Qed.

(* the same for the promotion of the OTHER client (peer 2) *)
Definition R2' : list pstate := default [] (explore_h (100 * 100) [promoted 2 2] ∅ []).
Lemma R2'_checked : inb (promoted 2 2) R2' && checkb_h (endb 2 2) R2' = true.
Proof. vm_cast_no_check (eq_refl true). Qed.
Theorem C07_two_clients_other : C07_statement 2 2.
Proof.
  pose proof R2'_checked as H. apply andb_true_iff in H as [H0 Hc]. apply inb_true in H0. apply checkb_h_checked in Hc.
  intros tr s Hall Hrun Hst. destruct (promotion_checked 2 2 2 R2' Hc H0 tr s Hall Hrun) as (_ & H & _). exact (proj1 (H Hst)).
Qed.
Print Assumptions C07_two_clients_other.

(* the ending of the real-code run (Promotion.ex_two_clients, then the 15 s time-out) *)
Example two_clients_state_roles :
  roles two_clients_state = [(0, (false, SDisconnected, [], Some 1, CConnected, true, false, false));
                             (1, (true, SConnected, [0; 2], None, CDisconnected, false, true, false));
                             (2, (false, SDisconnected, [], Some 1, CConnected, true, false, false))]
  /\ stable two_clients_state /\ session_ok two_clients_state 1 /\ promotion_outcome two_clients_state 1.
Proof.
  split; [vm_compute; reflexivity|]. split; [apply stableb_true; vm_compute; reflexivity|].
  split; apply (bool_decide_unpack _); vm_compute; exact I.
Qed.

(* ---------- three clients: 4 peers, 25905 reachable states ---------- *)
Definition R3 : list pstate := default [] (explore_h (1000 * 1000) [promoted 3 1] ∅ []).
Lemma R3_checked_b : (N.of_nat (length R3) =? 25905) && inb (promoted 3 1) R3 && checkb_h (endb 1 3) R3 = true.
Proof. vm_cast_no_check (eq_refl true). Qed.
Lemma R3_checked : N.of_nat (length R3) = 25905 /\ promoted 3 1 ∈ R3 /\ checked (endb 1 3) R3.
Proof.
  pose proof R3_checked_b as H. apply andb_true_iff in H as [H H3]. apply andb_true_iff in H as [H1 H2].
  split; [apply N.eqb_eq; exact H1|]. split; [apply inb_true; exact H2|apply checkb_h_checked; exact H3].
Qed.

Theorem C07_three_clients_promotion :
  forall tr s, all_internal tr -> run (promoted 3 1) tr = Some s ->
    (length tr + measure s <= measure (promoted 3 1%N))%nat
    /\ (stable s -> session_ok s 1 /\ promotion_outcome s 1 /\ length (pget clients [] s 1) = 3%nat)
    /\ (~ stable s -> exists e s', internal e = true /\ step s e = Some s' /\ (measure s' < measure s)%nat)
    /\ (exists tr' s', all_internal tr' /\ run s tr' = Some s' /\ stable s' /\ session_ok s' 1 /\ promotion_outcome s' 1).
Proof. destruct R3_checked as (_ & Hs0 & Hc). exact (promotion_checked 3 1 3 R3 Hc Hs0). Qed.
Print Assumptions C07_three_clients_promotion.

Theorem C07_three_clients : C07_statement 3 1.
Proof. intros tr s Hall Hrun Hst. destruct (C07_three_clients_promotion tr s Hall Hrun) as (_ & H & _). exact (proj1 (H Hst)). Qed.
Print Assumptions C07_three_clients.

Example measure_promoted_3_1 : measure (promoted 3 1) = 64%nat.
Proof. vm_compute. reflexivity. Qed.
Corollary C07_three_clients_bound tr s : all_internal tr -> run (promoted 3 1) tr = Some s -> (length tr <= 64)%nat.
Proof. intros Ha Hr. destruct (C07_three_clients_promotion _ _ Ha Hr) as [H _]. rewrite measure_promoted_3_1 in H. lia. Qed.

(* three clients, the real-code order: both other clients join 1; the old host joins 1, loses its flag to
   verify_client_connected, and closes its server when the last of its old clients has timed out *)
Definition ex_three_clients : list pevent :=
  [EDeliverDown 0 1; ESrvUp 1; EDeliverUp 1 0; ELinkDown 1; ENotify 0; ECliConnecting 0;
   EDeliverDown 0 2; EDeliverDown 0 3; ECliConnecting 2; ECliConnecting 3;
   EConnect 0; ENotify 1; ECliDown 1; EVerify 0; EConnect 2; EConnect 3; ENotify 1; ENotify 1;
   ETimeout 0 2; ENotify 0; ETimeout 0 3; ENotify 0; ESrvDown 0].
Example ex_three_clients_runs :
  (fun s => (roles s, stableb s, hosts s, endb 1 3 s)) <$> run (promoted 3 1) ex_three_clients
  = Some ([(0, (false, SDisconnected, [], Some 1, CConnected, true, false, false));
           (1, (true, SConnected, [0; 2; 3], None, CDisconnected, false, true, false));
           (3, (false, SDisconnected, [], Some 1, CConnected, true, false, false));
           (2, (false, SDisconnected, [], Some 1, CConnected, true, false, false))], true, [1], true).
Proof. vm_compute. reflexivity. Qed.


(* ---------- sessions of any size ---------- *)

(* the full statement for every n *)
Definition C07_all_n_statement : Prop := forall n k, k ∈ client_ids n -> C07_statement n k.

(* What is proved of it: the instances with up to three clients (every interleaving, with termination),
   and for EVERY n the safety half -- at every point of every run after the request the invariants of
   Part 4 hold: at most two servers (the old host's and k's); k, once it hosts, hosts for ever; every
   other client is untouched or has moved to k with a fresh RenetClient that stays alive, its flags
   are never set; the old host, while it still has its server after handling NewHost(k), is closing
   and stays so (old_host_closing, old_host_closing_persists), and closes as soon as a
   ClientDisconnected finds its client table empty (closing_closes).
   The full statement for arbitrary n -- termination (the decrease of [measure]) and "a stable state is
   session_ok" through the progress invariant -- is proved in PromotionMeasure.v and PromotionAllN.v
   (C07_all_n, C07_all_n_promotion); the theorem below is what this file contributes to it. *)
Theorem C07_all_n_partial :
  C07_statement 1 1 /\ C07_statement 2 1 /\ C07_statement 2 2 /\ C07_statement 3 1 /\
  forall n k tr s, k ∈ client_ids n -> all_internal tr -> run (promoted n k) tr = Some s ->
    roles_inv s /\ spi k s /\
    (forall p, p ∈ hosts s -> p = host \/ p = k) /\
    (forall c, c ∈ client_ids n -> c <> k ->
       exists x, ps s !! c = Some x /\ (untouched s c x \/ moved s k c x) /\
                 flag x = false /\ closing x = false /\ sticky x = false /\ ~ stranded x) /\
    (forall x0, ps s !! host = Some x0 -> hosting x0 = true ->
       closing x0 = true \/ (closing x0 = false /\ client_of x0 = None /\ flag x0 = false)).
Proof.
  split; [exact C07_single_client|]. split; [exact C07_two_clients|]. split; [exact C07_two_clients_other|].
  split; [exact C07_three_clients|]. intros n k tr s Hk Hall Hrun.
  destruct (single_promotion_invariant n k tr s Hk Hall Hrun) as (Hinv & Hspi).
  split; [exact Hinv|]. split; [exact Hspi|]. split; [exact (at_most_two_hosts n k tr s Hk Hall Hrun)|].
  split; [intros c Hc Hck; exact (C07_other_clients n k c tr s Hk Hc Hck Hall Hrun)|].
  intros x0 Hx Hh. exact (old_host_closing n k tr s x0 Hk Hall Hrun Hx Hh).
Qed.
Print Assumptions C07_all_n_partial.

(* ================================================================================================
   Part 6: a chain of promotions (two peers): promote 1, promote 0 back, promote 1 again, ...
   ================================================================================================ *)

(* The first hand-over has exactly two outcomes.  They differ in ONE bit: whether the kick
   (server.disconnect(1) on the old host) reached peer 1's RenetClient while peer 1 still had its
   old client transport (ELinkDown 1 before ENotify 1) -- on a real network it does.  After the
   repair that bit no longer matters: the next NewHost handler replaces the RenetClient. *)
Definition finals (R : list pstate) : list pstate := filter (fun s => stableb s = true) R.
Definition finals1 : list pstate := finals R1.
Example finals1_roles :
  roles <$> finals1 = [ [(0, (false, SDisconnected, [], Some 1, CConnected, true, false, false));
                         (1, (true, SConnected, [0], None, CDisconnected, false, true, false))];
                        [(0, (false, SDisconnected, [], Some 1, CConnected, true, false, false));
                         (1, (true, SConnected, [0], None, CDisconnected, false, false, false))] ].
Proof. vm_compute. reflexivity. Qed.

(* all stable states reachable from a state of Fs after the request "h promotes k" *)
Definition next (h k : peer) (Fs : list pstate) : list pstate :=
  remove_dups (Fs ≫= fun F => finals (default [] (explore 1000 [promote_in F h k] []))).
Definition finals2 : list pstate := next 1 0 finals1.
Example finals2_roles :
  roles <$> finals2 = [ [(0, (true, SConnected, [1], None, CDisconnected, false, false, false));
                         (1, (false, SDisconnected, [], Some 0, CConnected, true, false, false))];
                        [(0, (true, SConnected, [1], None, CDisconnected, false, true, false));
                         (1, (false, SDisconnected, [], Some 0, CConnected, true, false, false))] ].
Proof. vm_compute. reflexivity. Qed.
(* the third promotion leads back to the outcomes of the first: the chain closes *)
Example finals3_eq : next 0 1 finals2 ⊆ finals1 /\ finals1 ⊆ next 0 1 finals2.
Proof. split; apply (bool_decide_unpack _); vm_compute; exact I. Qed.

(* one hop "h promotes k" from every state of Fs: the request is accepted, every run terminates, every
   stable end is handed over to k and lies in Gs *)
Definition hopb (Fs Gs : list pstate) (h k : peer) : bool :=
  forallb (fun F => let s0 := promote_in F h k in
                    let R := default [] (explore 1000 [s0] []) in
                    bool_decide (step F (EPromote h k) = Some s0) && inb s0 R &&
                    checkb (fun s => handed_overb s k h && inb s Gs) R) Fs.

Lemma hop_sound Fs Gs h k : hopb Fs Gs h k = true -> forall F, F ∈ Fs ->
  step F (EPromote h k) = Some (promote_in F h k) /\
  forall tr s, all_internal tr -> run (promote_in F h k) tr = Some s ->
    (length tr + measure s <= measure (promote_in F h k))%nat /\
    (stable s -> handed_over s k h /\ s ∈ Gs) /\
    (exists tr' s', all_internal tr' /\ run s tr' = Some s' /\ stable s' /\ handed_over s' k h).
Proof.
  unfold hopb. rewrite forallb_forall. intros Hb F HF.
  specialize (Hb F (proj1 (elem_of_list_In _ _) HF)). cbv zeta in Hb.
  apply andb_true_iff in Hb as [Hb Hc]. apply andb_true_iff in Hb as [Hp Hs0].
  apply bool_decide_eq_true in Hp. apply inb_true in Hs0. apply checkb_checked in Hc.
  split; [exact Hp|]. intros tr s Hall Hrun.
  destruct (check_run _ _ Hc _ _ _ Hs0 Hall Hrun) as [Hin Hle].
  split; [exact Hle|]. split.
  - intros Hst. pose proof (check_stable _ _ _ Hc Hin Hst) as Hg. apply andb_true_iff in Hg as [Hg1 Hg2].
    split; [apply handed_overb_true; exact Hg1|apply inb_true; exact Hg2].
  - destruct (check_completes _ _ Hc _ Hin) as (tr' & s' & H1 & H2 & H3 & _ & H4).
    exists tr', s'. split; [exact H1|]. split; [exact H2|]. split; [exact H3|].
    apply handed_overb_true. exact (proj1 (proj1 (andb_true_iff _ _) H4)).
Qed.

Lemma hop12 : hopb finals1 finals2 1 0 = true.
Proof. vm_cast_no_check (eq_refl true). Qed.
Lemma hop21 : hopb finals2 finals1 0 1 = true.
Proof. vm_cast_no_check (eq_refl true). Qed.

Lemma finals1_complete tr F : all_internal tr -> run (promoted 1 1) tr = Some F -> stable F -> F ∈ finals1.
Proof.
  intros Hall Hrun Hst. destruct (check_run _ _ R1_checked _ _ _ R1_start Hall Hrun) as [Hin _].
  unfold finals1, finals. apply elem_of_list_filter. split; [apply stableb_true; exact Hst|exact Hin].
Qed.

(* C07_chain_of_promotions_repaired (S9 repaired): after the first hand-over -- whichever of its two
   outcomes, i.e. whether or not the kick reached peer 1's RenetClient -- promoting peer 0 back is
   accepted, terminates in every interleaving, and EVERY stable end is handed over to 0; from every
   such end a THIRD promotion (of 1 again) is accepted, terminates, and every stable end is handed
   over to 1. *)
Theorem C07_chain_of_promotions_repaired :
  forall tr F, all_internal tr -> run (promoted 1 1) tr = Some F -> stable F ->
    step F (EPromote 1 0) = Some (promote_in F 1 0) /\
    forall tr' s, all_internal tr' -> run (promote_in F 1 0) tr' = Some s ->
      (length tr' + measure s <= measure (promote_in F 1%N 0%N))%nat /\
      (exists tr'' s', all_internal tr'' /\ run s tr'' = Some s' /\ stable s' /\ handed_over s' 0 1) /\
      (stable s ->
         handed_over s 0 1 /\
         step s (EPromote 0 1) = Some (promote_in s 0 1) /\
         forall tr2 s2, all_internal tr2 -> run (promote_in s 0 1) tr2 = Some s2 ->
           (length tr2 + measure s2 <= measure (promote_in s 0%N 1%N))%nat /\
           (stable s2 -> handed_over s2 1 0) /\
           (exists tr3 s3, all_internal tr3 /\ run s2 tr3 = Some s3 /\ stable s3 /\ handed_over s3 1 0)).
Proof.
  intros tr F Hall Hrun Hst. pose proof (finals1_complete tr F Hall Hrun Hst) as HF.
  destruct (hop_sound _ _ _ _ hop12 F HF) as [Hp Hhop]. split; [exact Hp|].
  intros tr' s Hall' Hrun'. destruct (Hhop tr' s Hall' Hrun') as (Hle & Hstab & Hcompl).
  split; [exact Hle|]. split; [exact Hcompl|]. intros Hst'. destruct (Hstab Hst') as [Hho HG].
  split; [exact Hho|]. destruct (hop_sound _ _ _ _ hop21 s HG) as [Hp2 Hhop2]. split; [exact Hp2|].
  intros tr2 s2 Hall2 Hrun2. destruct (Hhop2 tr2 s2 Hall2 Hrun2) as (Hle2 & Hstab2 & Hcompl2).
  split; [exact Hle2|]. split; [|exact Hcompl2]. intros Hst2. exact (proj1 (Hstab2 Hst2)).
Qed.
Print Assumptions C07_chain_of_promotions_repaired.

(* the full chain statement of Promotion.v *)
Theorem C07_chain : C07_chain_statement.
Proof.
  intros tr F Hall Hrun Hst tr' s Hall' Hrun' Hst'.
  destruct (C07_chain_of_promotions_repaired tr F Hall Hrun Hst) as [_ H].
  destruct (H tr' s Hall' Hrun') as (_ & _ & Hs). exact (proj1 (Hs Hst')).
Qed.
Print Assumptions C07_chain.

(* ---------- chains of ANY length ---------- *)

(* the host after i promotions: 1, 0, 1, 0, ... *)
Definition host_at (i : nat) : peer := if Nat.odd i then 1 else 0.
(* F is a stable end of the i-th promotion of a chain that alternates between the two peers *)
Inductive chain_end : nat -> pstate -> Prop :=
| chain_first tr F :
    all_internal tr -> run (promoted 1 1) tr = Some F -> stable F -> chain_end 1 F
| chain_next i F tr s :
    chain_end i F -> all_internal tr ->
    run (promote_in F (host_at i) (host_at (S i))) tr = Some s -> stable s -> chain_end (S i) s.

Definition chain_set (i : nat) : list pstate := if Nat.odd i then finals1 else finals2.

Lemma host_at_succ i : host_at i = (if Nat.odd i then 1 else 0) /\ host_at (S i) = (if Nat.odd i then 0 else 1).
Proof.
  unfold host_at. split; [reflexivity|]. rewrite Nat.odd_succ, <- Nat.negb_odd. destruct (Nat.odd i); reflexivity.
Qed.
Lemma chain_set_succ i : chain_set (S i) = if Nat.odd i then finals2 else finals1.
Proof. unfold chain_set. rewrite Nat.odd_succ, <- Nat.negb_odd. destruct (Nat.odd i); reflexivity. Qed.

Lemma hop_any i : hopb (chain_set i) (chain_set (S i)) (host_at i) (host_at (S i)) = true.
Proof.
  rewrite chain_set_succ. destruct (host_at_succ i) as [-> ->]. unfold chain_set.
  destruct (Nat.odd i); [exact hop12|exact hop21].
Qed.

Lemma chain_end_in i F : chain_end i F -> F ∈ chain_set i.
Proof.
  induction 1 as [tr F Hall Hrun Hst|i F tr s _ IH Hall Hrun Hst].
  - exact (finals1_complete tr F Hall Hrun Hst).
  - destruct (hop_sound _ _ _ _ (hop_any i) F IH) as [_ Hhop].
    destruct (Hhop tr s Hall Hrun) as (_ & Hstab & _). exact (proj2 (Hstab Hst)).
Qed.

Lemma chain_sets_handed_over : forallb (fun s => handed_overb s 1 0) finals1 && forallb (fun s => handed_overb s 0 1) finals2 = true.
Proof. vm_compute. reflexivity. Qed.

(* the chain never breaks: after ANY number of alternating promotions the session is handed over to
   the current host, the next promotion request is accepted, every run after it terminates (measure),
   and every stable end of it is again handed over *)
Theorem C07_chain_forever i F : chain_end i F ->
  handed_over F (host_at i) (host_at (S i)) /\
  step F (EPromote (host_at i) (host_at (S i))) = Some (promote_in F (host_at i) (host_at (S i))) /\
  forall tr s, all_internal tr -> run (promote_in F (host_at i) (host_at (S i))) tr = Some s ->
    (length tr + measure s <= measure (promote_in F (host_at i) (host_at (S i))))%nat /\
    (stable s -> handed_over s (host_at (S i)) (host_at i) /\ chain_end (S i) s) /\
    (exists tr' s', all_internal tr' /\ run s tr' = Some s' /\ stable s' /\ handed_over s' (host_at (S i)) (host_at i)).
Proof.
  intros Hce. pose proof (chain_end_in i F Hce) as HF.
  destruct (hop_sound _ _ _ _ (hop_any i) F HF) as [Hp Hhop]. split; [|split; [exact Hp|]].
  - pose proof chain_sets_handed_over as Hb. apply andb_true_iff in Hb as [Hb1 Hb2].
    rewrite forallb_forall in Hb1. rewrite forallb_forall in Hb2.
    destruct (host_at_succ i) as [-> ->]. unfold chain_set in HF. apply elem_of_list_In in HF.
    destruct (Nat.odd i); apply handed_overb_true; [apply Hb1|apply Hb2]; exact HF.
  - intros tr s Hall Hrun. destruct (Hhop tr s Hall Hrun) as (Hle & Hstab & Hcompl).
    split; [exact Hle|]. split; [|exact Hcompl]. intros Hst. split; [exact (proj1 (Hstab Hst))|].
    eapply chain_next; eauto.
Qed.
Print Assumptions C07_chain_forever.

(* non-vacuity: the real-code schedule "promote 1; promote 0; promote 1" (Promotion.ex_chain3), with the
   kick reaching the RenetClient of the promoted peer every time *)
Definition run_from (s : pstate) (tr : list pevent) : pstate := default s (run s tr).
Definition hop1 : list pevent := tail ex_one_client_kicked.
Definition hop2 : list pevent :=
  [EDeliverDown 1 0; ESrvUp 0; EDeliverUp 0 1; ELinkDown 0; ENotify 1; ESrvDown 1; ECliConnecting 1;
   EConnect 1; ENotify 0; ECliDown 0; EVerify 1; EDeliverUp 1 0].
Definition hop3 : list pevent :=
  [EDeliverDown 0 1; ESrvUp 1; EDeliverUp 1 0; ELinkDown 1; ENotify 0; ESrvDown 0; ECliConnecting 0;
   EConnect 0; ENotify 1; ECliDown 1; EVerify 0; EDeliverUp 0 1].
Definition F1 : pstate := run_from (promoted 1 1) hop1.
Definition F2 : pstate := run_from (promote_in F1 1 0) hop2.
Definition F3 : pstate := run_from (promote_in F2 0 1) hop3.
Example chain_end_3 : chain_end 3 F3 /\ pget sticky false F1 1 = true /\ pget sticky false F2 0 = true /\
                      handed_over F2 0 1 /\ handed_over F3 1 0.
Proof.
  assert (H1 : chain_end 1 F1).
  { apply (chain_first hop1); [unfold all_internal; repeat constructor|vm_compute; reflexivity|apply stableb_true; vm_compute; reflexivity]. }
  assert (H2 : chain_end 2 F2).
  { apply (chain_next 1 F1 hop2); [exact H1|unfold all_internal; repeat constructor|vm_compute; reflexivity|apply stableb_true; vm_compute; reflexivity]. }
  split; [|split; [vm_compute; reflexivity|split; [vm_compute; reflexivity|split; apply handed_overb_true; vm_compute; reflexivity]]].
  apply (chain_next 2 F2 hop3); [exact H2|unfold all_internal; repeat constructor|vm_compute; reflexivity|apply stableb_true; vm_compute; reflexivity].
Qed.
