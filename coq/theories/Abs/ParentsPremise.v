(* The executable premise of the causal convergence theorem of C05 (proofs: Abs/ParentsCausal.v).
   Model side: no proof file is imported, so the driver can evaluate the premise on the event
   sequences extracted from real traces. *)
From Coq Require Import NArith List.
From stdpp Require Import gmap list.
From BS Require Import Abs.Parents.

(* nothing of q's operations is on its way to p any more: q's announcing system has nothing to send,
   q's link to the host is empty (q a client), the host's link to p is empty (p a client) *)
Definition flight_clear (s : pstate) (q p : peer) : bool :=
  negb (parmed s q)
  && ((q =? host)%N || bool_decide (plink s q host = []))
  && ((p =? host)%N || bool_decide (plink s host p = [])).

(* the host's TOKEN WINDOW: it holds an unconsumed token and its parent is a different one, set locally *)
Definition host_window (s : pstate) : bool := parmed s host && bool_decide (ptok s host <> None).

(* [w] = author of the previous PSet, [t] = the parent it gave; [vl]: test the value too *)
Definition set_ok (vl : bool) (w : option peer) (t : option puid) (s : pstate) (p : peer) : bool :=
  match w with
  | Some q => bool_decide (q = p) || ((negb vl || bool_decide (ppar s p = t)) && flight_clear s q p)
  | None => true
  end.

(* [lk] = a client joined while the host was in its token window, and the host's announcing system has
   not run since; then the host must not re-parent back to the token's parent *)
Definition revert_ok (lk : bool) (s : pstate) (p : peer) (u : puid) : bool :=
  negb (lk && bool_decide (p = host) && bool_decide (ptok s host = Some u)).

Fixpoint co_from (vl : bool) (w : option peer) (t : option puid) (lk : bool)
                 (s : pstate) (tr : list pevent) : bool :=
  match tr with
  | [] => true
  | e :: tr =>
      match pstep s e with
      | None => true
      | Some s' =>
          match e with
          | PSet p u => set_ok vl w t s p && revert_ok lk s p u && co_from vl (Some p) (Some u) lk s' tr
          | PAnnounce p => co_from vl w t (lk && negb (bool_decide (p = host))) s' tr
          | PDeliver _ _ => co_from vl w t lk s' tr
          | PJoin _ => co_from vl w t (lk || host_window s) s' tr
          end
      end
  end.

(* THE PREMISE: at every PSet p u, p is the author of the previous PSet, or p has the previous
   operation's parent and nothing of the previous author is in flight towards p; joins anywhere, except
   that the host does not revert to its token's parent after a join inside its token window *)
Definition causally_ordered (s : pstate) (tr : list pevent) : bool := co_from true None None false s tr.
(* weaker: without the value test *)
Definition causally_ordered_flight (s : pstate) (tr : list pevent) : bool := co_from false None None false s tr.
