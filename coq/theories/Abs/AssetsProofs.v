(* Proofs about the event-level asset replication model (Assets.v) AFTER the three repairs of the Rust code
   (R1: the debounce token is a counter; R2: request() always starts the download; S26: the snapshot of a join
   hands on the owner of the host's latest pending download instead of the host's old copy): properties C06
   and C09.

   Part 0-2: channel operations, one-step characterisations, well-formedness (A1: awf_invariant)
   Part 3 : invariants of EVERY run ([Basic]: tokens never exceed unread events, ...), no echo (A5: no_echo)
   Part 4 : the publisher invariant [Inv w] (preserved by a fresh join at ANY moment: inv_join_idle,
            inv_join_pend); C06 when the publisher changes only in quiescent states (C06_handover_any_join),
            for one publisher at any pace (A2: C06_single_publisher_any_join), for drain separated publishers
            (A3: C06_drain_separated).  The former statements, which also required "no join while the host has
            a pending download" (joins_ok), are kept as corollaries (C06_handover, C06_single_publisher, ...)
   Part 5 : the old defect witnesses now converge (Examples), those of the former join window included
            (join_during_download_converges, join_during_overwrite_converges, join_during_burst_converges;
            C06_any_join_holds); what remains false (A4): a preloaded joiner (join_preloaded_overwritten,
            join_preloaded_private_refuted), concurrent publishers
   Part 6 : stability and joins (A6: quiescent_is_stable, join_gets_asset_any_join, join_from_agreement)
   Part 7 : traffic and termination (A5: join_cost, traffic_bound, publication_cost, plain_steps_bounded,
            quiescence_reachable, only_publisher_serves, host_serves_only_for_joins)
   Part M : materials (M1: M06_single_publisher / M06_handover, M2: M06_drain_separated, M3: mno_echo,
            M4: mtraffic_bound, mpublication_cost, mplain_steps_bounded, mquiescence_reachable)
   Summary: C06_holds, M06_holds *)
From Coq Require Import NArith List Lia.
From stdpp Require Import gmap list.
From BS Require Import Abs.Assets.

Local Open Scope N_scope.

Ltac only_pub := unfold only_publisher; vm_compute; repeat constructor.

(* observations of the final state of a concrete run, by computation *)
Lemma arun_obs {B} (f : astate -> B) s0 tr v :
  f <$> arun s0 tr = Some v -> exists s', arun s0 tr = Some s' /\ f s' = v.
Proof. destruct (arun s0 tr) as [s'|]; simpl; intros [= <-]; eauto. Qed.
Lemma mrun_obs {B} (f : mstate -> B) s0 tr v :
  f <$> mrun s0 tr = Some v -> exists s', mrun s0 tr = Some s' /\ f s' = v.
Proof. destruct (mrun s0 tr) as [s'|]; simpl; intros [= <-]; eauto. Qed.
Lemma by_decide (P : Prop) {dec : Decision P} : bool_decide P = true -> P.
Proof. apply bool_decide_eq_true. Qed.

(* ================================================================================================
   Part 0: channel operations
   ================================================================================================ *)

Lemma lget_insert {A} (L : gmap (peer * peer) (list A)) a b l a' b' :
  lget (<[(a, b) := l]> L) a' b' = if decide ((a', b') = (a, b)) then l else lget L a' b'.
Proof.
  unfold lget. destruct (decide ((a', b') = (a, b))) as [Heq|Hne].
  - rewrite Heq, lookup_insert. reflexivity.
  - rewrite lookup_insert_ne by congruence. reflexivity.
Qed.

Lemma lget_push_link {A} (L : gmap (peer * peer) (list A)) a b vs a' b' :
  lget (push_link L a b vs) a' b' = if decide ((a', b') = (a, b)) then lget L a b ++ vs else lget L a' b'.
Proof. unfold push_link. apply lget_insert. Qed.

Lemma lget_send_to {A} (L : gmap (peer * peer) (list A)) src dsts vs a b :
  NoDup dsts ->
  lget (send_to L src dsts vs) a b = if decide (a = src /\ b ∈ dsts) then lget L a b ++ vs else lget L a b.
Proof.
  intros Hnd. induction Hnd as [|d dsts Hnotin Hnd IH]; simpl.
  - destruct (decide (a = src /\ b ∈ [])) as [[_ Hin]|_]; [inversion Hin|reflexivity].
  - rewrite lget_push_link. destruct (decide ((a, b) = (src, d))) as [Heq|Hne].
    + inversion Heq; subst. rewrite IH.
      destruct (decide (src = src /\ d ∈ dsts)) as [[_ Hin]|_]; [contradiction|].
      destruct (decide (src = src /\ d ∈ d :: dsts)) as [_|Hn]; [reflexivity|].
      exfalso. apply Hn. split; [reflexivity|left].
    + rewrite IH. destruct (decide (a = src /\ b ∈ dsts)) as [[-> Hin]|Hn].
      * destruct (decide (src = src /\ b ∈ d :: dsts)) as [_|Hn2]; [reflexivity|].
        exfalso. apply Hn2. split; [reflexivity|right; exact Hin].
      * destruct (decide (a = src /\ b ∈ d :: dsts)) as [[-> Hin]|_]; [|reflexivity].
        exfalso. apply elem_of_cons in Hin as [->|Hin]; [apply Hne; reflexivity|apply Hn; auto].
Qed.

Lemma NoDup_others src l : NoDup l -> NoDup (others src l).
Proof. intros H. unfold others. apply NoDup_filter. exact H. Qed.

Lemma elem_of_others src l c : c ∈ others src l <-> c <> src /\ c ∈ l.
Proof. unfold others. rewrite elem_of_list_filter. reflexivity. Qed.

Lemma elem_of_clients n p : p ∈ clients n <-> (1 <= p <= N.of_nat n).
Proof.
  unfold clients. rewrite elem_of_list_fmap. split.
  - intros (k & -> & Hk). apply elem_of_seq in Hk. lia.
  - intros H. exists (N.to_nat p). split; [lia|]. apply elem_of_seq. lia.
Qed.

Lemma NoDup_clients n : NoDup (clients n).
Proof. unfold clients. apply NoDup_fmap_2; [intros a b; lia|apply NoDup_seq]. Qed.

Lemma length_clients n : length (clients n) = n.
Proof. unfold clients. rewrite fmap_length, seq_length. reflexivity. Qed.

(* ================================================================================================
   Part 1: getters after one step (URL-class asset)
   ================================================================================================ *)

Lemma getp_insert m c l p x : getp (AState (<[p := x]> m) c l) p = x.
Proof. unfold getp. simpl. rewrite lookup_insert. reflexivity. Qed.
Lemma getp_insert_ne m c l c' l' p q x :
  q <> p -> getp (AState (<[p := x]> m) c l) q = getp (AState m c' l') q.
Proof. intros H. unfold getp. simpl. rewrite lookup_insert_ne by congruence. reflexivity. Qed.
Lemma getp_exists s p x : ap s !! p = Some x -> getp s p = x.
Proof. intros H. unfold getp. rewrite H. reflexivity. Qed.
Lemma getp_none s p : ap s !! p = None -> getp s p = apeer0.
Proof. intros H. unfold getp. rewrite H. reflexivity. Qed.

Lemma exists_insert (m : gmap peer apeer) p x y q :
  m !! p = Some y -> is_Some (<[p := x]> m !! q) <-> is_Some (m !! q).
Proof.
  intros Hy. destruct (decide (q = p)) as [->|Hne].
  - rewrite lookup_insert, Hy. split; eauto.
  - rewrite lookup_insert_ne by congruence. reflexivity.
Qed.

(* APublish *)
Lemma step_publish s p c s' :
  astep s (APublish p c) = Some s' ->
  is_Some (ap s !! p) /\ aconn s' = aconn s /\ alinks s' = alinks s /\
  (forall q, is_Some (ap s' !! q) <-> is_Some (ap s !! q)) /\
  getp s' p = APeer (Some c) (S (pevents s p)) (ptok s p) (pserved s p) (ppending s p) /\
  (forall q, q <> p -> getp s' q = getp s q).
Proof.
  simpl. destruct (ap s !! p) as [x|] eqn:Hx; [|discriminate]. intros [= <-].
  unfold pevents, ptok, pserved, ppending. rewrite (getp_exists _ _ _ Hx).
  split; [eauto|]. split; [reflexivity|]. split; [reflexivity|]. split; [|split].
  - intros q. simpl. eapply exists_insert; eauto.
  - apply getp_insert.
  - intros q Hne. unfold set_peer. destruct s; simpl. apply getp_insert_ne. exact Hne.
Qed.


(* AReact1 *)
Lemma react1_cases x :
  (events x = 0%nat /\ react1_peer x = (x, false)) \/
  (exists k, events x = S k /\ store x = None /\
             react1_peer x = (APeer None k (tok x) (served x) (pending x), false)) \/
  (exists k c t, events x = S k /\ store x = Some c /\ tok x = S t /\
               react1_peer x = (APeer (Some c) k t (served x) (pending x), false)) \/
  (exists k c, events x = S k /\ store x = Some c /\ tok x = 0%nat /\
               react1_peer x = (APeer (Some c) k 0 (Some c) (pending x), true)).
Proof.
  unfold react1_peer. destruct (events x) as [|k]; [left; auto|]. right.
  destruct (store x) as [c|]; [|left; eauto]. right.
  destruct (tok x) as [|t]; [right|left]; eauto 10.
Qed.

Lemma step_react1 s p s' :
  NoDup (aconn s) ->
  astep s (AReact1 p) = Some s' ->
  is_Some (ap s !! p) /\ aconn s' = aconn s /\
  (forall q, is_Some (ap s' !! q) <-> is_Some (ap s !! q)) /\
  getp s' p = (react1_peer (getp s p)).1 /\
  (forall q, q <> p -> getp s' q = getp s q) /\
  (forall a b, link s' a b =
     if decide ((react1_peer (getp s p)).2 = true /\ a = p /\ b ∈ dsts_of s p) then link s a b ++ [p] else link s a b).
Proof.
  intros Hnd. simpl. unfold areact1. destruct (ap s !! p) as [x|] eqn:Hx; [|discriminate].
  rewrite (getp_exists _ _ _ Hx). destruct (react1_peer x) as [x' ann] eqn:Hr. intros [= <-].
  split; [eauto|]. split; [reflexivity|]. split; [|split; [|split]].
  - intros q. simpl. eapply exists_insert; eauto.
  - apply getp_insert.
  - intros q Hne. destruct s; simpl. apply getp_insert_ne. exact Hne.
  - intros a b. unfold link. simpl. destruct ann.
    + rewrite lget_send_to.
      * destruct (decide (a = p /\ b ∈ dsts_of s p)) as [Hy|Hn].
        -- destruct (decide (true = true /\ a = p /\ b ∈ dsts_of s p)) as [_|Hn]; [reflexivity|tauto].
        -- destruct (decide (true = true /\ a = p /\ b ∈ dsts_of s p)) as [[_ Hy]|_]; [tauto|reflexivity].
      * unfold dsts_of. destruct (p =? host)%N; [exact Hnd|apply NoDup_singleton].
    + destruct (decide (false = true /\ _)) as [[Hf _]|_]; [discriminate|reflexivity].
Qed.

(* AReact = [events] times AReact1 *)
Lemma areact_n_run k s p : areact_n k s p = arun s (replicate k (AReact1 p)).
Proof. revert s. induction k as [|k IH]; intros s; simpl; [reflexivity|]. destruct (areact1 s p); auto. Qed.

Lemma step_react_runs s p s' :
  astep s (AReact p) = Some s' -> arun s (replicate (pevents s p) (AReact1 p)) = Some s'.
Proof.
  simpl. destruct (ap s !! p) as [x|] eqn:Hx; [|discriminate]. unfold pevents. rewrite (getp_exists _ _ _ Hx).
  rewrite areact_n_run. auto.
Qed.

Lemma react1s_ind (P : astate -> Prop) p :
  (forall s s', P s -> astep s (AReact1 p) = Some s' -> P s') ->
  forall k s s', P s -> arun s (replicate k (AReact1 p)) = Some s' -> P s'.
Proof.
  intros Hstep. induction k as [|k IH]; intros s s' HP Hrun; simpl in Hrun.
  - inversion Hrun; subst. exact HP.
  - destruct (areact1 s p) as [s1|] eqn:H1; [|discriminate]. eapply IH; [|exact Hrun]. eapply Hstep; eauto.
Qed.


(* ADeliver *)
Definition request_peer (x : apeer) (o : peer) : apeer :=
  APeer (store x) (events x) (tok x) (served x) (pending x ++ [o]).

Lemma step_deliver s src dst s' :
  NoDup (aconn s) ->
  astep s (ADeliver src dst) = Some s' ->
  exists o rest, link s src dst = o :: rest /\ is_Some (ap s !! dst) /\ aconn s' = aconn s /\
  (forall q, is_Some (ap s' !! q) <-> is_Some (ap s !! q)) /\
  getp s' dst = request_peer (getp s dst) o /\
  (forall q, q <> dst -> getp s' q = getp s q) /\
  (forall a b, link s' a b =
     (if decide ((a, b) = (src, dst)) then rest else link s a b) ++
     (if decide (dst = host /\ a = host /\ b ∈ others src (aconn s)) then [o] else [])).
Proof.
  intros Hnd. simpl. destruct (link s src dst) as [|o rest] eqn:Hl; [discriminate|].
  destruct (ap s !! dst) as [x|] eqn:Hx; [|discriminate]. intros [= <-]. exists o, rest.
  rewrite (getp_exists _ _ _ Hx).
  split; [reflexivity|]. split; [eauto|]. split; [reflexivity|]. split; [|split; [|split]].
  - intros q. simpl. eapply exists_insert; eauto.
  - apply getp_insert.
  - intros q Hne. destruct s; simpl. apply getp_insert_ne. exact Hne.
  - intros a b. unfold link. simpl. destruct (dst =? host)%N eqn:Hd.
    + apply N.eqb_eq in Hd. subst dst. rewrite lget_send_to by (apply NoDup_others; exact Hnd).
      rewrite lget_insert.
      destruct (decide (a = host /\ b ∈ others src (aconn s))) as [[-> Hin]|Hn].
      * destruct (decide (host = host /\ host = host /\ b ∈ others src (aconn s))) as [_|Hn]; [reflexivity|tauto].
      * destruct (decide (host = host /\ a = host /\ b ∈ others src (aconn s))) as [[_ Hy]|_]; [tauto|].
        rewrite app_nil_r. reflexivity.
    + apply N.eqb_neq in Hd. rewrite lget_insert.
      destruct (decide (dst = host /\ _)) as [[Hy _]|_]; [contradiction|]. rewrite app_nil_r. reflexivity.
Qed.


(* ADownload *)
Definition download_peer (x : apeer) (got : option content) : apeer :=
  match got with
  | None => APeer (store x) (events x) (tok x) (served x) (tail (pending x))
  | Some c => APeer (Some c) (S (events x)) (S (tok x)) (served x) (tail (pending x))
  end.

Lemma step_download s p s' :
  astep s (ADownload p) = Some s' ->
  exists o rest, ppending s p = o :: rest /\ is_Some (ap s !! p) /\ aconn s' = aconn s /\ alinks s' = alinks s /\
  (forall q, is_Some (ap s' !! q) <-> is_Some (ap s !! q)) /\
  getp s' p = download_peer (getp s p) (pserved s o) /\
  (forall q, q <> p -> getp s' q = getp s q).
Proof.
  simpl. destruct (ap s !! p) as [x|] eqn:Hx; [|discriminate].
  unfold ppending. rewrite (getp_exists _ _ _ Hx).
  destruct (pending x) as [|o rest] eqn:Hp; [discriminate|]. intros Hstep. exists o, rest.
  split; [reflexivity|]. split; [eauto|].
  assert (Hs' : s' = set_peer s p (download_peer x (pserved s o))).
  { unfold download_peer. rewrite Hp. simpl. destruct (pserved s o); congruence. }
  subst s'. split; [reflexivity|]. split; [reflexivity|]. split; [|split].
  - intros q. simpl. eapply exists_insert; eauto.
  - apply getp_insert.
  - intros q Hne. unfold set_peer. destruct s; simpl. apply getp_insert_ne. exact Hne.
Qed.

(* AJoin.  After the repair of S26 the snapshot names the owner of the host's LATEST pending download when there
   is one (and then the host serves nothing); otherwise the host serves its copy and names itself *)
Definition snapshot (s : astate) : list peer :=
  match last (ppending s host) with
  | Some o => [o]
  | None => match pstore s host with Some _ => [host] | None => [] end
  end.
Definition join_host (s : astate) : apeer :=
  match last (ppending s host) with Some _ => getp s host | None => serve_store (getp s host) end.

Lemma snapshot_idle s :
  ppending s host = [] -> snapshot s = match pstore s host with Some _ => [host] | None => [] end.
Proof. intros H. unfold snapshot. rewrite H. reflexivity. Qed.
Lemma join_host_idle s : ppending s host = [] -> join_host s = serve_store (getp s host).
Proof. intros H. unfold join_host. rewrite H. reflexivity. Qed.
Lemma snapshot_pend s o : last (ppending s host) = Some o -> snapshot s = [o].
Proof. intros H. unfold snapshot. rewrite H. reflexivity. Qed.
Lemma join_host_pend s o : last (ppending s host) = Some o -> join_host s = getp s host.
Proof. intros H. unfold join_host. rewrite H. reflexivity. Qed.
Lemma join_host_fields s :
  store (join_host s) = pstore s host /\ events (join_host s) = pevents s host /\
  tok (join_host s) = ptok s host /\ pending (join_host s) = ppending s host.
Proof. unfold join_host. destruct (last (ppending s host)); repeat split; reflexivity. Qed.

Lemma step_join s c pre s' :
  astep s (AJoin c pre) = Some s' ->
  c <> host /\ c ∉ aconn s /\ ap s !! c = None /\ aconn s' = aconn s ++ [c] /\
  (forall q, is_Some (ap s' !! q) <-> is_Some (ap s !! q) \/ q = c \/ q = host) /\
  getp s' c = APeer pre 0 0 pre [] /\
  getp s' host = join_host s /\
  (forall q, q <> c -> q <> host -> getp s' q = getp s q) /\
  (forall a b, link s' a b = if decide ((a, b) = (host, c)) then link s host c ++ snapshot s else link s a b).
Proof.
  simpl. destruct (c =? host)%N eqn:Hc; [discriminate|]. apply N.eqb_neq in Hc.
  destruct (bool_decide (c ∈ aconn s)) eqn:Hin; [discriminate|]. apply bool_decide_eq_false in Hin.
  unfold pexists. destruct (bool_decide (is_Some (ap s !! c))) eqn:Hex; [discriminate|].
  apply bool_decide_eq_false in Hex. simpl.
  assert (Hnone : ap s !! c = None) by (destruct (ap s !! c); [exfalso; eauto|reflexivity]).
  unfold snapshot, join_host, ppending. destruct (last (pending (getp s host))) as [o|] eqn:Hlast; intros [= <-].
  - (* the host is downloading: nothing is served, the joiner is told the owner of the latest request *)
    assert (Hhex : is_Some (ap s !! host)).
    { destruct (ap s !! host) as [x|] eqn:Hx; [eauto|]. rewrite (getp_none _ _ Hx) in Hlast. discriminate. }
    split; [exact Hc|]. split; [exact Hin|]. split; [exact Hnone|]. split; [reflexivity|].
    split; [|split; [|split; [|split]]].
    + intros q. simpl. destruct (decide (q = c)) as [->|Hne].
      * rewrite lookup_insert. split; eauto.
      * rewrite lookup_insert_ne by congruence. split; [auto|]. intros [H|[H|H]]; [exact H|contradiction|subst q; exact Hhex].
    + apply getp_insert.
    + unfold getp at 1. simpl. rewrite lookup_insert_ne by congruence. reflexivity.
    + intros q Hqc Hqh. unfold getp. simpl. rewrite !lookup_insert_ne by congruence. reflexivity.
    + intros a b. unfold link. simpl. apply lget_push_link.
  - split; [exact Hc|]. split; [exact Hin|]. split; [exact Hnone|]. split; [reflexivity|].
    split; [|split; [|split; [|split]]].
    + intros q. simpl. destruct (decide (q = c)) as [->|Hne].
      * rewrite lookup_insert. split; eauto.
      * rewrite lookup_insert_ne by congruence. destruct (decide (q = host)) as [->|Hnh].
        -- rewrite lookup_insert. split; eauto.
        -- rewrite lookup_insert_ne by congruence. split; [auto|]. intros [H|[H|H]]; [exact H|contradiction|contradiction].
    + apply getp_insert.
    + unfold getp at 1. simpl. rewrite lookup_insert_ne by congruence. rewrite lookup_insert. reflexivity.
    + intros q Hqc Hqh. unfold getp. simpl. rewrite !lookup_insert_ne by congruence. reflexivity.
    + intros a b. unfold link, pstore. simpl. destruct (store (getp s host)) as [v|].
      * apply lget_push_link.
      * destruct (decide _) as [Heq|_]; [|reflexivity]. inversion Heq; subst. rewrite app_nil_r. reflexivity.
Qed.

(* ================================================================================================
   Part 2: well-formedness
   ================================================================================================ *)

Lemma wf_nodup s : awf s -> NoDup (aconn s).
Proof. intros (H & _). exact H. Qed.
Lemma wf_host s : awf s -> host ∉ aconn s.
Proof. intros (_ & H & _). exact H. Qed.
Lemma wf_exists s p : awf s -> is_Some (ap s !! p) <-> peers s p.
Proof. intros (_ & _ & H & _). apply H. Qed.
Lemma wf_link s a b : awf s -> link s a b <> [] -> (a = host /\ b ∈ aconn s) \/ (b = host /\ a ∈ aconn s).
Proof. intros (_ & _ & _ & H). apply H. Qed.
Lemma wf_link_nil s a b : awf s -> a ∉ aconn s -> b ∉ aconn s -> link s a b = [].
Proof.
  intros Hwf Ha Hb. destruct (link s a b) eqn:Hl; [reflexivity|].
  destruct (wf_link s a b Hwf) as [[_ H]|[_ H]]; [rewrite Hl; discriminate|contradiction|contradiction].
Qed.
Lemma wf_link_hh s : awf s -> link s host host = [].
Proof. intros Hwf. apply wf_link_nil; [exact Hwf| |]; apply wf_host, Hwf. Qed.

Lemma step_wf_plain1 s e s' :
  match e with AReact _ => False | _ => True end ->
  awf s -> astep s e = Some s' -> awf s'.
Proof.
  intros He Hwf Hstep. pose proof Hwf as (Hnd & Hh & Hex & Hlk). destruct e as [p v|p|p|src dst|p|c pre]; [|contradiction| | | |].
  - apply step_publish in Hstep as (_ & Hc & Hl & He' & _).
    unfold awf, link, peers. rewrite Hc, Hl. repeat split; try assumption.
    + intros H. apply Hex, He', H. + intros H. apply He', Hex, H.
  - apply step_react1 in Hstep as (Hp & Hc & He' & _ & _ & Hl); [|exact Hnd].
    unfold awf, peers. rewrite Hc. repeat split; try assumption.
    + intros H. apply Hex, He', H. + intros H. apply He', Hex, H.
    + intros a b. rewrite Hl. destruct (decide (_ /\ a = p /\ b ∈ dsts_of s p)) as [(_ & -> & Hin)|_]; [|apply Hlk].
      intros _. unfold dsts_of in Hin. destruct (p =? host)%N eqn:Hph.
      * apply N.eqb_eq in Hph. left. auto.
      * apply N.eqb_neq in Hph. apply elem_of_list_singleton in Hin. right. split; [exact Hin|].
        apply Hex in Hp as [Hp|Hp]; [contradiction|exact Hp].
  - apply step_deliver in Hstep as (o & rest & Hl0 & Hd & Hc & He' & _ & _ & Hl); [|exact Hnd].
    unfold awf, peers. rewrite Hc. repeat split; try assumption.
    + intros H. apply Hex, He', H. + intros H. apply He', Hex, H.
    + intros a b. rewrite Hl.
      destruct (decide (dst = host /\ a = host /\ b ∈ others src (aconn s))) as [(_ & -> & Hin)|_].
      * intros _. left. split; [reflexivity|]. apply elem_of_others in Hin. tauto.
      * rewrite app_nil_r. destruct (decide ((a, b) = (src, dst))) as [Heq|_]; [|apply Hlk].
        inversion Heq; subst. intros _. apply Hlk. rewrite Hl0. discriminate.
  - apply step_download in Hstep as (o & rest & _ & _ & Hc & Hl & He' & _).
    unfold awf, link, peers. rewrite Hc, Hl. repeat split; try assumption.
    + intros H. apply Hex, He', H. + intros H. apply He', Hex, H.
  - apply step_join in Hstep as (Hc0 & Hcn & Hnone & Hc & He' & _ & _ & _ & Hl).
    unfold awf, peers. rewrite Hc. split; [|split; [|split]].
    + apply NoDup_app. split; [exact Hnd|]. split; [|apply NoDup_singleton].
      intros x Hx Hx'. apply elem_of_list_singleton in Hx'. subst. contradiction.
    + intros H. apply elem_of_app in H as [H|H]; [contradiction|]. apply elem_of_list_singleton in H. congruence.
    + intros q. rewrite He', Hex. unfold peers. rewrite elem_of_app, elem_of_list_singleton. tauto.
    + intros a b. rewrite Hl. rewrite elem_of_app, elem_of_app, !elem_of_list_singleton.
      destruct (decide ((a, b) = (host, c))) as [Heq|_].
      * inversion Heq; subst. intros _. left. auto.
      * intros H. apply Hlk in H. tauto.
Qed.

Lemma step_wf s e s' : awf s -> astep s e = Some s' -> awf s'.
Proof.
  intros Hwf Hstep. destruct e as [p v|p|p|src dst|p|c pre]; try (eapply step_wf_plain1; [|exact Hwf|exact Hstep]; exact I).
  apply step_react_runs in Hstep. eapply (react1s_ind awf p); [|exact Hwf|exact Hstep].
  intros s1 s2 H1 H2. eapply step_wf_plain1; [|exact H1|exact H2]. exact I.
Qed.

Lemma run_wf s tr s' : awf s -> arun s tr = Some s' -> awf s'.
Proof.
  revert s. induction tr as [|e tr IH]; intros s Hwf Hrun; simpl in Hrun.
  - congruence.
  - destruct (astep s e) as [s1|] eqn:Hs; [|discriminate]. eapply IH; [|exact Hrun]. eapply step_wf; eauto.
Qed.

Lemma ainit_getp n p : getp (ainit n) p = apeer0.
Proof.
  unfold getp. destruct (ap (ainit n) !! p) as [x|] eqn:Hx; [|reflexivity]. simpl.
  unfold ainit in Hx; cbn [ap] in Hx. apply elem_of_list_to_map_2 in Hx. apply elem_of_list_fmap in Hx as (q & Heq & _). congruence.
Qed.

Lemma ainit_link n a b : link (ainit n) a b = [].
Proof. reflexivity. Qed.

Lemma ainit_wf n : awf (ainit n).
Proof.
  unfold awf. split; [apply NoDup_clients|]. split; [|split].
  - simpl. rewrite elem_of_clients. unfold host. lia.
  - intros p. unfold ainit, peers; cbn [ap aconn].
    set (l := (fun p => (p, apeer0)) <$> host :: clients n).
    assert (Hfst : l.*1 = host :: clients n).
    { unfold l. rewrite <- list_fmap_compose. simpl. f_equal. induction (clients n); simpl; congruence. }
    split.
    + intros [x Hx]. apply elem_of_list_to_map_2 in Hx. apply (elem_of_list_fmap_1 fst) in Hx.
      rewrite Hfst in Hx. simpl in Hx. apply elem_of_cons in Hx. exact Hx.
    + intros Hp. destruct (list_to_map l !! p) eqn:Hx; [eauto|].
      apply not_elem_of_list_to_map in Hx. rewrite Hfst in Hx. exfalso. apply Hx. apply elem_of_cons. exact Hp.
  - intros a b H. exfalso. apply H. reflexivity.
Qed.

(* quiescence through getters *)
Lemma quiescent_link s a b : aquiescent s -> link s a b = [].
Proof.
  intros [H _]. unfold link, lget. destruct (alinks s !! (a, b)) as [l|] eqn:Hl; [|reflexivity]. simpl. eapply H. exact Hl.
Qed.
Lemma quiescent_peer s p : aquiescent s -> pevents s p = 0%nat /\ ptok s p = 0%nat /\ ppending s p = [].
Proof.
  intros [_ H]. unfold pevents, ptok, ppending, getp. destruct (ap s !! p) as [x|] eqn:Hx; simpl; [|auto].
  apply (H p x Hx).
Qed.
Lemma quiescent_intro s :
  (forall a b, link s a b = []) -> (forall p, pevents s p = 0%nat /\ ptok s p = 0%nat /\ ppending s p = []) -> aquiescent s.
Proof.
  intros Hl Hp. split.
  - intros [a b] l Hx. specialize (Hl a b). unfold link, lget in Hl. rewrite Hx in Hl. exact Hl.
  - intros p x Hx. specialize (Hp p). unfold pevents, ptok, ppending, getp in Hp. rewrite Hx in Hp. exact Hp.
Qed.
Lemma ainit_quiescent n : aquiescent (ainit n).
Proof.
  apply quiescent_intro; [intros; apply ainit_link|]. intros p. unfold pevents, ptok, ppending. rewrite ainit_getp. auto.
Qed.

(* case analysis on the first [decide] of the goal (or else of a hypothesis) *)
Tactic Notation "cdec" "as" simple_intropattern(pat) :=
  match goal with
  | |- context [decide ?P] => destruct (decide P) as pat
  | H : context [decide ?P] |- _ => destruct (decide P) as pat
  end.


(* A1 *)
Theorem awf_invariant n tr s' : arun (ainit n) tr = Some s' -> awf s'.
Proof. intros Hrun. eapply run_wf; [apply ainit_wf|exact Hrun]. Qed.
Print Assumptions awf_invariant.

Lemma arun_app s tr1 tr2 : arun s (tr1 ++ tr2) = match arun s tr1 with Some s1 => arun s1 tr2 | None => None end.
Proof. revert s. induction tr1 as [|e tr1 IH]; intros s; simpl; [reflexivity|]. destruct (astep s e); auto. Qed.

(* an invariant of the one-event steps is an invariant of every run *)
Definition single (e : aevent) : Prop := match e with AReact _ => False | _ => True end.

Lemma step_lift (P : astate -> Prop) (ok : aevent -> Prop) :
  (forall s e s', single e -> awf s -> P s -> ok e -> astep s e = Some s' -> P s') ->
  (forall p, ok (AReact1 p)) ->
  forall s e s', awf s -> P s -> ok e -> astep s e = Some s' -> P s'.
Proof.
  intros H1 Hr s e s' Hwf HP Hok Hstep.
  destruct e as [p v|p|p|src dst|p|c pre]; try (eapply H1; eauto; exact I).
  apply step_react_runs in Hstep.
  pose (Q := fun s1 => awf s1 /\ P s1). assert (HQ : Q s'); [|apply HQ].
  eapply (react1s_ind Q p); [|split; [exact Hwf|exact HP]|exact Hstep].
  intros s1 s2 [Hw1 HP1] H12. split; [eapply step_wf; eauto|]. exact (H1 s1 (AReact1 p) s2 I Hw1 HP1 (Hr p) H12).
Qed.

Lemma run_lift (P : astate -> Prop) (ok : aevent -> Prop) :
  (forall s e s', single e -> awf s -> P s -> ok e -> astep s e = Some s' -> P s') ->
  (forall p, ok (AReact1 p)) ->
  forall tr s s', awf s -> P s -> Forall ok tr -> arun s tr = Some s' -> P s'.
Proof.
  intros H1 Hr. induction tr as [|e tr IH]; intros s s' Hwf HP Hok Hrun; simpl in Hrun.
  - inversion Hrun; subst. exact HP.
  - destruct (astep s e) as [s1|] eqn:Hstep; [|discriminate]. apply Forall_cons in Hok as [He Hok].
    eapply (IH s1); [eapply step_wf; eauto| |exact Hok|exact Hrun].
    eapply (step_lift P ok); eauto.
Qed.

(* ================================================================================================
   Part 3: invariants of every run
   ================================================================================================ *)

(* [Basic]: on every peer the tokens never exceed the unread events (so "no unread event" implies "no
   token"), an unread event implies a stored content, a cache entry implies a stored content *)
Definition Basic (s : astate) : Prop :=
  forall p, (ptok s p <= pevents s p)%nat /\ (pevents s p <> 0%nat -> pstore s p <> None) /\
            (pserved s p <> None -> pstore s p <> None).

Lemma basic_step1 s e s' : single e -> awf s -> Basic s -> True -> astep s e = Some s' -> Basic s'.
Proof.
  intros He Hwf HB _ Hstep. pose proof (wf_nodup s Hwf) as Hnd.
  destruct e as [p v|p|p|src dst|p|c pre]; [|contradiction| | | |]; intros q.
  - apply step_publish in Hstep as (_ & _ & _ & _ & Hp & Hq).
    destruct (decide (q = p)) as [->|Hne]; unfold ptok, pevents, pstore, pserved.
    + rewrite Hp. simpl. pose proof (HB p) as (HB1 & _). split; [lia|]. split; intros; discriminate.
    + rewrite Hq by assumption. apply HB.
  - apply step_react1 in Hstep as (_ & _ & _ & Hp & Hq & _); [|exact Hnd].
    destruct (decide (q = p)) as [->|Hne]; unfold ptok, pevents, pstore, pserved; [|rewrite Hq by assumption; apply HB].
    rewrite Hp. specialize (HB p). unfold ptok, pevents, pstore, pserved in HB. destruct HB as (HB1 & HB2 & HB3).
    destruct (react1_cases (getp s p)) as [[E0 E]|[(k & E0 & E1 & E)|[(k & c & t & E0 & E1 & E2 & E)|(k & c & E0 & E1 & E2 & E)]]];
      rewrite E; cbn [fst]; [auto| | |].
    + exfalso. apply HB2; [rewrite E0; discriminate|exact E1].
    + simpl. split; [lia|]. split; intros; discriminate.
    + simpl. split; [lia|]. split; intros; discriminate.
  - apply step_deliver in Hstep as (o & rest & _ & _ & _ & _ & Hp & Hq & _); [|exact Hnd].
    destruct (decide (q = dst)) as [->|Hne]; unfold ptok, pevents, pstore, pserved; [|rewrite Hq by assumption; apply HB].
    rewrite Hp. apply HB.
  - apply step_download in Hstep as (o & rest & _ & _ & _ & _ & _ & Hp & Hq).
    destruct (decide (q = p)) as [->|Hne]; unfold ptok, pevents, pstore, pserved; [|rewrite Hq by assumption; apply HB].
    rewrite Hp. specialize (HB p). unfold ptok, pevents, pstore, pserved in HB. unfold download_peer.
    destruct (pserved s o); simpl; [|exact HB]. split; [lia|]. split; intros; discriminate.
  - apply step_join in Hstep as (_ & _ & _ & _ & _ & Hpc & Hph & Hq & _).
    destruct (decide (q = c)) as [->|Hne]; unfold ptok, pevents, pstore, pserved.
    + rewrite Hpc. simpl. split; [lia|]. split; [congruence|auto].
    + destruct (decide (q = host)) as [->|Hnh]; [|rewrite Hq by assumption; apply HB].
      rewrite Hph. unfold join_host. destruct (last (ppending s host)) as [o|]; [exact (HB host)|].
      specialize (HB host). unfold ptok, pevents, pstore, pserved in HB. destruct HB as (HB1 & HB2 & HB3).
      unfold serve_store. simpl. split; [exact HB1|]. split; [exact HB2|].
      destruct (store (getp s host)) eqn:E; [intros; discriminate|exact HB3].
Qed.

Lemma all_true (tr : list aevent) : Forall (fun _ => True) tr.
Proof. induction tr; constructor; auto. Qed.

Lemma basic_run tr s s' : awf s -> Basic s -> arun s tr = Some s' -> Basic s'.
Proof.
  intros Hwf HB Hrun.
  eapply (run_lift Basic (fun _ => True)); [exact basic_step1|auto|exact Hwf|exact HB|apply all_true|exact Hrun].
Qed.

Lemma basic_init n : Basic (ainit n).
Proof. intros p. unfold ptok, pevents, pstore, pserved. rewrite ainit_getp. simpl. split; [lia|]. split; congruence. Qed.

Theorem basic_invariant n tr s' : arun (ainit n) tr = Some s' -> Basic s'.
Proof. intros Hrun. eapply basic_run; [apply ainit_wf|apply basic_init|exact Hrun]. Qed.

(* "links empty, no pending downloads, no unread events" IS quiescence *)
Theorem quiescent_is_drained n tr s' :
  arun (ainit n) tr = Some s' ->
  (aquiescent s' <->
   (forall a b, link s' a b = []) /\ (forall p, ppending s' p = []) /\ (forall p, pevents s' p = 0%nat)).
Proof.
  intros Hrun. split.
  - intros Hq. split; [intros; apply quiescent_link; exact Hq|]. split; intros p; apply (quiescent_peer s' p Hq).
  - intros (Hl & Hp & He). apply quiescent_intro; [exact Hl|]. intros p. split; [apply He|]. split; [|apply Hp].
    pose proof (basic_invariant n tr s' Hrun p) as (Hle & _). rewrite (He p) in Hle. lia.
Qed.
Print Assumptions quiescent_is_drained.

(* ---------- no echo (C09) ---------------------------------------------------------------------------
   A peer that never published holds exactly one token per unread event: every event the react system
   will ever see on it is swallowed; it never announces and never serves. *)
Definition pub_ok (w : peer) (e : aevent) : Prop := match e with APublish q _ => q = w | _ => True end.

Definition Covered (w : peer) (s : astate) : Prop :=
  Basic s /\ forall q, q <> w -> ptok s q = pevents s q.

Lemma covered_step1 w s e s' :
  single e -> awf s -> Covered w s -> pub_ok w e -> astep s e = Some s' -> Covered w s'.
Proof.
  intros He Hwf [HB HC] Hok Hstep. split; [eapply basic_step1; eauto|]. pose proof (wf_nodup s Hwf) as Hnd.
  destruct e as [p v|p|p|src dst|p|c pre]; [|contradiction| | | |]; intros q Hqw.
  - simpl in Hok. subst p. apply step_publish in Hstep as (_ & _ & _ & _ & _ & Hq).
    unfold ptok, pevents. rewrite Hq by assumption. apply HC. exact Hqw.
  - apply step_react1 in Hstep as (_ & _ & _ & Hp & Hq & _); [|exact Hnd].
    destruct (decide (q = p)) as [->|Hne]; unfold ptok, pevents; [|rewrite Hq by assumption; apply HC; exact Hqw].
    rewrite Hp. specialize (HC p Hqw). unfold ptok, pevents in HC.
    destruct (react1_cases (getp s p)) as [[E0 E]|[(k & E0 & E1 & E)|[(k & c & t & E0 & E1 & E2 & E)|(k & c & E0 & E1 & E2 & E)]]];
      rewrite E; cbn [fst]; simpl; try lia.
    exfalso. destruct (HB p) as (_ & HB2 & _). apply HB2; [unfold pevents; rewrite E0; discriminate|exact E1].
  - apply step_deliver in Hstep as (o & rest & _ & _ & _ & _ & Hp & Hq & _); [|exact Hnd].
    destruct (decide (q = dst)) as [->|Hne]; unfold ptok, pevents; [|rewrite Hq by assumption; apply HC; exact Hqw].
    rewrite Hp. apply HC. exact Hqw.
  - apply step_download in Hstep as (o & rest & _ & _ & _ & _ & _ & Hp & Hq).
    destruct (decide (q = p)) as [->|Hne]; unfold ptok, pevents; [|rewrite Hq by assumption; apply HC; exact Hqw].
    rewrite Hp. specialize (HC p Hqw). unfold ptok, pevents in HC. unfold download_peer.
    destruct (pserved s o); simpl; lia.
  - apply step_join in Hstep as (_ & _ & _ & _ & _ & Hpc & Hph & Hq & _).
    destruct (decide (q = c)) as [->|Hne]; unfold ptok, pevents; [rewrite Hpc; reflexivity|].
    destruct (decide (q = host)) as [->|Hnh]; [|rewrite Hq by assumption; apply HC; exact Hqw].
    rewrite Hph. destruct (join_host_fields s) as (_ & -> & -> & _). apply HC. exact Hqw.
Qed.

Lemma pub_ok_of w tr : only_publisher w tr -> Forall (pub_ok w) tr.
Proof.
  unfold only_publisher. induction tr as [|e tr IH]; intros Hp; [constructor|].
  destruct e as [p v|p|p|src dst|p|c pre]; simpl in Hp; try (constructor; [exact I|apply IH; assumption]).
  apply Forall_cons in Hp as [-> Hp]. constructor; [reflexivity|apply IH; assumption].
Qed.

Lemma covered_run w tr s s' : awf s -> Covered w s -> Forall (pub_ok w) tr -> arun s tr = Some s' -> Covered w s'.
Proof.
  intros Hwf HC Hok Hrun.
  eapply (run_lift (Covered w) (pub_ok w)); [apply covered_step1|intros; exact I|exact Hwf|exact HC|exact Hok|exact Hrun].
Qed.

Lemma covered_init w n : Covered w (ainit n).
Proof. split; [apply basic_init|]. intros q _. unfold ptok, pevents. rewrite ainit_getp. reflexivity. Qed.

Lemma originates_covered s q : ptok s q = pevents s q -> originates s q = false.
Proof.
  unfold originates, ptok, pevents. intros H.
  destruct (react1_cases (getp s q)) as [[E0 E]|[(k & E0 & E1 & E)|[(k & c & t & E0 & E1 & E2 & E)|(k & c & E0 & E1 & E2 & E)]]];
    rewrite E; try reflexivity. exfalso. lia.
Qed.

(* NO ECHO, operationally: in every state of every run in which w alone publishes (any pace, any joins,
   preloaded joiners included), a react step of any OTHER peer announces nothing: whatever a peer applied
   from the network is never announced by it *)
Theorem no_echo n w tr s' :
  arun (ainit n) tr = Some s' -> only_publisher w tr ->
  forall q, q <> w -> ptok s' q = pevents s' q /\ originates s' q = false.
Proof.
  intros Hrun Hop q Hne.
  pose proof (proj2 (covered_run w tr (ainit n) s' (ainit_wf n) (covered_init w n) (pub_ok_of w tr Hop) Hrun) q Hne) as H.
  split; [exact H|apply originates_covered; exact H].
Qed.
Print Assumptions no_echo.

(* ================================================================================================
   Part 4: the publisher invariant
   [Inv w s]: w is the peer whose publications are being replicated.  Nothing travels towards w, only w
   uses an uplink, every other peer holds one token per unread event, every owner named in a message or
   in a pending download serves the id (no 404), w's cache is its store unless an event of w is still
   unread, and every other peer q is "on its way" to w's cache: either an event of w is unread, or an
   announcement of w is on its way to the host (it will be relayed to everybody), or the LAST owner in
   q's queue (pending downloads, then the channel from the host) serves what w serves -- a download
   fetches the owner's cache AT THAT MOMENT -- or, the queue being empty, q already holds what w serves.
   ================================================================================================ *)

Definition queue (s : astate) (q : peer) : list peer := ppending s q ++ link s host q.

Definition final_ok (w : peer) (s : astate) (q : peer) : Prop :=
  match last (queue s q) with
  | None => pstore s q = pserved s w
  | Some o => pserved s o = pserved s w
  end.

Record Inv (w : peer) (s : astate) : Prop := {
  inv_basic : Basic s;
  inv_tok : ptok s w = 0%nat;
  inv_pend : ppending s w = [];
  inv_in : forall a, link s a w = [];
  inv_up : forall c, c <> w -> link s c host = [];
  inv_up_owner : forall o, o ∈ link s w host -> o = w;
  inv_recv : forall q, q <> w -> ptok s q = pevents s q;
  inv_live_l : forall a b o, o ∈ link s a b -> pserved s o <> None;
  inv_live_p : forall q o, o ∈ ppending s q -> pserved s o <> None;
  inv_served : pserved s w = pstore s w \/ pevents s w <> 0%nat;
  inv_store : forall q, peers s q -> q <> w ->
               pevents s w <> 0%nat \/ link s w host <> [] \/ final_ok w s q
}.

(* what the invariant tolerates: publications by w, fresh joiners (at any moment) *)
Definition ev_ok (w : peer) (s : astate) (e : aevent) : Prop :=
  match e with
  | APublish q _ => q = w
  | AJoin _ pre => pre = None
  | _ => True
  end.

Definition store_after (w : peer) (s : astate) (e : aevent) : option content :=
  match e with APublish _ c => Some c | _ => pstore s w end.

Lemma app_not_nil_l {A} (l1 l2 : list A) : l1 <> [] -> l1 ++ l2 <> [].
Proof. destruct l1; [congruence|discriminate]. Qed.
Lemma app_not_nil_r {A} (l1 l2 : list A) : l2 <> [] -> l1 ++ l2 <> [].
Proof. destruct l1, l2; try congruence; discriminate. Qed.

Lemma not_in_dsts s p : awf s -> p ∉ dsts_of s p.
Proof.
  intros Hwf. unfold dsts_of. destruct (p =? host)%N eqn:E.
  - apply N.eqb_eq in E. subst. apply wf_host, Hwf.
  - apply N.eqb_neq in E. intros H. apply elem_of_list_singleton in H. contradiction.
Qed.

Lemma final_ok_ext w s s' q :
  queue s' q = queue s q -> pstore s' q = pstore s q -> (forall o, pserved s' o = pserved s o) ->
  final_ok w s q -> final_ok w s' q.
Proof. intros Hqu Hst Hsv. unfold final_ok. rewrite Hqu, Hst, !Hsv. destruct (last (queue s q)); [rewrite Hsv|]; auto. Qed.

Lemma final_ok_last w s q o : last (queue s q) = Some o -> pserved s o = pserved s w -> final_ok w s q.
Proof. intros H1 H2. unfold final_ok. rewrite H1. exact H2. Qed.

Lemma inv_ext w s s' :
  (forall q, getp s' q = getp s q) -> (forall a b, link s' a b = link s a b) -> aconn s' = aconn s ->
  Inv w s -> Inv w s'.
Proof.
  intros Hg Hl Hc HI. destruct HI.
  constructor; unfold Basic, final_ok, queue, peers, pstore, pevents, ptok, pserved, ppending in *;
    intros; rewrite ?Hg, ?Hl, ?Hc in *; eauto.
  destruct (inv_store0 q H H0) as [H1|[H1|H1]]; [auto|auto|]. right. right.
  destruct (last (pending (getp s q) ++ link s host q)); [rewrite Hg|]; exact H1.
Qed.

(* the shape of a delivery under the invariant *)
Lemma deliver_shape w s src dst o rest :
  awf s -> Inv w s -> link s src dst = o :: rest ->
  dst <> w /\ pserved s o <> None /\
  ((src = host /\ dst ∈ aconn s /\ dst <> host) \/ (dst = host /\ src = w /\ o = w /\ w <> host /\ w ∈ aconn s)).
Proof.
  intros Hwf HI Hl0.
  assert (Hne0 : link s src dst <> []) by (rewrite Hl0; discriminate).
  assert (Hdw : dst <> w). { intros ->. rewrite (inv_in _ _ HI) in Hne0. congruence. }
  split; [exact Hdw|]. split; [apply (inv_live_l _ _ HI src dst); rewrite Hl0; left|].
  destruct (wf_link s src dst Hwf Hne0) as [[-> Hin]|[-> Hin]].
  - left. split; [reflexivity|]. split; [exact Hin|]. intros ->. apply (wf_host s Hwf Hin).
  - right. split; [reflexivity|]. destruct (decide (src = w)) as [->|Hn].
    + split; [reflexivity|]. split; [apply (inv_up_owner _ _ HI); rewrite Hl0; left|].
      split; [|exact Hin]. intros ->. apply (wf_host s Hwf Hin).
    + rewrite (inv_up _ _ HI src Hn) in Hne0. congruence.
Qed.

Lemma inv_publish w s v s' :
  awf s -> Inv w s -> astep s (APublish w v) = Some s' -> Inv w s' /\ pstore s' w = Some v.
Proof.
  intros Hwf HI Hstep. pose proof (basic_step1 s (APublish w v) s' I Hwf (inv_basic _ _ HI) I Hstep) as HB'.
  apply step_publish in Hstep as (_ & Hc & Hl & _ & Hp & Hq).
  assert (Hlk : forall a b, link s' a b = link s a b) by (intros; unfold link; rewrite Hl; reflexivity).
  split; [|unfold pstore; rewrite Hp; reflexivity].
  assert (Hsv : forall o, pserved s' o = pserved s o).
  { intros o. unfold pserved. destruct (decide (o = w)) as [->|Hne]; [rewrite Hp; reflexivity|rewrite Hq by assumption; reflexivity]. }
  assert (Hpd : forall q, ppending s' q = ppending s q).
  { intros o. unfold ppending. destruct (decide (o = w)) as [->|Hne]; [rewrite Hp; reflexivity|rewrite Hq by assumption; reflexivity]. }
  destruct HI as [iB iT iP iI iU iO iR iL iLp iS iSt]. constructor; intros; rewrite ?Hlk, ?Hsv, ?Hpd in *; eauto.
  - unfold ptok. rewrite Hp. exact iT.
  - unfold ptok, pevents. rewrite Hq by assumption. apply iR. assumption.
  - right. unfold pevents. rewrite Hp. discriminate.
  - left. unfold pevents. rewrite Hp. discriminate.
Qed.

Lemma inv_react1 w s p s' :
  awf s -> Inv w s -> astep s (AReact1 p) = Some s' -> Inv w s' /\ pstore s' w = pstore s w.
Proof.
  intros Hwf HI Hstep. pose proof (wf_nodup s Hwf) as Hnd.
  pose proof (basic_step1 s (AReact1 p) s' I Hwf (inv_basic _ _ HI) I Hstep) as HB'.
  apply step_react1 in Hstep as (Hex & Hc & _ & Hp & Hq & Hl); [|exact Hnd].
  assert (Hst : forall q, pstore s' q = pstore s q).
  { intros q. unfold pstore. destruct (decide (q = p)) as [->|Hne]; [|rewrite Hq by assumption; reflexivity].
    rewrite Hp. destruct (react1_cases (getp s p)) as [[_ E]|[(k & _ & E0 & E)|[(k & c & t & _ & E0 & _ & E)|(k & c & _ & E0 & _ & E)]]];
      rewrite E; simpl; congruence. }
  split; [|apply Hst].
  destruct (react1_cases (getp s p)) as [[E0 E]|[(k & E0 & E1 & E)|[(k & c & t & E0 & E1 & E2 & E)|(k & c & E0 & E1 & E2 & E)]]].
  - (* nothing unread *)
    eapply inv_ext; [| |exact Hc|exact HI].
    + intros q. destruct (decide (q = p)) as [->|Hne]; [rewrite Hp, E; reflexivity|apply Hq; exact Hne].
    + intros a b. rewrite Hl, E. cbn [snd]. cdec as [[Hf _]|_]; [discriminate|reflexivity].
  - exfalso. destruct (inv_basic _ _ HI p) as (_ & H2 & _). apply H2; [unfold pevents; rewrite E0; discriminate|exact E1].
  - (* swallowed by a token *)
    assert (Hpw : p <> w). { intros ->. pose proof (inv_tok _ _ HI) as Ht. unfold ptok in Ht. congruence. }
    rewrite E in Hp, Hl. cbn [fst snd] in Hp, Hl.
    assert (Hlk : forall a b, link s' a b = link s a b).
    { intros a b. rewrite Hl. cdec as [[Hf _]|_]; [discriminate|reflexivity]. }
    assert (Hsv : forall o, pserved s' o = pserved s o).
    { intros o. unfold pserved. destruct (decide (o = p)) as [->|Hne]; [rewrite Hp; reflexivity|rewrite Hq by assumption; reflexivity]. }
    assert (Hpd : forall q, ppending s' q = ppending s q).
    { intros o. unfold ppending. destruct (decide (o = p)) as [->|Hne]; [rewrite Hp; reflexivity|rewrite Hq by assumption; reflexivity]. }
    assert (Hew : pevents s' w = pevents s w) by (unfold pevents; rewrite Hq by congruence; reflexivity).
    destruct HI as [iB iT iP iI iU iO iR iL iLp iS iSt]. constructor; intros; rewrite ?Hlk, ?Hsv, ?Hpd, ?Hst, ?Hew in *; eauto.
    + unfold ptok. rewrite Hq by congruence. exact iT.
    + destruct (decide (q = p)) as [->|Hne].
      * unfold ptok, pevents. rewrite Hp. simpl. specialize (iR p Hpw). unfold ptok, pevents in iR. lia.
      * unfold ptok, pevents. rewrite Hq by assumption. apply iR. assumption.
    + unfold peers in H. rewrite Hc in H. destruct (iSt q H H0) as [H1|[H1|H1]]; [auto|auto|]. right. right.
      eapply final_ok_ext; [| | |exact H1]; [unfold queue; rewrite Hpd, Hlk; reflexivity|apply Hst|apply Hsv].
  - (* a local change: served and announced *)
    destruct (decide (p = w)) as [->|Hpw].
    2:{ exfalso. pose proof (inv_recv _ _ HI p Hpw) as H. unfold pevents, ptok in *. congruence. }
    rewrite E in Hp, Hl. cbn [fst snd] in Hp, Hl.
    assert (Hlk : forall a b, link s' a b = if decide (a = w /\ b ∈ dsts_of s w) then link s a b ++ [w] else link s a b).
    { intros a b. rewrite Hl. destruct (decide (a = w /\ b ∈ dsts_of s w)) as [Hy|Hn].
      - destruct (decide (true = true /\ _)) as [_|Hn]; [reflexivity|tauto].
      - destruct (decide (true = true /\ _)) as [[_ Hy]|_]; [tauto|reflexivity]. }
    assert (Hsvw : pserved s' w = Some c) by (unfold pserved; rewrite Hp; reflexivity).
    assert (Hsv : forall o, o <> w -> pserved s' o = pserved s o).
    { intros o Hne. unfold pserved. rewrite Hq by assumption. reflexivity. }
    assert (Hmono : forall o, pserved s o <> None -> pserved s' o <> None).
    { intros o Ho. destruct (decide (o = w)) as [->|Hne]; [rewrite Hsvw; discriminate|rewrite Hsv by assumption; exact Ho]. }
    assert (Hpd : forall q, ppending s' q = ppending s q).
    { intros o. unfold ppending. destruct (decide (o = w)) as [->|Hne]; [rewrite Hp; reflexivity|rewrite Hq by assumption; reflexivity]. }
    destruct HI as [iB iT iP iI iU iO iR iL iLp iS iSt]. constructor; intros; rewrite ?Hpd in *.
    + exact HB'.
    + unfold ptok. rewrite Hp. reflexivity.
    + exact iP.
    + rewrite Hlk. cdec as [[_ Hin]|_]; [exfalso; eapply not_in_dsts; eauto|apply iI].
    + rewrite Hlk. cdec as [[Heq _]|_]; [contradiction|apply iU; assumption].
    + rewrite Hlk in H. cdec as [_|_]; [|apply iO; exact H].
      apply elem_of_app in H as [H|H]; [apply iO; exact H|]. apply elem_of_list_singleton in H. exact H.
    + unfold ptok, pevents. rewrite Hq by assumption. apply iR. assumption.
    + rewrite Hlk in H. cdec as [_|_]; [|apply Hmono; eapply iL; exact H].
      apply elem_of_app in H as [H|H]; [apply Hmono; eapply iL; exact H|].
      apply elem_of_list_singleton in H. subst o. rewrite Hsvw. discriminate.
    + apply Hmono. eapply iLp; exact H.
    + left. rewrite Hsvw. unfold pstore. rewrite Hp. reflexivity.
    + unfold peers in H. rewrite Hc in H. right. destruct (decide (w = host)) as [->|Hwh].
      * right. apply (final_ok_last _ _ _ host); [|reflexivity].
        unfold queue. rewrite Hpd, Hlk. cdec as [_|Hn]; [rewrite app_assoc; apply last_snoc|].
        exfalso. apply Hn. split; [reflexivity|]. unfold dsts_of. change (host =? host)%N with true. cbv iota.
        destruct H as [H|H]; [contradiction|exact H].
      * left. rewrite Hlk. cdec as [_|Hn]; [apply app_not_nil_r; discriminate|].
        exfalso. apply Hn. split; [reflexivity|]. unfold dsts_of.
        destruct (w =? host)%N eqn:E'; [apply N.eqb_eq in E'; contradiction|]. apply elem_of_list_singleton. reflexivity.
Qed.

Lemma last_tail_ne {A} (o : A) (l : list A) : l <> [] -> last (o :: l) = last l.
Proof. destruct l; [congruence|]. intros _. apply last_cons_cons. Qed.

Lemma inv_deliver w s src dst s' :
  awf s -> Inv w s -> astep s (ADeliver src dst) = Some s' -> Inv w s' /\ pstore s' w = pstore s w.
Proof.
  intros Hwf HI Hstep. pose proof (wf_nodup s Hwf) as Hnd. pose proof (wf_link_hh s Hwf) as Hhh.
  pose proof (basic_step1 s (ADeliver src dst) s' I Hwf (inv_basic _ _ HI) I Hstep) as HB'.
  apply step_deliver in Hstep as (o & rest & Hl0 & Hd & Hc & _ & Hp & Hq & Hl); [|exact Hnd].
  destruct (deliver_shape w s src dst o rest Hwf HI Hl0) as (Hdw & Hlive & Hshape).
  assert (Hst : forall q, pstore s' q = pstore s q).
  { intros q. unfold pstore. destruct (decide (q = dst)) as [->|Hne]; [rewrite Hp; reflexivity|rewrite Hq by assumption; reflexivity]. }
  assert (Hsv : forall q, pserved s' q = pserved s q).
  { intros q. unfold pserved. destruct (decide (q = dst)) as [->|Hne]; [rewrite Hp; reflexivity|rewrite Hq by assumption; reflexivity]. }
  assert (Hev : forall q, pevents s' q = pevents s q).
  { intros q. unfold pevents. destruct (decide (q = dst)) as [->|Hne]; [rewrite Hp; reflexivity|rewrite Hq by assumption; reflexivity]. }
  assert (Htk : forall q, ptok s' q = ptok s q).
  { intros q. unfold ptok. destruct (decide (q = dst)) as [->|Hne]; [rewrite Hp; reflexivity|rewrite Hq by assumption; reflexivity]. }
  assert (Hpd : forall q, ppending s' q = if decide (q = dst) then ppending s q ++ [o] else ppending s q).
  { intros q. unfold ppending. destruct (decide (q = dst)) as [->|Hne]; [rewrite Hp; reflexivity|rewrite Hq by assumption; reflexivity]. }
  split; [|apply Hst].
  destruct HI as [iB iT iP iI iU iO iR iL iLp iS iSt]. constructor; intros; rewrite ?Hsv, ?Hev, ?Htk, ?Hst in *.
  - exact HB'.
  - exact iT.
  - rewrite Hpd. destruct (decide (w = dst)); [congruence|exact iP].
  - rewrite Hl. destruct (decide ((a, w) = (src, dst))) as [Heq|_]; [inversion Heq; congruence|].
    rewrite iI. cbn [app]. cdec as [(Hdh & _ & Hin)|_]; [|reflexivity].
    apply elem_of_others in Hin as [Hn _]. destruct Hshape as [(_ & _ & ?)|(? & ? & _)]; congruence.
  - rewrite Hl. destruct (decide ((c, host) = (src, dst))) as [Heq|_].
    + inversion Heq; subst. destruct Hshape as [(_ & _ & ?)|(_ & ? & _)]; congruence.
    + rewrite iU by assumption. cbn [app]. cdec as [(_ & _ & Hin)|_]; [|reflexivity].
      apply elem_of_others in Hin as [_ Hin]. exfalso. apply (wf_host s Hwf Hin).
  - rewrite Hl in H. apply elem_of_app in H as [H|H].
    + destruct (decide ((w, host) = (src, dst))) as [Heq|_]; [|apply iO; exact H].
      inversion Heq; subst src dst. apply iO. rewrite Hl0. right. exact H.
    + cdec as [(_ & _ & Hin)|_]; [|inversion H]. apply elem_of_others in Hin as [_ Hin]. exfalso. apply (wf_host s Hwf Hin).
  - apply iR. assumption.
  - rewrite Hl in H. apply elem_of_app in H as [H|H].
    + destruct (decide ((a, b) = (src, dst))) as [Heq|_]; [|eapply iL; exact H].
      apply (iL src dst). rewrite Hl0. right. exact H.
    + cdec as [_|_]; [|inversion H]. apply elem_of_list_singleton in H. subst o0. exact Hlive.
  - rewrite Hpd in H. destruct (decide (q = dst)) as [->|_]; [|eapply iLp; exact H].
    apply elem_of_app in H as [H|H]; [eapply iLp; exact H|]. apply elem_of_list_singleton in H. subst o0. exact Hlive.
  - exact iS.
  - unfold peers in H. rewrite Hc in H.
    destruct Hshape as [(-> & Hin & Hdh)|(-> & -> & -> & Hwh & Hin)].
    + (* host -> client dst: the announcement moves from the channel into the pending list *)
      assert (Hwl : link s' w host = link s w host).
      { rewrite Hl. destruct (decide ((w, host) = (host, dst))) as [Heq|_]; [inversion Heq; congruence|].
        destruct (decide (dst = host /\ _)) as [[? _]|_]; [contradiction|]. apply app_nil_r. }
      rewrite Hwl. destruct (iSt q H H0) as [H1|[H1|H1]]; [auto|auto|]. right. right.
      eapply final_ok_ext; [| | |exact H1]; [|apply Hst|apply Hsv].
      unfold queue. rewrite Hpd, Hl. destruct (decide (dst = host /\ _)) as [[? _]|_]; [contradiction|]. rewrite app_nil_r.
      destruct (decide (q = dst)) as [->|Hnq].
      * destruct (decide ((host, dst) = (host, dst))) as [_|?]; [|congruence]. rewrite Hl0, <- app_assoc. reflexivity.
      * destruct (decide ((host, q) = (host, dst))) as [Heq|_]; [inversion Heq; congruence|reflexivity].
    + (* w -> host: the host queues the download and relays to every other client *)
      right. right. apply (final_ok_last _ _ _ w); [|rewrite !Hsv; reflexivity].
      unfold queue. rewrite Hpd, Hl. destruct (decide (q = host)) as [->|Hnq].
      * destruct (decide ((host, host) = (w, host))) as [Heq|_]; [inversion Heq; congruence|].
        destruct (decide (host = host /\ host = host /\ host ∈ others w (aconn s))) as [(_ & _ & Hin')|_].
        { apply elem_of_others in Hin' as [_ Hin']. exfalso. apply (wf_host s Hwf Hin'). }
        rewrite Hhh, !app_nil_r. apply last_snoc.
      * destruct (decide ((host, q) = (w, host))) as [Heq|_]; [inversion Heq; congruence|].
        destruct (decide (host = host /\ host = host /\ q ∈ others w (aconn s))) as [_|Hn].
        -- rewrite !app_assoc. apply last_snoc.
        -- exfalso. apply Hn. split; [reflexivity|]. split; [reflexivity|]. apply elem_of_others. split; [assumption|].
           destruct H as [?|?]; [contradiction|assumption].
Qed.

Lemma inv_download w s p s' :
  awf s -> Inv w s -> astep s (ADownload p) = Some s' -> Inv w s' /\ pstore s' w = pstore s w.
Proof.
  intros Hwf HI Hstep.
  pose proof (basic_step1 s (ADownload p) s' I Hwf (inv_basic _ _ HI) I Hstep) as HB'.
  apply step_download in Hstep as (o & rest & Hp0 & Hex & Hc & Hl & _ & Hp & Hq).
  assert (Hlk : forall a b, link s' a b = link s a b) by (intros; unfold link; rewrite Hl; reflexivity).
  assert (Hpw : p <> w). { intros ->. rewrite (inv_pend _ _ HI) in Hp0. discriminate. }
  assert (Hlive : pserved s o <> None). { apply (inv_live_p _ _ HI p). rewrite Hp0. left. }
  destruct (pserved s o) as [c|] eqn:Hso; [|congruence].
  assert (Hp' : getp s' p = APeer (Some c) (S (pevents s p)) (S (ptok s p)) (pserved s p) rest).
  { rewrite Hp. unfold download_peer. unfold ppending in Hp0. rewrite Hp0. reflexivity. }
  assert (Hsv : forall q, pserved s' q = pserved s q).
  { intros q. unfold pserved. destruct (decide (q = p)) as [->|Hne]; [rewrite Hp'; reflexivity|rewrite Hq by assumption; reflexivity]. }
  assert (Hstw : pstore s' w = pstore s w) by (unfold pstore; rewrite Hq by congruence; reflexivity).
  assert (Hew : pevents s' w = pevents s w) by (unfold pevents; rewrite Hq by congruence; reflexivity).
  split; [|exact Hstw].
  destruct HI as [iB iT iP iI iU iO iR iL iLp iS iSt]. constructor; intros; rewrite ?Hlk, ?Hsv, ?Hstw, ?Hew in *; eauto.
  - unfold ptok. rewrite Hq by congruence. exact iT.
  - unfold ppending. rewrite Hq by congruence. exact iP.
  - destruct (decide (q = p)) as [->|Hne].
    + unfold ptok, pevents. rewrite Hp'. simpl. f_equal. apply iR. assumption.
    + unfold ptok, pevents. rewrite Hq by assumption. apply iR. assumption.
  - destruct (decide (q = p)) as [->|Hne]; unfold ppending in H.
    + rewrite Hp' in H. simpl in H. apply (iLp p). rewrite Hp0. right. exact H.
    + rewrite Hq in H by assumption. eapply iLp; exact H.
  - unfold peers in H. rewrite Hc in H. destruct (iSt q H H0) as [H1|[H1|H1]]; [auto|auto|]. right. right.
    destruct (decide (q = p)) as [->|Hne].
    + unfold final_ok, queue in *. rewrite Hlk. unfold ppending at 1. rewrite Hp'. cbn [pending].
      rewrite Hp0 in H1. cbn [app] in H1.
      destruct (rest ++ link s host p) as [|y l] eqn:Hr.
      * simpl in H1. simpl. unfold pstore. rewrite Hp'. simpl. rewrite <- Hso, Hsv. exact H1.
      * rewrite last_tail_ne in H1 by discriminate. revert H1.
        destruct (last (y :: l)) as [z|] eqn:Hla; intros H1; [rewrite ?Hsv; exact H1|]. apply last_None in Hla. discriminate.
    + eapply final_ok_ext; [| | |exact H1]; [|unfold pstore; rewrite Hq by assumption; reflexivity|apply Hsv].
      unfold queue, ppending. rewrite Hlk, Hq by assumption. reflexivity.
Qed.

(* a join while the host is NOT downloading: the host serves its copy and names itself *)
Lemma inv_join_idle w s c s' :
  awf s -> Inv w s -> ppending s host = [] -> astep s (AJoin c None) = Some s' ->
  Inv w s' /\ pstore s' w = pstore s w.
Proof.
  intros Hwf HI Hwin Hstep. pose proof (wf_link_hh s Hwf) as Hhh.
  pose proof (basic_step1 s (AJoin c None) s' I Hwf (inv_basic _ _ HI) I Hstep) as HB'.
  apply step_join in Hstep as (Hch & Hcn & Hnone & Hc & _ & Hpc & Hph & Hq & Hl).
  rewrite (join_host_idle s Hwin) in Hph. pose proof (snapshot_idle s Hwin) as Hsn.
  pose proof (getp_none _ _ Hnone) as Hc0.
  assert (Hlc : link s host c = []) by (apply wf_link_nil; [exact Hwf|apply wf_host; exact Hwf|exact Hcn]).
  assert (Hlc' : link s c host = []) by (apply wf_link_nil; [exact Hwf|exact Hcn|apply wf_host; exact Hwf]).
  assert (Hst : forall q, pstore s' q = pstore s q).
  { intros q. unfold pstore. destruct (decide (q = c)) as [->|Hne]; [rewrite Hpc, Hc0; reflexivity|].
    destruct (decide (q = host)) as [->|Hnh]; [rewrite Hph; reflexivity|rewrite Hq by assumption; reflexivity]. }
  assert (Hev : forall q, pevents s' q = pevents s q).
  { intros q. unfold pevents. destruct (decide (q = c)) as [->|Hne]; [rewrite Hpc, Hc0; reflexivity|].
    destruct (decide (q = host)) as [->|Hnh]; [rewrite Hph; reflexivity|rewrite Hq by assumption; reflexivity]. }
  assert (Htk : forall q, ptok s' q = ptok s q).
  { intros q. unfold ptok. destruct (decide (q = c)) as [->|Hne]; [rewrite Hpc, Hc0; reflexivity|].
    destruct (decide (q = host)) as [->|Hnh]; [rewrite Hph; reflexivity|rewrite Hq by assumption; reflexivity]. }
  assert (Hpd : forall q, ppending s' q = ppending s q).
  { intros q. unfold ppending. destruct (decide (q = c)) as [->|Hne]; [rewrite Hpc, Hc0; reflexivity|].
    destruct (decide (q = host)) as [->|Hnh]; [rewrite Hph; reflexivity|rewrite Hq by assumption; reflexivity]. }
  assert (Hsv : forall o, o <> host -> pserved s' o = pserved s o).
  { intros q Hnh. unfold pserved. destruct (decide (q = c)) as [->|Hne]; [rewrite Hpc, Hc0; reflexivity|].
    rewrite Hq by assumption; reflexivity. }
  assert (Hsvh : pserved s' host = match pstore s host with Some v => Some v | None => pserved s host end).
  { unfold pserved, pstore. rewrite Hph. reflexivity. }
  assert (Hmono : forall o, pserved s o <> None -> pserved s' o <> None).
  { intros o Ho. destruct (decide (o = host)) as [->|Hne]; [|rewrite Hsv by assumption; exact Ho].
    rewrite Hsvh. destruct (pstore s host); [discriminate|exact Ho]. }
  assert (Hlw : link s' w host = link s w host).
  { rewrite Hl. cdec as [Heq|_]; [inversion Heq; congruence|reflexivity]. }
  (* unless something of w is still on its way to the host, the host now serves what w serves *)
  assert (HK : (pevents s w <> 0%nat \/ link s w host <> []) \/
               (pserved s' host = pserved s w /\ pserved s' w = pserved s w /\ (pstore s host = None -> pserved s w = None))).
  { destruct (decide (w = host)) as [->|Hwh].
    - destruct (inv_served _ _ HI) as [Hs|Hs]; [|left; left; exact Hs]. right.
      assert (H1 : pserved s' host = pserved s host) by (rewrite Hsvh, <- Hs; destruct (pserved s host); reflexivity).
      split; [exact H1|]. split; [exact H1|]. intros Hn. rewrite Hs. exact Hn.
    - destruct (inv_store _ _ HI host (or_introl eq_refl) (not_eq_sym Hwh)) as [H1|[H1|H1]]; [left; left; exact H1|left; right; exact H1|].
      right. unfold final_ok, queue in H1. rewrite Hwin, Hhh in H1. simpl in H1.
      assert (H2 : pserved s' host = pserved s w).
      { rewrite Hsvh, <- H1. destruct (pstore s host) eqn:E; [reflexivity|].
        destruct (inv_basic _ _ HI host) as (_ & _ & H3). destruct (pserved s host); [exfalso; apply H3; [discriminate|exact E]|reflexivity]. }
      split; [exact H2|]. split; [apply Hsv; exact Hwh|]. intros Hn. rewrite <- H1. exact Hn. }
  split; [|apply Hst].
  destruct HI as [iB iT iP iI iU iO iR iL iLp iS iSt]. constructor; intros; rewrite ?Hev, ?Htk, ?Hpd, ?Hst, ?Hlw in *.
  - exact HB'.
  - exact iT.
  - exact iP.
  - rewrite Hl. cdec as [Heq|_]; [|apply iI]. inversion Heq; subst a w. rewrite Hlc. cbn [app].
    rewrite Hsn. destruct HK as [[H1|H1]|(_ & _ & H1)].
    + exfalso. apply H1. unfold pevents. rewrite Hc0. reflexivity.
    + exfalso. apply H1. exact Hlc'.
    + destruct (pstore s host) eqn:E; [|reflexivity]. exfalso.
      destruct (iSt host (or_introl eq_refl) (not_eq_sym Hch)) as [H2|[H2|H2]].
      * apply H2. unfold pevents. rewrite Hc0. reflexivity.
      * apply H2. exact Hlc'.
      * unfold final_ok, queue in H2. rewrite Hwin, Hhh in H2. simpl in H2. unfold pserved at 1 in H2. rewrite Hc0 in H2. simpl in H2. congruence.
  - rewrite Hl. cdec as [Heq|_]; [inversion Heq; congruence|apply iU; assumption].
  - apply iO. exact H.
  - apply iR. assumption.
  - rewrite Hl in H. cdec as [Heq|_]; [|apply Hmono; eapply iL; exact H].
    rewrite Hlc in H. cbn [app] in H. rewrite Hsn in H. destruct (pstore s host) eqn:E; [|inversion H].
    apply elem_of_list_singleton in H. subst o. rewrite Hsvh. discriminate.
  - apply Hmono. eapply iLp; exact H.
  - destruct (decide (w = host)) as [->|Hwh]; [|rewrite Hsv by assumption; exact iS].
    rewrite Hsvh. destruct (pstore s host) eqn:E; [left; reflexivity|exact iS].
  - destruct HK as [[HK0|HK0]|(HK1 & HK2 & HK3)]; [left; exact HK0|right; left; exact HK0|].
    destruct (Nat.eq_dec (pevents s w) 0%nat) as [He0|He0]; [|left; exact He0].
    destruct (decide (link s w host = [])) as [Hl0|Hl0]; [|right; left; exact Hl0]. right. right.
    destruct (decide (q = c)) as [->|Hnq].
    + unfold final_ok, queue. rewrite Hpd. unfold ppending at 1. rewrite Hc0. cbn [pending app].
      rewrite Hl. destruct (decide ((host, c) = (host, c))) as [_|?]; [|congruence]. rewrite Hlc. cbn [app].
      rewrite Hsn. destruct (pstore s host) eqn:E.
      * simpl. rewrite HK1, HK2. reflexivity.
      * simpl. rewrite Hst, HK2, (HK3 eq_refl). unfold pstore. rewrite Hc0. reflexivity.
    + assert (Hpq : peers s q).
      { destruct H as [H|H]; [left; exact H|]. rewrite Hc in H. apply elem_of_app in H as [H|H]; [right; exact H|].
        apply elem_of_list_singleton in H. contradiction. }
      assert (Hqu : queue s' q = queue s q).
      { unfold queue. rewrite Hpd, Hl. destruct (decide ((host, q) = (host, c))) as [Heq|_]; [inversion Heq; congruence|reflexivity]. }
      destruct (iSt q Hpq H0) as [H1|[H1|H1]]; [contradiction|contradiction|].
      unfold final_ok in *. rewrite Hqu, Hst, HK2. destruct (last (queue s q)) as [o|]; [|exact H1].
      destruct (decide (o = host)) as [->|Hno]; [exact HK1|]. rewrite Hsv by assumption. exact H1.
Qed.

(* a join while the host IS downloading (the former join window, repair of S26): nothing changes but the new
   connection and its channel, which names the owner [o] of the host's latest request: whatever makes the host
   end with w's content (an unread event of w, an announcement on its way up, or o serving what w serves) does
   the same for the joiner *)
Lemma inv_join_pend w s c o s' :
  awf s -> Inv w s -> last (ppending s host) = Some o -> astep s (AJoin c None) = Some s' ->
  Inv w s' /\ pstore s' w = pstore s w.
Proof.
  intros Hwf HI Hlast Hstep. pose proof (wf_link_hh s Hwf) as Hhh.
  pose proof (basic_step1 s (AJoin c None) s' I Hwf (inv_basic _ _ HI) I Hstep) as HB'.
  apply step_join in Hstep as (Hch & Hcn & Hnone & Hc & _ & Hpc & Hph & Hq & Hl).
  rewrite (join_host_pend s o Hlast) in Hph. rewrite (snapshot_pend s o Hlast) in Hl.
  pose proof (getp_none _ _ Hnone) as Hc0.
  assert (Hlc : link s host c = []) by (apply wf_link_nil; [exact Hwf|apply wf_host; exact Hwf|exact Hcn]).
  assert (Hlc' : link s c host = []) by (apply wf_link_nil; [exact Hwf|exact Hcn|apply wf_host; exact Hwf]).
  assert (Hg : forall q, getp s' q = getp s q).
  { intros q. destruct (decide (q = c)) as [->|Hne]; [rewrite Hpc, Hc0; reflexivity|].
    destruct (decide (q = host)) as [->|Hnh]; [exact Hph|apply Hq; assumption]. }
  assert (Hst : forall q, pstore s' q = pstore s q) by (intros q; unfold pstore; rewrite Hg; reflexivity).
  assert (Hev : forall q, pevents s' q = pevents s q) by (intros q; unfold pevents; rewrite Hg; reflexivity).
  assert (Htk : forall q, ptok s' q = ptok s q) by (intros q; unfold ptok; rewrite Hg; reflexivity).
  assert (Hpd : forall q, ppending s' q = ppending s q) by (intros q; unfold ppending; rewrite Hg; reflexivity).
  assert (Hsv : forall q, pserved s' q = pserved s q) by (intros q; unfold pserved; rewrite Hg; reflexivity).
  assert (Hino : o ∈ ppending s host).
  { apply last_Some in Hlast as [l' ->]. apply elem_of_app. right. apply elem_of_list_singleton. reflexivity. }
  assert (Hlive : pserved s o <> None) by (apply (inv_live_p _ _ HI host); exact Hino).
  assert (Hwh : w <> host). { intros ->. rewrite (inv_pend _ _ HI) in Hino. inversion Hino. }
  (* what the invariant says about the host, which is not the publisher *)
  assert (HK : pevents s w <> 0%nat \/ link s w host <> [] \/ pserved s o = pserved s w).
  { destruct (inv_store _ _ HI host (or_introl eq_refl) (not_eq_sym Hwh)) as [H1|[H1|H1]]; [auto|auto|].
    right. right. unfold final_ok, queue in H1. rewrite Hhh, app_nil_r, Hlast in H1. exact H1. }
  assert (Hwc : w <> c).
  { intros ->. destruct HK as [H1|[H1|H1]].
    - apply H1. unfold pevents. rewrite Hc0. reflexivity.
    - apply H1. exact Hlc'.
    - apply Hlive. rewrite H1. unfold pserved. rewrite Hc0. reflexivity. }
  assert (Hlw : link s' w host = link s w host).
  { rewrite Hl. cdec as [Heq|_]; [inversion Heq; congruence|reflexivity]. }
  split; [|apply Hst].
  destruct HI as [iB iT iP iI iU iO iR iL iLp iS iSt]. constructor; intros; rewrite ?Hev, ?Htk, ?Hpd, ?Hst, ?Hsv, ?Hlw in *.
  - exact HB'.
  - exact iT.
  - exact iP.
  - rewrite Hl. cdec as [Heq|_]; [inversion Heq; congruence|apply iI].
  - rewrite Hl. cdec as [Heq|_]; [inversion Heq; congruence|apply iU; assumption].
  - apply iO. exact H.
  - apply iR. assumption.
  - rewrite Hl in H. cdec as [Heq|_]; [|eapply iL; exact H].
    rewrite Hlc in H. cbn [app] in H. apply elem_of_list_singleton in H. subst o0. exact Hlive.
  - eapply iLp; exact H.
  - exact iS.
  - destruct (decide (q = c)) as [->|Hnq].
    + destruct HK as [H1|[H1|H1]]; [left; exact H1|right; left; exact H1|]. right. right.
      apply (final_ok_last _ _ _ o); [|rewrite !Hsv; exact H1].
      unfold queue. rewrite Hpd. unfold ppending at 1. rewrite Hc0. cbn [pending app].
      rewrite Hl. destruct (decide ((host, c) = (host, c))) as [_|?]; [|congruence]. rewrite Hlc. reflexivity.
    + assert (Hpq : peers s q).
      { destruct H as [H|H]; [left; exact H|]. rewrite Hc in H. apply elem_of_app in H as [H|H]; [right; exact H|].
        apply elem_of_list_singleton in H. contradiction. }
      destruct (iSt q Hpq H0) as [H1|[H1|H1]]; [auto|auto|]. right. right.
      eapply final_ok_ext; [| | |exact H1]; [|apply Hst|apply Hsv].
      unfold queue. rewrite Hpd, Hl. destruct (decide ((host, q) = (host, c))) as [Heq|_]; [inversion Heq; congruence|reflexivity].
Qed.

(* a fresh client may join at ANY moment *)
Lemma inv_join w s c s' :
  awf s -> Inv w s -> astep s (AJoin c None) = Some s' -> Inv w s' /\ pstore s' w = pstore s w.
Proof.
  intros Hwf HI Hstep. destruct (last (ppending s host)) as [o|] eqn:Hlast.
  - eapply inv_join_pend; eauto.
  - apply last_None in Hlast. eapply inv_join_idle; eauto.
Qed.

Lemma inv_publish_quiescent p s c s' :
  awf s -> Basic s -> aquiescent s -> astep s (APublish p c) = Some s' -> Inv p s' /\ pstore s' p = Some c.
Proof.
  intros Hwf HB Hqs Hstep. pose proof (basic_step1 s (APublish p c) s' I Hwf HB I Hstep) as HB'.
  apply step_publish in Hstep as (_ & Hc & Hl & _ & Hp & Hq).
  assert (Hlk : forall a b, link s' a b = []) by (intros; unfold link; rewrite Hl; apply (quiescent_link s _ _ Hqs)).
  assert (Hpd : forall q, ppending s' q = []).
  { intros q. destruct (quiescent_peer s q Hqs) as (_ & _ & H). unfold ppending in *.
    destruct (decide (q = p)) as [->|Hne]; [rewrite Hp; exact H|rewrite Hq by assumption; exact H]. }
  split; [|unfold pstore; rewrite Hp; reflexivity].
  constructor; intros; rewrite ?Hlk, ?Hpd in *; auto.
  - unfold ptok. rewrite Hp. apply (quiescent_peer s p Hqs).
  - inversion H.
  - unfold ptok, pevents. rewrite Hq by assumption. destruct (quiescent_peer s q Hqs) as (H1 & H2 & _).
    unfold ptok, pevents in *. congruence.
  - inversion H.
  - inversion H.
  - right. unfold pevents. rewrite Hp. discriminate.
  - left. unfold pevents. rewrite Hp. discriminate.
Qed.

Lemma inv_step1 w s e s' :
  single e -> awf s -> Inv w s -> ev_ok w s e -> astep s e = Some s' ->
  Inv w s' /\ pstore s' w = store_after w s e.
Proof.
  intros He Hwf HI Hok Hstep. destruct e as [p v|p|p|src dst|p|c pre]; [|contradiction| | | |].
  - simpl in Hok. subst p. eapply inv_publish; eauto.
  - eapply inv_react1; eauto.
  - eapply inv_deliver; eauto.
  - eapply inv_download; eauto.
  - simpl in Hok. subst pre. eapply inv_join; eauto.
Qed.

Lemma inv_react w s p s' :
  awf s -> Inv w s -> astep s (AReact p) = Some s' -> Inv w s' /\ pstore s' w = pstore s w.
Proof.
  intros Hwf HI Hstep. apply step_react_runs in Hstep.
  pose (P := fun s1 => awf s1 /\ Inv w s1 /\ pstore s1 w = pstore s w).
  assert (HP : P s'); [|destruct HP as (_ & H1 & H2); split; [exact H1|exact H2]].
  eapply (react1s_ind P p); [|split; [exact Hwf|split; [exact HI|reflexivity]]|exact Hstep].
  intros s1 s2 (Hw1 & HI1 & Hs1) H12. split; [eapply step_wf; eauto|].
  destruct (inv_react1 w s1 p s2 Hw1 HI1 H12) as [HI2 Hs2]. split; [exact HI2|]. rewrite Hs2. exact Hs1.
Qed.

Lemma inv_step w s e s' :
  awf s -> Inv w s -> ev_ok w s e -> astep s e = Some s' -> Inv w s' /\ pstore s' w = store_after w s e.
Proof.
  intros Hwf HI Hok Hstep. destruct e as [p v|p|p|src dst|p|c pre]; try (eapply inv_step1; eauto; exact I).
  eapply inv_react; eauto.
Qed.

Definition lastd (d : option content) (l : list content) : option content := foldl (fun _ v => Some v) d l.
Lemma lastd_cons d v l : lastd d (v :: l) = lastd (Some v) l.
Proof. reflexivity. Qed.
Lemma lastd_last d l : lastd d l = match last l with Some v => Some v | None => d end.
Proof.
  revert d. induction l as [|v l IH]; intros d; [reflexivity|]. rewrite lastd_cons, IH.
  destruct l as [|v' l']; [reflexivity|]. change (last (v :: v' :: l')) with (last (v' :: l')).
  destruct (last (v' :: l')) eqn:E; [reflexivity|]. exfalso. clear -E.
  revert v' E. induction l' as [|x l' IH]; intros v' E; [discriminate|]. apply (IH x). exact E.
Qed.
Lemma lastd_None_last l : lastd None l = last l.
Proof. rewrite lastd_last. destruct (last l); reflexivity. Qed.

Lemma published_cons e tr :
  published (e :: tr) = match e with APublish _ c => c :: published tr | _ => published tr end.
Proof. destruct e; reflexivity. Qed.

Lemma store_after_lastd w s e tr :
  lastd (store_after w s e) (published tr) = lastd (pstore s w) (published (e :: tr)).
Proof. rewrite published_cons. destruct e; reflexivity. Qed.

Lemma joins_cons e tr :
  joins (e :: tr) = match e with AJoin c pre => (c, pre) :: joins tr | _ => joins tr end.
Proof. destruct e; reflexivity. Qed.

Lemma fresh_joins_cons e tr :
  fresh_joins (e :: tr) -> (match e with AJoin _ pre => pre = None | _ => True end) /\ fresh_joins tr.
Proof.
  unfold fresh_joins. rewrite joins_cons. destruct e as [p v|p|p|src dst|p|c pre]; auto.
  intros H. apply Forall_cons in H as [H1 H2]. auto.
Qed.

(* the run lemma: the current publisher [w] changes at a hand-over *)
Lemma inv_run tr : forall w s s',
  awf s -> Inv w s -> fresh_joins tr ->
  handover_at_quiescence w s tr = true -> arun s tr = Some s' ->
  exists w', awf s' /\ Inv w' s' /\ pstore s' w' = lastd (pstore s w) (published tr).
Proof.
  induction tr as [|e tr IH]; intros w s s' Hwf HI Hfj Hho Hrun.
  - simpl in Hrun. inversion Hrun; subst. exists w. auto.
  - cbn [arun] in Hrun. cbn [handover_at_quiescence] in Hho.
    destruct (astep s e) as [s1|] eqn:Hstep; [|discriminate].
    apply fresh_joins_cons in Hfj as [Hf1 Hfj].
    pose proof (step_wf _ _ _ Hwf Hstep) as Hwf1.
    assert (H1 : exists w1, Inv w1 s1 /\ handover_at_quiescence w1 s1 tr = true /\
                            lastd (pstore s1 w1) (published tr) = lastd (pstore s w) (published (e :: tr))).
    { destruct e as [p v|p|p|src dst|p|c pre].
      - apply andb_true_iff in Hho as [Hh1 Hho]. exists p. rewrite published_cons, lastd_cons.
        apply orb_true_iff in Hh1 as [Hh1|Hh1].
        + apply bool_decide_eq_true in Hh1. subst p.
          destruct (inv_publish w s v s1 Hwf HI Hstep) as [HI1 Hs1]. rewrite Hs1. auto.
        + apply bool_decide_eq_true in Hh1.
          destruct (inv_publish_quiescent p s v s1 Hwf (inv_basic _ _ HI) Hh1 Hstep) as [HI1 Hs1]. rewrite Hs1. auto.
      - exists w.  destruct (inv_step w s (AReact p) s1 Hwf HI I Hstep) as [HI1 Hs1]. rewrite Hs1. auto.
      - exists w.  destruct (inv_step w s (AReact1 p) s1 Hwf HI I Hstep) as [HI1 Hs1]. rewrite Hs1. auto.
      - exists w.  destruct (inv_step w s (ADeliver src dst) s1 Hwf HI I Hstep) as [HI1 Hs1]. rewrite Hs1. auto.
      - exists w.  destruct (inv_step w s (ADownload p) s1 Hwf HI I Hstep) as [HI1 Hs1]. rewrite Hs1. auto.
      - exists w. subst pre.
        destruct (inv_step w s (AJoin c None) s1 Hwf HI eq_refl Hstep) as [HI1 Hs1]. rewrite Hs1. auto. }
    destruct H1 as (w1 & HI1 & Hho1 & Hla).
    destruct (IH w1 s1 s' Hwf1 HI1 Hfj Hho1 Hrun) as (w' & Hwf' & HI' & Hs').
    exists w'. split; [exact Hwf'|]. split; [exact HI'|]. rewrite Hs'. exact Hla.
Qed.

Lemma inv_init w n : Inv w (ainit n).
Proof.
  constructor; try apply basic_init; unfold final_ok, queue, pstore, pevents, ptok, pserved, ppending; intros;
    rewrite ?ainit_getp, ?ainit_link in *; simpl; auto.
  - inversion H.
  - inversion H.
  - simpl in H. inversion H.
Qed.

Lemma inv_quiescent_agree w s : Inv w s -> aquiescent s -> forall q, peers s q -> pstore s q = pstore s w.
Proof.
  intros HI Hq q Hpq. destruct (decide (q = w)) as [->|Hne]; [reflexivity|].
  destruct (quiescent_peer s w Hq) as (Hew & _ & _).
  destruct (inv_served _ _ HI) as [Hs|Hs]; [|contradiction].
  destruct (inv_store _ _ HI q Hpq Hne) as [H|[H|H]]; [contradiction| |].
  - rewrite (quiescent_link s w host Hq) in H. contradiction.
  - unfold final_ok, queue in H. destruct (quiescent_peer s q Hq) as (_ & _ & Hp).
    rewrite Hp, (quiescent_link s host q Hq) in H. simpl in H. congruence.
Qed.

(* ---------- C06, the general form --------------------------------------------------------------------
   The publisher may change, but only in quiescent states (the same peer may publish at ANY pace: bursts,
   overwrites while the previous content is still travelling); fresh clients may join at ANY moment (after
   the repair of S26 also while the host is still downloading the id: there is no join window any more).
   Then every quiescent state shows the last published content on every peer. *)
Theorem C06_handover_any_join n w0 tr s' :
  arun (ainit n) tr = Some s' -> fresh_joins tr -> handover_at_quiescence w0 (ainit n) tr = true ->
  aquiescent s' ->
  forall q, peers s' q -> pstore s' q = last (published tr).
Proof.
  intros Hrun Hfj Hho Hq q Hpq.
  destruct (inv_run tr w0 (ainit n) s' (ainit_wf n) (inv_init w0 n) Hfj Hho Hrun) as (w' & _ & HI & Hs).
  rewrite (inv_quiescent_agree w' s' HI Hq q Hpq), Hs.
  unfold pstore at 1. rewrite ainit_getp. apply lastd_None_last.
Qed.
Print Assumptions C06_handover_any_join.

(* the former statement (joins outside the join window only) is a corollary *)
Corollary C06_handover n w0 tr s' :
  arun (ainit n) tr = Some s' -> joins_ok (ainit n) tr -> handover_at_quiescence w0 (ainit n) tr = true ->
  aquiescent s' ->
  forall q, peers s' q -> pstore s' q = last (published tr).
Proof. intros Hrun [Hfj _]. apply C06_handover_any_join; assumption. Qed.
Print Assumptions C06_handover.

Lemma handover_only_publisher w tr : only_publisher w tr -> forall s, handover_at_quiescence w s tr = true.
Proof.
  unfold only_publisher. induction tr as [|e tr IH]; intros Hop s; [reflexivity|]. cbn [handover_at_quiescence].
  destruct (astep s e) as [s1|]; [|reflexivity].
  destruct e as [p v|p|p|src dst|p|c pre]; simpl in Hop; try (apply IH; exact Hop).
  apply Forall_cons in Hop as [-> Hop]. rewrite bool_decide_eq_true_2 by reflexivity. simpl. apply IH. exact Hop.
Qed.

Lemma handover_drain_separated tr : forall w s, ops_at_quiescence s tr = true -> handover_at_quiescence w s tr = true.
Proof.
  induction tr as [|e tr IH]; intros w s Hops; [reflexivity|]. cbn [handover_at_quiescence ops_at_quiescence] in *.
  destruct (astep s e) as [s1|]; [|reflexivity]. apply andb_true_iff in Hops as [H1 Hops].
  destruct e as [p v|p|p|src dst|p|c pre]; try (apply IH; exact Hops).
  simpl in H1. rewrite H1, orb_true_r. simpl. apply IH. exact Hops.
Qed.

(* A2.  C06 for ONE publisher (the host or a client) at ANY pace, fresh clients joining at ANY moment *)
Theorem C06_single_publisher_any_join n w tr s' :
  arun (ainit n) tr = Some s' -> only_publisher w tr -> fresh_joins tr -> aquiescent s' ->
  forall q, peers s' q -> pstore s' q = last (published tr).
Proof.
  intros Hrun Hop Hj. apply (C06_handover_any_join n w tr s' Hrun Hj). apply handover_only_publisher. exact Hop.
Qed.
Print Assumptions C06_single_publisher_any_join.

Corollary C06_single_publisher n w tr s' :
  arun (ainit n) tr = Some s' -> only_publisher w tr -> joins_ok (ainit n) tr -> aquiescent s' ->
  forall q, peers s' q -> pstore s' q = last (published tr).
Proof. intros Hrun Hop [Hfj _]. apply (C06_single_publisher_any_join n w); assumption. Qed.
Print Assumptions C06_single_publisher.

Lemma ops_no_window tr : forall s s',
  arun s tr = Some s' -> ops_at_quiescence s tr = true -> known_join_window s tr = false.
Proof.
  unfold known_join_window. induction tr as [|e tr IH]; intros s s' Hrun Hops; [reflexivity|].
  cbn [scan ops_at_quiescence arun] in *. destruct (astep s e) as [s1|] eqn:Hs; [|discriminate].
  apply andb_true_iff in Hops as [H1 Hops]. rewrite (IH s1 s' Hrun Hops), orb_false_r.
  destruct e as [p v|p|p|src dst|p|c pre]; try reflexivity. simpl in H1. apply bool_decide_eq_true in H1.
  simpl. destruct (quiescent_peer s host H1) as (_ & _ & ->). reflexivity.
Qed.

(* A3.  C06 for any number of publishers whose publications (and the joins) are drain separated *)
Theorem C06_drain_separated n tr s' :
  arun (ainit n) tr = Some s' -> fresh_joins tr -> ops_at_quiescence (ainit n) tr = true -> aquiescent s' ->
  forall q, peers s' q -> pstore s' q = last (published tr).
Proof.
  intros Hrun Hfj Hops. apply (C06_handover_any_join n host tr s' Hrun Hfj). apply handover_drain_separated. exact Hops.
Qed.
Print Assumptions C06_drain_separated.

(* every quiescent state ALONG a run: the premises are closed under prefixes *)
Lemma fresh_joins_app tr1 tr2 : fresh_joins (tr1 ++ tr2) -> fresh_joins tr1.
Proof. unfold fresh_joins, joins. rewrite omap_app. intros H. apply Forall_app in H as [H _]. exact H. Qed.

Lemma scan_app bad tr1 tr2 : forall s, scan bad s (tr1 ++ tr2) = false -> scan bad s tr1 = false.
Proof.
  induction tr1 as [|e tr1 IH]; intros s H; [reflexivity|]. cbn [app scan] in *.
  apply orb_false_iff in H as [H1 H2]. rewrite H1. simpl. destruct (astep s e) as [s1|]; [apply IH; exact H2|reflexivity].
Qed.

Lemma handover_app tr1 tr2 : forall w s, handover_at_quiescence w s (tr1 ++ tr2) = true -> handover_at_quiescence w s tr1 = true.
Proof.
  induction tr1 as [|e tr1 IH]; intros w s H; [reflexivity|]. cbn [app handover_at_quiescence] in *.
  destruct (astep s e) as [s1|]; [|reflexivity].
  destruct e as [p v|p|p|src dst|p|c pre]; try (apply (IH _ _ H)).
  apply andb_true_iff in H as [H1 H2]. rewrite H1. simpl. apply (IH _ _ H2).
Qed.

Theorem C06_handover_every_quiescent_state_any_join n w0 tr1 tr2 s1 :
  arun (ainit n) tr1 = Some s1 -> fresh_joins (tr1 ++ tr2) ->
  handover_at_quiescence w0 (ainit n) (tr1 ++ tr2) = true -> aquiescent s1 ->
  forall q, peers s1 q -> pstore s1 q = last (published tr1).
Proof.
  intros Hrun Hfj Hho. apply (C06_handover_any_join n w0 tr1 s1 Hrun).
  - eapply fresh_joins_app; exact Hfj.
  - eapply handover_app; exact Hho.
Qed.
Print Assumptions C06_handover_every_quiescent_state_any_join.

Corollary C06_handover_every_quiescent_state n w0 tr1 tr2 s1 :
  arun (ainit n) tr1 = Some s1 -> joins_ok (ainit n) (tr1 ++ tr2) ->
  handover_at_quiescence w0 (ainit n) (tr1 ++ tr2) = true -> aquiescent s1 ->
  forall q, peers s1 q -> pstore s1 q = last (published tr1).
Proof. intros Hrun [Hfj _]. apply C06_handover_every_quiescent_state_any_join; assumption. Qed.
Print Assumptions C06_handover_every_quiescent_state.

(* ================================================================================================
   Part 5: the old defect witnesses now converge; what remains false
   ================================================================================================ *)

Definition aobs (s : astate) (ps : list peer) := (aview s ps, pserved s <$> ps).

(* S7 + S12 (burst overwrite).  The host publishes 10 and 20 in quick succession; client 1 applies both
   downloads before its react system runs: two events, TWO tokens: both are swallowed, client 1 neither
   serves nor announces; the host publishes 30: everybody ends with 30. *)
Definition w_burst : list aevent :=
  [APublish 0 10; AReact 0; APublish 0 20; AReact 0;
   ADeliver 0 1; ADeliver 0 1; ADownload 1; ADownload 1; AReact 1;
   ADeliver 0 2; ADownload 2; AReact 2; ADeliver 0 2; ADownload 2; AReact 2;
   APublish 0 30; AReact 0; ADeliver 0 1; ADeliver 0 2; ADownload 2; AReact 2; ADownload 1; AReact 1].

Example burst_overwrite_converges :
  (fun s => aobs s [0; 1; 2]) <$> arun (ainit 2) w_burst
    = Some (([Some 30; Some 30; Some 30], true), [Some 30; None; None]) /\
  only_publisher 0 w_burst /\ joins_ok (ainit 2) w_burst /\ ops_at_quiescence (ainit 2) w_burst = false /\
  total_sent (ainit 2) w_burst = 6%nat /\ total_downloads (ainit 2) w_burst = 6%nat.
Proof.
  split; [vm_compute; reflexivity|]. split; [only_pub|].
  split; [split; [unfold fresh_joins; vm_compute; constructor|vm_compute; reflexivity]|]. repeat split; vm_compute; reflexivity.
Qed.

(* S12 alone (the publisher changes in a quiescent state).  Client 1 publishes 10 (and serves the id);
   everything drains; client 2 publishes 20; client 1 now FETCHES it although its own cache holds the id. *)
Definition w_other_publisher : list aevent :=
  [APublish 1 10; AReact 1; ADeliver 1 0; ADownload 0; ADeliver 0 2; AReact 0; ADownload 2; AReact 2;
   APublish 2 20; AReact 2; ADeliver 2 0; ADownload 0; AReact 0; ADeliver 0 1; ADownload 1; AReact 1].

Example republish_by_other_peer_converges :
  (fun s => aobs s [0; 1; 2]) <$> arun (ainit 2) w_other_publisher
    = Some (([Some 20; Some 20; Some 20], true), [None; Some 10; Some 20]) /\
  published w_other_publisher = [10; 20] /\ ops_at_quiescence (ainit 2) w_other_publisher = true.
Proof. repeat split; vm_compute; reflexivity. Qed.

(* S12 by the host's build_full_sync.  Client 1 is the only publisher.  Client 2 joins: the host serves its
   copy for the snapshot; the host nevertheless fetches client 1's overwrite, and the later joiner 3 is
   given the NEW content. *)
Definition w_host_stale : list aevent :=
  [APublish 1 10; AReact 1; ADeliver 1 0; ADownload 0; AReact 0;
   AJoin 2 None; ADeliver 0 2; ADownload 2; AReact 2;
   APublish 1 20; AReact 1; ADeliver 1 0; ADownload 0; AReact 0; ADeliver 0 2; ADownload 2; AReact 2;
   AJoin 3 None; ADeliver 0 3; ADownload 3; AReact 3].

Example host_stale_after_join_converges :
  (fun s => aobs s [0; 1; 2; 3]) <$> arun (ainit 1) w_host_stale
    = Some (([Some 20; Some 20; Some 20; Some 20], true), [Some 20; Some 20; None; None]) /\
  only_publisher 1 w_host_stale /\ joins_ok (ainit 1) w_host_stale.
Proof.
  split; [vm_compute; reflexivity|]. split; [only_pub|].
  split; [unfold fresh_joins; vm_compute; repeat constructor|vm_compute; reflexivity].
Qed.

(* S7 without a burst: a client joins between the host's insert and the host's react run: it is told twice
   (snapshot + broadcast), applies both downloads before reacting: two tokens; it follows the next overwrite *)
Definition w_join_react : list aevent :=
  [APublish 0 10; AJoin 1 None; AReact 0; ADeliver 0 1; ADeliver 0 1; ADownload 1; ADownload 1; AReact 1;
   APublish 0 20; AReact 0; ADeliver 0 1; ADownload 1; AReact 1].

Example join_before_react_converges :
  (fun s => aobs s [0; 1]) <$> arun (ainit 0) w_join_react = Some (([Some 20; Some 20], true), [Some 20; None]) /\
  only_publisher 0 w_join_react /\ joins_ok (ainit 0) w_join_react.
Proof.
  split; [vm_compute; reflexivity|]. split; [only_pub|].
  split; [unfold fresh_joins; vm_compute; repeat constructor|vm_compute; reflexivity].
Qed.

(* ---------- the former join window (defect S26), after its repair ----------------------------------------- *)

(* Client 1 publishes ONCE; the host has relayed the announcement and started its download when client 2
   joins.  Before the repair the snapshot was built from Assets<T>, which does not hold the id yet, and the
   completed download was swallowed by its token: client 2 never heard of the id.  Now the snapshot hands on
   the owner of the host's pending request (client 1): at the end of the OLD witness client 2 has a message
   waiting; once it is handled client 2 has fetched the content from client 1 directly (the host never
   serves) *)
Definition w_join_window : list aevent :=
  [APublish 1 10; AReact 1; ADeliver 1 0; AJoin 2 None; ADownload 0; AReact 0].
Definition w_join_window_drained : list aevent := w_join_window ++ [ADeliver 0 2; ADownload 2; AReact 2].

Example join_during_download_converges :
  (fun s => (aobs s [0; 1; 2], link s 0 2)) <$> arun (ainit 1) w_join_window
    = Some ((([Some 10; Some 10; None], false), [None; Some 10; None]), [1]) /\
  (fun s => aobs s [0; 1; 2]) <$> arun (ainit 1) w_join_window_drained
    = Some (([Some 10; Some 10; Some 10], true), [None; Some 10; None]) /\
  published w_join_window_drained = [10] /\ only_publisher 1 w_join_window_drained /\ fresh_joins w_join_window_drained /\
  known_join_window (ainit 1) w_join_window_drained = true /\
  total_sent (ainit 1) w_join_window_drained = 2%nat /\ total_downloads (ainit 1) w_join_window_drained = 2%nat.
Proof.
  split; [vm_compute; reflexivity|]. split; [vm_compute; reflexivity|]. split; [reflexivity|]. split; [only_pub|].
  split; [unfold fresh_joins; vm_compute; repeat constructor|]. repeat split; vm_compute; reflexivity.
Qed.

(* ... and with an overwrite in flight (the literal event order of the old "host stale" witness: client 3
   joins while the host is fetching 20): the joiner was left with the OLD content 10 for ever; it now fetches
   20 from client 1, even before the host has it *)
Definition w_join_window_stale : list aevent :=
  [APublish 1 10; AReact 1; ADeliver 1 0; ADownload 0; AReact 0;
   APublish 1 20; AReact 1; ADeliver 1 0; AJoin 3 None; ADeliver 0 3; ADownload 3; AReact 3; ADownload 0; AReact 0].

Example join_during_overwrite_converges :
  (fun s => aobs s [0; 1; 3]) <$> arun (ainit 1) w_join_window_stale
    = Some (([Some 20; Some 20; Some 20], true), [None; Some 20; None]) /\
  (fun s => pstore s <$> [0; 1; 3]) <$> arun (ainit 1) (take 12 w_join_window_stale) = Some [Some 10; Some 20; Some 20] /\
  published w_join_window_stale = [10; 20] /\ only_publisher 1 w_join_window_stale /\ fresh_joins w_join_window_stale /\
  known_join_window (ainit 1) w_join_window_stale = true /\
  total_sent (ainit 1) w_join_window_stale = 3%nat /\ total_downloads (ainit 1) w_join_window_stale = 3%nat.
Proof.
  split; [vm_compute; reflexivity|]. split; [vm_compute; reflexivity|]. split; [reflexivity|]. split; [only_pub|].
  split; [unfold fresh_joins; vm_compute; repeat constructor|]. repeat split; vm_compute; reflexivity.
Qed.

(* two joins inside the window of a burst: client 3 joins while the host's first download is pending and a
   second announcement is on its way up, client 4 while two downloads are pending and a third publication is
   still unannounced; everybody ends with 30 *)
Definition w_join_window_burst : list aevent :=
  [APublish 1 10; AReact 1; ADeliver 1 0; APublish 1 20; AReact 1; AJoin 3 None; ADeliver 1 0; AJoin 4 None;
   APublish 1 30; AReact 1; ADownload 0; AReact1 0; ADeliver 1 0; ADownload 0; ADownload 0; AReact 0;
   ADeliver 0 2; ADeliver 0 2; ADeliver 0 2; ADownload 2; ADownload 2; ADownload 2; AReact 2;
   ADeliver 0 3; ADeliver 0 3; ADeliver 0 3; ADownload 3; ADownload 3; ADownload 3; AReact 3;
   ADeliver 0 4; ADeliver 0 4; ADownload 4; ADownload 4; AReact 4].

Example join_during_burst_converges :
  (fun s => aobs s [0; 1; 2; 3; 4]) <$> arun (ainit 2) w_join_window_burst
    = Some (([Some 30; Some 30; Some 30; Some 30; Some 30], true), [None; Some 30; None; None; None]) /\
  only_publisher 1 w_join_window_burst /\ fresh_joins w_join_window_burst /\
  known_join_window (ainit 2) w_join_window_burst = true /\
  total_sent (ainit 2) w_join_window_burst = 11%nat /\ total_downloads (ainit 2) w_join_window_burst = 11%nat.
Proof.
  split; [vm_compute; reflexivity|]. split; [only_pub|].
  split; [unfold fresh_joins; vm_compute; repeat constructor|]. repeat split; vm_compute; reflexivity.
Qed.

(* the hand-over form: client 2 joins inside the former window, everything drains, then client 2 itself
   publishes *)
Definition w_join_window_handover : list aevent :=
  w_join_window_drained ++ [APublish 2 20; AReact 2; ADeliver 2 0; ADeliver 0 1; ADownload 0; ADownload 1; AReact 0; AReact 1].

Example join_during_download_then_handover_converges :
  (fun s => aobs s [0; 1; 2]) <$> arun (ainit 1) w_join_window_handover
    = Some (([Some 20; Some 20; Some 20], true), [None; Some 10; Some 20]) /\
  fresh_joins w_join_window_handover /\ handover_at_quiescence 1 (ainit 1) w_join_window_handover = true /\
  known_join_window (ainit 1) w_join_window_handover = true /\ publishers w_join_window_handover = [1; 2].
Proof.
  split; [vm_compute; reflexivity|]. split; [unfold fresh_joins; vm_compute; repeat constructor|].
  repeat split; vm_compute; reflexivity.
Qed.

(* the statement that was refuted by the join window (C06_any_join_refuted before the repair) now HOLDS *)
Definition C06_any_join_statement : Prop :=
  forall n w tr s',
    arun (ainit n) tr = Some s' -> only_publisher w tr -> fresh_joins tr -> aquiescent s' ->
    forall q, peers s' q -> pstore s' q = last (published tr).

Theorem C06_any_join_holds : C06_any_join_statement.
Proof. exact C06_single_publisher_any_join. Qed.
Print Assumptions C06_any_join_holds.

(* ---------- what remains false ----------------------------------------------------------------------- *)

(* (i) A joiner that already holds a DIFFERENT content under the uuid.  When the host holds the id, the
   joiner is told to fetch the host's copy (R2: its own cache entry no longer stops the download) and its own
   content is overwritten: the session wins. *)
Definition w_preloaded : list aevent :=
  [APublish 0 10; AReact 0; ADeliver 0 1; ADownload 1; AReact 1; AJoin 2 (Some 5); ADeliver 0 2; ADownload 2; AReact 2].

Example join_preloaded_overwritten :
  (fun s => aobs s [0; 1; 2]) <$> arun (ainit 1) w_preloaded
    = Some (([Some 10; Some 10; Some 10], true), [Some 10; None; Some 5]).
Proof. vm_compute. reflexivity. Qed.

(* ... but when the host does not hold the id, the joiner's content stays private: its local full sync
   serves it and announces nothing: a quiescent state in which the peers disagree, with no publication at all *)
Theorem join_preloaded_private_refuted :
  exists n tr c s',
    arun (ainit n) tr = Some s' /\ published tr = [] /\ aquiescent s' /\ ops_at_quiescence (ainit n) tr = true /\
    c ∈ aconn s' /\ pstore s' 0 = None /\ pstore s' c = Some 5.
Proof.
  exists 1%nat, [AJoin 2 (Some 5)], 2.
  destruct (arun_obs (fun s => (aquiescentb s, pstore s 0, pstore s 2, bool_decide (2 ∈ aconn s)))
              (ainit 1) [AJoin 2 (Some 5)] (true, None, Some 5, true)) as (s' & Hrun & Hobs); [vm_compute; reflexivity|].
  injection Hobs as Hq H0 H2 Hin. apply bool_decide_eq_true in Hq, Hin.
  exists s'. split; [exact Hrun|]. split; [reflexivity|]. split; [exact Hq|]. split; [vm_compute; reflexivity|]. auto.
Qed.

(* (ii) Two publishers that are NOT drain separated (outside the property): clients 1 and 2 publish
   concurrently; the host applies 10 then 20; each client fetches the other's content: quiescent, and the
   peers disagree for ever *)
Definition w_concurrent : list aevent :=
  [APublish 1 10; APublish 2 20; AReact 1; AReact 2; ADeliver 1 0; ADeliver 2 0; ADownload 0; ADownload 0;
   ADeliver 0 2; ADeliver 0 1; ADownload 1; ADownload 2; AReact 0; AReact 1; AReact 2].

Theorem concurrent_publishers_disagree :
  exists n tr s',
    arun (ainit n) tr = Some s' /\ no_joins tr /\ aquiescent s' /\ published tr = [10; 20] /\
    ops_at_quiescence (ainit n) tr = false /\ handover_at_quiescence 1 (ainit n) tr = false /\
    pstore s' 0 = Some 20 /\ pstore s' 1 = Some 20 /\ pstore s' 2 = Some 10.
Proof.
  exists 2%nat, w_concurrent.
  destruct (arun_obs (fun s => (aquiescentb s, pstore s 0, pstore s 1, pstore s 2))
              (ainit 2) w_concurrent (true, Some 20, Some 20, Some 10)) as (s' & Hrun & Hobs); [vm_compute; reflexivity|].
  injection Hobs as Hq H0 H1 H2. apply bool_decide_eq_true in Hq.
  exists s'. split; [exact Hrun|]. split; [reflexivity|]. split; [exact Hq|]. split; [reflexivity|].
  split; [vm_compute; reflexivity|]. split; [vm_compute; reflexivity|]. auto.
Qed.

(* ... or agree on an OLDER content: the host publishes 40 while its download of client 1's 30 is pending:
   the completed download overwrites the store, the token swallows the host's own event, the second event
   announces the CURRENT content 30: the publication 40 is lost everywhere *)
Definition w_lost_update : list aevent :=
  [APublish 1 30; AReact 1; ADeliver 1 0; APublish 0 40; ADownload 0; AReact 0; ADeliver 0 1; ADownload 1; AReact 1].

Theorem concurrent_publishers_lose_update :
  exists n tr s',
    arun (ainit n) tr = Some s' /\ no_joins tr /\ aquiescent s' /\ published tr = [30; 40] /\
    handover_at_quiescence 1 (ainit n) tr = false /\ pstore s' 0 = Some 30 /\ pstore s' 1 = Some 30.
Proof.
  exists 1%nat, w_lost_update.
  destruct (arun_obs (fun s => (aquiescentb s, pstore s 0, pstore s 1))
              (ainit 1) w_lost_update (true, Some 30, Some 30)) as (s' & Hrun & Hobs); [vm_compute; reflexivity|].
  injection Hobs as Hq H0 H1. apply bool_decide_eq_true in Hq.
  exists s'. split; [exact Hrun|]. split; [reflexivity|]. split; [exact Hq|]. split; [reflexivity|].
  split; [vm_compute; reflexivity|]. auto.
Qed.

(* ---------- non-vacuity of the C06 theorems ---------------------------------------------------------- *)

(* a client publishes at any pace (a burst, an overwrite in flight), a client joins in mid-flight *)
Example C06_single_publisher_nonvacuous :
  let tr := [APublish 1 10; AReact 1; APublish 1 20; ADeliver 1 0; APublish 1 30; AReact 1; ADownload 0; AReact1 0;
             AJoin 3 None; ADeliver 0 2; ADeliver 1 0; ADeliver 1 0; ADownload 0; ADownload 0; AReact 0;
             ADeliver 0 3; ADeliver 0 3; ADeliver 0 3; ADownload 3; ADownload 3; ADownload 3; AReact 3;
             ADeliver 0 2; ADownload 2; AReact 2; ADeliver 0 2; ADownload 2; ADownload 2; AReact 2] in
  only_publisher 1 tr /\ joins_ok (ainit 2) tr /\ ops_at_quiescence (ainit 2) tr = false /\
  (fun s => aview s [0; 1; 2; 3]) <$> arun (ainit 2) tr = Some ([Some 30; Some 30; Some 30; Some 30], true).
Proof.
  split; [only_pub|]. split; [split; [unfold fresh_joins; vm_compute; repeat constructor|vm_compute; reflexivity]|].
  split; vm_compute; reflexivity.
Qed.

(* the host publishes at any pace, a client joins before the host's react run *)
Example C06_single_publisher_host_nonvacuous :
  joins_ok (ainit 0) w_join_react /\ only_publisher 0 w_burst /\ joins_ok (ainit 2) w_burst.
Proof.
  split; [split; [unfold fresh_joins; vm_compute; repeat constructor|vm_compute; reflexivity]|].
  split; [only_pub|]. split; [unfold fresh_joins; vm_compute; constructor|vm_compute; reflexivity].
Qed.

(* three publishers in turn, overwrites, a join, everything drain separated *)
Example C06_drain_separated_nonvacuous :
  let tr := [APublish 1 10; AReact 1; ADeliver 1 0; ADownload 0; ADeliver 0 2; AReact 0; ADownload 2; AReact 2;
             APublish 2 20; AReact 2; ADeliver 2 0; ADownload 0; AReact 0; ADeliver 0 1; ADownload 1; AReact 1;
             AJoin 3 None; ADeliver 0 3; ADownload 3; AReact 3;
             APublish 0 30; AReact 0; ADeliver 0 3; ADeliver 0 1; ADeliver 0 2; ADownload 1; ADownload 2; ADownload 3;
             AReact 1; AReact 2; AReact 3;
             APublish 3 40; AReact 3; ADeliver 3 0; ADeliver 0 1; ADeliver 0 2; ADownload 0; ADownload 1; ADownload 2;
             AReact 0; AReact 1; AReact 2] in
  fresh_joins tr /\ ops_at_quiescence (ainit 2) tr = true /\
  (fun s => aview s [0; 1; 2; 3]) <$> arun (ainit 2) tr = Some ([Some 40; Some 40; Some 40; Some 40], true).
Proof. split; [unfold fresh_joins; vm_compute; repeat constructor|]. split; vm_compute; reflexivity. Qed.

(* the hand-over form: client 1 publishes a burst, drains, then the host publishes a burst *)
Example C06_handover_nonvacuous :
  let tr := [APublish 1 10; APublish 1 20; AReact 1; ADeliver 1 0; ADeliver 1 0; ADownload 0; ADownload 0; AReact 0;
             ADeliver 0 2; ADeliver 0 2; ADownload 2; ADownload 2; AReact 2;
             APublish 0 30; AReact 0; APublish 0 40; ADeliver 0 1; ADownload 1; AReact 0; ADeliver 0 1; ADeliver 0 2;
             ADeliver 0 2; ADownload 2; ADownload 2; ADownload 1; AReact 1; AReact 2] in
  joins_ok (ainit 2) tr /\ handover_at_quiescence 1 (ainit 2) tr = true /\ ops_at_quiescence (ainit 2) tr = false /\
  (fun s => aview s [0; 1; 2]) <$> arun (ainit 2) tr = Some ([Some 40; Some 40; Some 40], true).
Proof. split; [split; [unfold fresh_joins; vm_compute; repeat constructor|vm_compute; reflexivity]|]. repeat split; vm_compute; reflexivity. Qed.

(* ================================================================================================
   Part 6: stability, joins (A6)
   ================================================================================================ *)

(* from a quiescent state nothing but a publication or a join changes anything *)
Theorem quiescent_is_stable s :
  aquiescent s ->
  (forall p s', astep s (AReact p) = Some s' -> s' = s) /\
  (forall p s', astep s (AReact1 p) = Some s' -> s' = s) /\
  (forall a b, astep s (ADeliver a b) = None) /\
  (forall p, astep s (ADownload p) = None).
Proof.
  intros Hq. split; [|split; [|split]].
  - intros p s'. simpl. destruct (ap s !! p) as [x|] eqn:Hx; [|discriminate].
    destruct Hq as [_ Hq]. destruct (Hq p x Hx) as (-> & _ & _). simpl. congruence.
  - intros p s'. simpl. unfold areact1. destruct (ap s !! p) as [x|] eqn:Hx; [|discriminate].
    destruct Hq as [_ Hq]. destruct (Hq p x Hx) as (He & _ & _). unfold react1_peer. rewrite He.
    intros [= <-]. rewrite insert_id by exact Hx. destruct s; reflexivity.
  - intros a b. simpl. rewrite (quiescent_link s a b Hq). reflexivity.
  - intros p. simpl. destruct (ap s !! p) as [x|] eqn:Hx; [|reflexivity].
    destruct Hq as [_ Hq]. destruct (Hq p x Hx) as (_ & _ & ->). reflexivity.
Qed.
Print Assumptions quiescent_is_stable.

Lemma quiescent_plain_run s tr s' : aquiescent s -> Forall plain tr -> arun s tr = Some s' -> s' = s.
Proof.
  intros Hq Hpl. revert s' . induction Hpl as [|e tr He _ IH]; intros s' Hrun; simpl in Hrun; [congruence|].
  destruct (quiescent_is_stable s Hq) as (H1 & H2 & H3 & H4).
  destruct e as [p v|p|p|src dst|p|c pre]; try contradiction.
  - destruct (astep s (AReact p)) as [s1|] eqn:E; [|discriminate]. rewrite (H1 p s1 E) in Hrun. auto.
  - destruct (astep s (AReact1 p)) as [s1|] eqn:E; [|discriminate]. rewrite (H2 p s1 E) in Hrun. auto.
  - rewrite H3 in Hrun. discriminate.
  - rewrite H4 in Hrun. discriminate.
Qed.

Example quiescent_is_stable_nonvacuous :
  (aquiescentb <$> arun (ainit 2) w_burst) = Some true.
Proof. vm_compute. reflexivity. Qed.

Lemma step_conn_mono s e s' c : awf s -> astep s e = Some s' -> c ∈ aconn s -> c ∈ aconn s'.
Proof.
  intros Hwf Hstep Hin.
  assert (H : single e -> c ∈ aconn s').
  { intros He. destruct e as [p v|p|p|src dst|p|c' pre]; [|contradiction| | | |].
    - apply step_publish in Hstep as (_ & -> & _). exact Hin.
    - apply step_react1 in Hstep as (_ & -> & _); [exact Hin|apply wf_nodup; exact Hwf].
    - apply step_deliver in Hstep as (o & rest & _ & _ & -> & _); [exact Hin|apply wf_nodup; exact Hwf].
    - apply step_download in Hstep as (o & rest & _ & _ & -> & _). exact Hin.
    - apply step_join in Hstep as (_ & _ & _ & -> & _). apply elem_of_app. left. exact Hin. }
  destruct e as [p v|p|p|src dst|p|c' pre]; try (apply H; exact I).
  apply step_react_runs in Hstep.
  pose (P := fun s1 => awf s1 /\ c ∈ aconn s1). assert (HP : P s'); [|apply HP].
  eapply (react1s_ind P p); [|split; [exact Hwf|exact Hin]|exact Hstep].
  intros s1 s2 [Hw1 Hi1] H12. split; [eapply step_wf; eauto|].
  apply step_react1 in H12 as (_ & -> & _); [exact Hi1|apply wf_nodup; exact Hw1].
Qed.

Lemma run_conn_mono tr : forall s s' c, awf s -> arun s tr = Some s' -> c ∈ aconn s -> c ∈ aconn s'.
Proof.
  induction tr as [|e tr IH]; intros s s' c Hwf Hrun Hin; simpl in Hrun; [congruence|].
  destruct (astep s e) as [s1|] eqn:Hs; [|discriminate].
  eapply (IH s1); [eapply step_wf; eauto|exact Hrun|eapply step_conn_mono; eauto].
Qed.

(* join_gets_asset: a fresh client that joins at ANY moment, the former join window included (whoever the
   publishers were, as long as they handed over in quiescent states; whatever is still travelling or being
   downloaded) ends, at every later quiescent state, with the host's content, which is the last published one *)
Theorem join_gets_asset_any_join n w0 tr1 c tr2 s' :
  let tr := tr1 ++ AJoin c None :: tr2 in
  arun (ainit n) tr = Some s' -> fresh_joins tr -> handover_at_quiescence w0 (ainit n) tr = true ->
  aquiescent s' ->
  c ∈ aconn s' /\ pstore s' c = pstore s' host /\ pstore s' c = last (published tr).
Proof.
  intros tr Hrun Hj Hho Hq.
  pose proof (C06_handover_any_join n w0 tr s' Hrun Hj Hho Hq) as Hall.
  assert (Hin : c ∈ aconn s').
  { unfold tr in Hrun. rewrite arun_app in Hrun. destruct (arun (ainit n) tr1) as [s1|] eqn:Hrun1; [|discriminate].
    cbn [arun] in Hrun. destruct (astep s1 (AJoin c None)) as [s2|] eqn:Hstep; [|discriminate].
    pose proof (run_wf _ _ _ (ainit_wf n) Hrun1) as Hwf1.
    eapply (run_conn_mono tr2 s2); [eapply step_wf; eauto|exact Hrun|].
    apply step_join in Hstep as (_ & _ & _ & -> & _). apply elem_of_app. right. apply elem_of_list_singleton. reflexivity. }
  split; [exact Hin|]. rewrite (Hall c (or_intror Hin)), (Hall host (or_introl eq_refl)). auto.
Qed.
Print Assumptions join_gets_asset_any_join.

Corollary join_gets_asset n w0 tr1 c tr2 s' :
  let tr := tr1 ++ AJoin c None :: tr2 in
  arun (ainit n) tr = Some s' -> joins_ok (ainit n) tr -> handover_at_quiescence w0 (ainit n) tr = true ->
  aquiescent s' ->
  c ∈ aconn s' /\ pstore s' c = pstore s' host /\ pstore s' c = last (published tr).
Proof. intros tr Hrun [Hfj _]. apply (join_gets_asset_any_join n w0 tr1 c tr2 s'); assumption. Qed.
Print Assumptions join_gets_asset.

(* client 4 joins while the host is downloading 10 and 20 and a third publication is still unannounced *)
Example join_gets_asset_any_join_nonvacuous :
  exists tr1 tr2, w_join_window_burst = tr1 ++ AJoin 4 None :: tr2 /\
    (fun s => ppending s host) <$> arun (ainit 2) tr1 = Some [1; 1] /\
    fresh_joins w_join_window_burst /\ handover_at_quiescence 1 (ainit 2) w_join_window_burst = true /\
    known_join_window (ainit 2) w_join_window_burst = true /\
    (fun s => aview s [0; 1; 2; 3; 4]) <$> arun (ainit 2) w_join_window_burst
      = Some ([Some 30; Some 30; Some 30; Some 30; Some 30], true).
Proof.
  exists (take 7 w_join_window_burst), (drop 8 w_join_window_burst). split; [reflexivity|].
  split; [vm_compute; reflexivity|]. split; [unfold fresh_joins; vm_compute; repeat constructor|].
  repeat split; vm_compute; reflexivity.
Qed.

Example join_gets_asset_nonvacuous :
  (* client 3 joins while client 1's overwrite 20 is on its way to the host *)
  let tr1 := [APublish 1 10; AReact 1; ADeliver 1 0; ADownload 0; ADeliver 0 2; AReact 0; ADownload 2; AReact 2;
              APublish 1 20; AReact 1] in
  let tr2 := [ADeliver 0 3; ADeliver 1 0; ADownload 3; ADeliver 0 2; ADeliver 0 3; ADownload 0; ADownload 2; ADownload 3;
              AReact 0; AReact 2; AReact 3] in
  let tr := tr1 ++ AJoin 3 None :: tr2 in
  joins_ok (ainit 2) tr /\ handover_at_quiescence 1 (ainit 2) tr = true /\ ops_at_quiescence (ainit 2) tr = false /\
  (fun s => aview s [0; 1; 2; 3]) <$> arun (ainit 2) tr = Some ([Some 20; Some 20; Some 20; Some 20], true).
Proof.
  split; [split; [unfold fresh_joins; vm_compute; repeat constructor|vm_compute; reflexivity]|]. repeat split; vm_compute; reflexivity.
Qed.

(* A fresh client joining in ANY quiescent state in which all peers agree ends, at quiescence, with the same
   content -- whatever happened before (in particular whoever the publishers were and however they interleaved) *)
Lemma inv_join_quiescent s c v s2 :
  awf s -> Basic s -> aquiescent s -> (forall q, peers s q -> pstore s q = v) ->
  astep s (AJoin c None) = Some s2 -> Inv host s2 /\ pstore s2 host = v.
Proof.
  intros Hwf HB Hqs Hag Hstep. pose proof (basic_step1 s (AJoin c None) s2 I Hwf HB I Hstep) as HB'.
  apply step_join in Hstep as (Hch & Hcn & Hnone & Hc & _ & Hpc & Hph & Hq & Hl).
  assert (Hwin : ppending s host = []) by (apply (quiescent_peer s host Hqs)).
  rewrite (join_host_idle s Hwin) in Hph. pose proof (snapshot_idle s Hwin) as Hsn.
  pose proof (getp_none _ _ Hnone) as Hc0.
  assert (Hvh : pstore s host = v) by (apply Hag; left; reflexivity).
  assert (Hidle : forall q, q <> c -> pevents s2 q = 0%nat /\ ptok s2 q = 0%nat /\ ppending s2 q = [] /\ pstore s2 q = pstore s q).
  { intros q Hne. destruct (quiescent_peer s q Hqs) as (H1 & H2 & H3). unfold pevents, ptok, ppending, pstore in *.
    destruct (decide (q = host)) as [->|Hnh]; [rewrite Hph; simpl; auto|rewrite Hq by assumption; auto]. }
  assert (Hlk : forall a b, link s2 a b = if decide ((a, b) = (host, c)) then snapshot s else []).
  { intros a b. rewrite Hl, !(quiescent_link s _ _ Hqs). reflexivity. }
  assert (Hsvh : pserved s2 host = pstore s host).
  { unfold pserved, pstore. rewrite Hph. unfold serve_store. simpl. destruct (store (getp s host)) eqn:E; [reflexivity|].
    destruct (HB host) as (_ & _ & H3). unfold pserved, pstore in H3. destruct (served (getp s host)); [exfalso; apply H3; [discriminate|exact E]|reflexivity]. }
  split; [|destruct (Hidle host (not_eq_sym Hch)) as (_ & _ & _ & ->); exact Hvh].
  constructor; intros.
  - exact HB'.
  - apply (Hidle host (not_eq_sym Hch)).
  - apply (Hidle host (not_eq_sym Hch)).
  - rewrite Hlk. cdec as [Heq|_]; [inversion Heq; congruence|reflexivity].
  - rewrite Hlk. cdec as [Heq|_]; [inversion Heq; congruence|reflexivity].
  - rewrite Hlk in H. destruct (decide ((host, host) = (host, c))) as [Heq|_]; [inversion Heq; congruence|inversion H].
  - destruct (decide (q = c)) as [->|Hne]; [unfold ptok, pevents; rewrite Hpc; reflexivity|].
    destruct (Hidle q Hne) as (-> & -> & _). reflexivity.
  - rewrite Hlk in H. cdec as [_|_]; [|inversion H]. rewrite Hsn in H.
    destruct (pstore s host) eqn:E; [|inversion H]. apply elem_of_list_singleton in H. subst o. rewrite Hsvh. discriminate.
  - destruct (decide (q = c)) as [->|Hne]; [unfold ppending in H; rewrite Hpc in H; inversion H|].
    destruct (Hidle q Hne) as (_ & _ & Hp & _). rewrite Hp in H. inversion H.
  - left. rewrite Hsvh. symmetry. apply (Hidle host (not_eq_sym Hch)).
  - right. right. unfold final_ok, queue. rewrite Hlk, Hsvh. destruct (decide (q = c)) as [->|Hne].
    + unfold ppending, pstore. rewrite Hpc. cbn [pending store app].
      destruct (decide ((host, c) = (host, c))) as [_|?]; [|congruence].
      rewrite Hsn. destruct (pstore s host) eqn:E; simpl; rewrite ?Hsvh; exact (eq_sym E).
    + destruct (Hidle q Hne) as (_ & _ & -> & ->). destruct (decide ((host, q) = (host, c))) as [Heq|_]; [inversion Heq; congruence|].
      simpl. rewrite Hvh. apply Hag. destruct H as [H|H]; [left; exact H|]. rewrite Hc in H.
      apply elem_of_app in H as [H|H]; [right; exact H|]. apply elem_of_list_singleton in H. contradiction.
Qed.

Lemma plain_trace rest :
  Forall plain rest -> published rest = [] /\ publishers rest = [] /\ joins rest = [] /\
  (forall s, ops_at_quiescence s rest = true) /\ (forall s, known_join_window s rest = false) /\
  (forall w s, handover_at_quiescence w s rest = true).
Proof.
  unfold known_join_window.
  induction 1 as [|e rest He _ (IH1 & IH2 & IH3 & IH4 & IH5 & IH6)]; [repeat split|].
  destruct e; simpl in He; try contradiction; (split; [exact IH1|]; split; [exact IH2|]; split; [exact IH3|]);
    (split; [|split]); intros; cbn [ops_at_quiescence scan handover_at_quiescence bad_join_window orb];
    (destruct (astep s _); [|reflexivity]); rewrite ?IH4, ?IH5, ?IH6; reflexivity.
Qed.

Theorem join_from_agreement n tr0 s c v s2 tr2 s' :
  arun (ainit n) tr0 = Some s -> aquiescent s -> (forall q, peers s q -> pstore s q = v) ->
  astep s (AJoin c None) = Some s2 -> Forall plain tr2 -> arun s2 tr2 = Some s' -> aquiescent s' ->
  c ∈ aconn s' /\ forall q, peers s' q -> pstore s' q = v.
Proof.
  intros Hrun0 Hqs Hag Hstep Hpl Hrun Hq'.
  pose proof (run_wf _ _ _ (ainit_wf n) Hrun0) as Hwf. pose proof (basic_invariant n tr0 s Hrun0) as HB.
  destruct (inv_join_quiescent s c v s2 Hwf HB Hqs Hag Hstep) as [HI2 Hv].
  pose proof (step_wf _ _ _ Hwf Hstep) as Hwf2.
  destruct (plain_trace tr2 Hpl) as (Hp1 & _ & Hp3 & _ & Hp5 & Hp6).
  destruct (inv_run tr2 host s2 s' Hwf2 HI2) as (w' & _ & HI' & Hs'); [unfold fresh_joins; rewrite Hp3; constructor|apply Hp6|exact Hrun|].
  rewrite Hp1 in Hs'. simpl in Hs'. split.
  - eapply (run_conn_mono tr2 s2); [exact Hwf2|exact Hrun|].
    apply step_join in Hstep as (_ & _ & _ & -> & _). apply elem_of_app. right. apply elem_of_list_singleton. reflexivity.
  - intros q Hpq. rewrite (inv_quiescent_agree w' s' HI' Hq' q Hpq), Hs'. exact Hv.
Qed.
Print Assumptions join_from_agreement.

(* ... even after a history of concurrent publishers that happened to end in agreement (on an older content) *)
Example join_from_agreement_nonvacuous :
  exists s s2 s',
    arun (ainit 1) w_lost_update = Some s /\ aquiescent s /\ (forall q, peers s q -> pstore s q = Some 30) /\
    astep s (AJoin 2 None) = Some s2 /\ arun s2 [ADeliver 0 2; ADownload 2; AReact 2] = Some s' /\ aquiescent s' /\
    pstore s' 2 = Some 30.
Proof.
  destruct (arun_obs (fun s => (aquiescentb s, pstore s 0, pstore s 1, aconn s)) (ainit 1) w_lost_update (true, Some 30, Some 30, [1]))
    as (s & Hrun & Hobs); [vm_compute; reflexivity|].
  injection Hobs as Hq H0 H1 Hc. apply bool_decide_eq_true in Hq.
  destruct (arun_obs (fun s => (aquiescentb s, pstore s 2)) (ainit 1) (w_lost_update ++ [AJoin 2 None; ADeliver 0 2; ADownload 2; AReact 2]) (true, Some 30))
    as (s' & Hrun' & Hobs'); [vm_compute; reflexivity|].
  injection Hobs' as Hq' H2. apply bool_decide_eq_true in Hq'.
  rewrite arun_app, Hrun in Hrun'. cbn [arun] in Hrun'. destruct (astep s (AJoin 2 None)) as [s2|] eqn:Hs2; [|discriminate].
  exists s, s2, s'. split; [exact Hrun|]. split; [exact Hq|]. split; [|auto].
  intros q [->|Hin]; [exact H0|]. rewrite Hc in Hin. apply elem_of_list_singleton in Hin. subst q. exact H1.
Qed.

(* ================================================================================================
   Part 7: traffic and termination (C09).  Five counters of a state; every event changes them in a
   fixed way; the traffic bound, the download bound and the termination measure are linear in them.
   ================================================================================================ *)

Fixpoint sumf (f : peer -> nat) (l : list peer) : nat :=
  match l with [] => 0%nat | x :: l => (f x + sumf f l)%nat end.

Lemma sumf_ext f g l : (forall x, x ∈ l -> f x = g x) -> sumf f l = sumf g l.
Proof.
  induction l as [|y l IH]; intros H; [reflexivity|]. simpl. rewrite (H y) by left. rewrite IH; [reflexivity|].
  intros x Hx. apply H. right. exact Hx.
Qed.
Lemma sumf_app f l1 l2 : sumf f (l1 ++ l2) = (sumf f l1 + sumf f l2)%nat.
Proof. induction l1 as [|y l1 IH]; simpl; [reflexivity|]. rewrite IH. lia. Qed.
Lemma sumf_update f g l p :
  NoDup l -> p ∈ l -> (forall x, x ∈ l -> x <> p -> g x = f x) -> (sumf g l + f p = sumf f l + g p)%nat.
Proof.
  induction l as [|y l IH]; intros Hnd Hin Hg; [inversion Hin|]. apply NoDup_cons in Hnd as [Hy Hnd]. simpl.
  destruct (decide (y = p)) as [->|Hne].
  - rewrite (sumf_ext g f l); [lia|]. intros x Hx. apply Hg; [right; exact Hx|]. intros ->. contradiction.
  - apply elem_of_cons in Hin as [Hin|Hin]; [congruence|].
    rewrite (Hg y) by (try left; assumption). specialize (IH Hnd Hin). 
    assert (H : (sumf g l + f p = sumf f l + g p)%nat); [|lia]. apply IH. intros x Hx. apply Hg. right. exact Hx.
Qed.
Lemma sumf_add_const f g l k : (forall x, x ∈ l -> g x = (f x + k)%nat) -> sumf g l = (sumf f l + k * length l)%nat.
Proof.
  induction l as [|y l IH]; intros H; [simpl; lia|]. simpl. rewrite (H y) by left. rewrite IH; [lia|].
  intros x Hx. apply H. right. exact Hx.
Qed.
Lemma sumf_add_filter f g (P : peer -> Prop) `{forall x, Decision (P x)} l :
  (forall x, x ∈ l -> g x = (f x + if decide (P x) then 1 else 0)%nat) ->
  sumf g l = (sumf f l + length (filter P l))%nat.
Proof.
  induction l as [|y l IH]; intros Hg; [reflexivity|]. simpl. rewrite (Hg y) by left.
  rewrite IH by (intros x Hx; apply Hg; right; exact Hx). rewrite filter_cons.
  destruct (decide (P y)); simpl; lia.
Qed.

Definition allp (s : astate) : list peer := host :: aconn s.
Definition psum (F : apeer -> nat) (s : astate) : nat := sumf (fun p => F (getp s p)) (allp s).
Definition lsum_down (s : astate) : nat := sumf (fun c => length (link s host c)) (aconn s).
Definition lsum_up (s : astate) : nat := sumf (fun c => length (link s c host)) (aconn s).

Definition credit (x : apeer) : nat := (events x - tok x)%nat.   (* local changes not yet announced *)
Definition npend (x : apeer) : nat := length (pending x).

Lemma allp_nodup s : awf s -> NoDup (allp s).
Proof. intros Hwf. apply NoDup_cons. split; [apply wf_host; exact Hwf|apply wf_nodup; exact Hwf]. Qed.
Lemma allp_peers s p : p ∈ allp s <-> peers s p.
Proof. unfold allp, peers. rewrite elem_of_cons. reflexivity. Qed.

Lemma psum_update F s s' p :
  awf s -> aconn s' = aconn s -> is_Some (ap s !! p) -> (forall q, q <> p -> getp s' q = getp s q) ->
  (psum F s' + F (getp s p) = psum F s + F (getp s' p))%nat.
Proof.
  intros Hwf Hc Hex Hq. unfold psum, allp. rewrite Hc.
  apply (sumf_update (fun p => F (getp s p)) (fun p => F (getp s' p))); [apply (allp_nodup s Hwf)| |].
  - apply allp_peers. apply (wf_exists s p Hwf). exact Hex.
  - intros x _ Hne. rewrite Hq by assumption. reflexivity.
Qed.

Lemma lsum_same s s' :
  aconn s' = aconn s -> (forall a b, link s' a b = link s a b) -> lsum_down s' = lsum_down s /\ lsum_up s' = lsum_up s.
Proof. intros Hc Hl. unfold lsum_down, lsum_up. rewrite Hc. split; apply sumf_ext; intros; rewrite Hl; reflexivity. Qed.

(* the five counters: unannounced local changes, tokens, pending downloads, messages down, messages up *)
Definition SC := psum credit.
Definition ST := psum tok.
Definition SP := psum npend.

(* APublish *)
Lemma delta_publish s p v s' :
  awf s -> Basic s -> astep s (APublish p v) = Some s' ->
  aconn s' = aconn s /\ SC s' = S (SC s) /\ ST s' = ST s /\ SP s' = SP s /\ lsum_down s' = lsum_down s /\ lsum_up s' = lsum_up s.
Proof.
  intros Hwf HB Hstep. apply step_publish in Hstep as (Hex & Hc & Hl & _ & Hp & Hq).
  assert (Hlk : forall a b, link s' a b = link s a b) by (intros; unfold link; rewrite Hl; reflexivity).
  destruct (lsum_same s s' Hc Hlk) as [H1 H2]. split; [exact Hc|].
  pose proof (psum_update credit s s' p Hwf Hc Hex Hq) as HC.
  pose proof (psum_update tok s s' p Hwf Hc Hex Hq) as HT.
  pose proof (psum_update npend s s' p Hwf Hc Hex Hq) as HP.
  rewrite Hp in HC, HT, HP. unfold credit, npend in HC, HT, HP. cbn [events tok pending length] in HC, HT, HP.
  destruct (HB p) as (Hle & _). unfold SC, ST, SP, credit, npend, ptok, pevents, ppending in *. repeat split; try assumption; lia.
Qed.

(* AReact1 *)
Lemma delta_react1 s p s' :
  awf s -> Basic s -> astep s (AReact1 p) = Some s' ->
  aconn s' = aconn s /\ SP s' = SP s /\
  ((pevents s p = 0%nat /\ originates s p = false /\ SC s' = SC s /\ ST s' = ST s /\ lsum_down s' = lsum_down s /\ lsum_up s' = lsum_up s) \/
   (pevents s p <> 0%nat /\ originates s p = false /\ SC s' = SC s /\ S (ST s') = ST s /\ lsum_down s' = lsum_down s /\ lsum_up s' = lsum_up s) \/
   (pevents s p <> 0%nat /\ originates s p = true /\ S (SC s') = SC s /\ ST s' = ST s /\
    ((p = host /\ lsum_down s' = (lsum_down s + length (aconn s))%nat /\ lsum_up s' = lsum_up s) \/
     (p <> host /\ p ∈ aconn s /\ lsum_down s' = lsum_down s /\ lsum_up s' = S (lsum_up s))))).
Proof.
  intros Hwf HB Hstep. pose proof (wf_nodup s Hwf) as Hnd.
  apply step_react1 in Hstep as (Hex & Hc & _ & Hp & Hq & Hl); [|exact Hnd]. split; [exact Hc|].
  pose proof (psum_update credit s s' p Hwf Hc Hex Hq) as HC.
  pose proof (psum_update tok s s' p Hwf Hc Hex Hq) as HT.
  pose proof (psum_update npend s s' p Hwf Hc Hex Hq) as HP.
  rewrite Hp in HC, HT, HP. unfold originates, pevents.
  destruct (react1_cases (getp s p)) as [[E0 E]|[(k & E0 & E1 & E)|[(k & c & t & E0 & E1 & E2 & E)|(k & c & E0 & E1 & E2 & E)]]];
    rewrite E in *; cbn [fst snd] in *; unfold credit, npend in HC, HT, HP; cbn [events tok pending length] in HC, HT, HP.
  - assert (Hlk : forall a b, link s' a b = link s a b).
    { intros a b. rewrite Hl. cdec as [[Hf _]|_]; [discriminate|reflexivity]. }
    destruct (lsum_same s s' Hc Hlk) as [H1 H2]. unfold SC, ST, SP, credit, npend. split; [lia|]. left. repeat split; try assumption; lia.
  - exfalso. destruct (HB p) as (_ & H2 & _). apply H2; [unfold pevents; rewrite E0; discriminate|exact E1].
  - assert (Hlk : forall a b, link s' a b = link s a b).
    { intros a b. rewrite Hl. cdec as [[Hf _]|_]; [discriminate|reflexivity]. }
    destruct (lsum_same s s' Hc Hlk) as [H1 H2]. unfold SC, ST, SP, credit, npend. split; [lia|]. right. left.
    rewrite E0, E2 in *. repeat split; try assumption; try lia.
  - unfold SC, ST, SP, credit, npend. split; [lia|]. right. right. rewrite E0, E2 in *.
    split; [lia|]. split; [reflexivity|]. split; [lia|]. split; [lia|].
    assert (Hlk : forall a b, link s' a b = if decide (a = p /\ b ∈ dsts_of s p) then link s a b ++ [p] else link s a b).
    { intros a b. rewrite Hl. destruct (decide (a = p /\ b ∈ dsts_of s p)) as [Hy|Hn].
      - destruct (decide (true = true /\ _)) as [_|Hn]; [reflexivity|tauto].
      - destruct (decide (true = true /\ _)) as [[_ Hy]|_]; [tauto|reflexivity]. }
    unfold lsum_down, lsum_up. rewrite Hc. destruct (decide (p = host)) as [->|Hph].
    + left. split; [reflexivity|]. split.
      * rewrite (sumf_add_const (fun c => length (link s host c)) _ (aconn s) 1); [lia|].
        intros x Hx. rewrite Hlk. unfold dsts_of. change (host =? host)%N with true. cbv iota.
        destruct (decide (host = host /\ x ∈ aconn s)) as [_|Hn]; [rewrite app_length; reflexivity|tauto].
      * apply sumf_ext. intros x Hx. rewrite Hlk. cdec as [[-> _]|_]; [exfalso; apply (wf_host s Hwf Hx)|reflexivity].
    + right. split; [exact Hph|].
      assert (Hin : p ∈ aconn s). { apply (wf_exists s p Hwf) in Hex as [?|?]; [contradiction|assumption]. }
      split; [exact Hin|]. split.
      * apply sumf_ext. intros x Hx. rewrite Hlk. cdec as [[Heq _]|_]; [congruence|reflexivity].
      * pose proof (sumf_update (fun c => length (link s c host)) (fun c => length (link s' c host)) (aconn s) p Hnd Hin) as HU.
        cbv beta in HU. rewrite Hlk in HU. unfold dsts_of in HU. destruct (p =? host)%N eqn:E'; [apply N.eqb_eq in E'; contradiction|].
        destruct (decide (p = p /\ host ∈ [host])) as [_|Hn]; [|exfalso; apply Hn; split; [reflexivity|apply elem_of_list_singleton; reflexivity]].
        rewrite app_length in HU. simpl in HU.
        assert (H : (sumf (fun c => length (link s' c host)) (aconn s) + length (link s p host)
                     = sumf (fun c => length (link s c host)) (aconn s) + (length (link s p host) + 1))%nat); [|lia].
        apply HU. intros x Hx Hne. rewrite Hlk. cdec as [[Heq _]|_]; [contradiction|reflexivity].
Qed.

(* ADeliver *)
Lemma delta_deliver s src dst s' :
  awf s -> astep s (ADeliver src dst) = Some s' ->
  aconn s' = aconn s /\ SC s' = SC s /\ ST s' = ST s /\ SP s' = S (SP s) /\
  ((dst = host /\ src ∈ aconn s /\ S (lsum_up s') = lsum_up s /\
    lsum_down s' = (lsum_down s + length (others src (aconn s)))%nat /\ sent1 s (ADeliver src dst) = length (others src (aconn s))) \/
   (dst <> host /\ lsum_up s' = lsum_up s /\ S (lsum_down s') = lsum_down s /\ sent1 s (ADeliver src dst) = 0%nat)).
Proof.
  intros Hwf Hstep. pose proof (wf_nodup s Hwf) as Hnd.
  apply step_deliver in Hstep as (o & rest & Hl0 & Hex & Hc & _ & Hp & Hq & Hl); [|exact Hnd]. split; [exact Hc|].
  pose proof (psum_update credit s s' dst Hwf Hc Hex Hq) as HC.
  pose proof (psum_update tok s s' dst Hwf Hc Hex Hq) as HT.
  pose proof (psum_update npend s s' dst Hwf Hc Hex Hq) as HP.
  rewrite Hp in HC, HT, HP. unfold request_peer, credit, npend in HC, HT, HP. cbn [events tok pending] in HC, HT, HP.
  rewrite app_length in HP. cbn [length] in HP.
  unfold SC, ST, SP, credit, npend. split; [lia|]. split; [lia|]. split; [lia|].
  assert (Hne0 : link s src dst <> []) by (rewrite Hl0; discriminate).
  unfold lsum_down, lsum_up. rewrite Hc. cbn [sent1]. rewrite Hl0.
  destruct (wf_link s src dst Hwf Hne0) as [[-> Hin]|[-> Hin]].
  - (* host -> client *)
    assert (Hdh : dst <> host) by (intros ->; apply (wf_host s Hwf Hin)).
    right. split; [exact Hdh|]. destruct (dst =? host)%N eqn:E; [apply N.eqb_eq in E; contradiction|].
    split; [|split; [|reflexivity]].
    + apply sumf_ext. intros x Hx. rewrite Hl.
      destruct (decide ((x, host) = (host, dst))) as [Heq|_]; [inversion Heq; congruence|].
      destruct (decide (dst = host /\ _)) as [[? _]|_]; [contradiction|]. rewrite app_nil_r. reflexivity.
    + pose proof (sumf_update (fun c => length (link s host c)) (fun c => length (link s' host c)) (aconn s) dst Hnd Hin) as HU.
      cbv beta in HU. rewrite (Hl host dst), Hl0 in HU.
      destruct (decide ((host, dst) = (host, dst))) as [_|?]; [|congruence].
      destruct (decide (dst = host /\ _)) as [[? _]|_]; [contradiction|]. rewrite app_nil_r in HU. cbn [length] in HU.
      assert (H : (sumf (fun c => length (link s' host c)) (aconn s) + S (length rest)
                   = sumf (fun c => length (link s host c)) (aconn s) + length rest)%nat); [|lia].
      apply HU. intros x Hx Hne. rewrite Hl.
      destruct (decide ((host, x) = (host, dst))) as [Heq|_]; [inversion Heq; congruence|].
      destruct (decide (dst = host /\ _)) as [[? _]|_]; [contradiction|]. rewrite app_nil_r. reflexivity.
  - (* client -> host *)
    assert (Hsh : src <> host) by (intros ->; apply (wf_host s Hwf Hin)).
    left. split; [reflexivity|]. split; [exact Hin|]. change (host =? host)%N with true. cbv iota.
    split; [|split; [|reflexivity]].
    + pose proof (sumf_update (fun c => length (link s c host)) (fun c => length (link s' c host)) (aconn s) src Hnd Hin) as HU.
      cbv beta in HU. rewrite (Hl src host), Hl0 in HU.
      destruct (decide ((src, host) = (src, host))) as [_|?]; [|congruence].
      destruct (decide (host = host /\ src = host /\ _)) as [(_ & ? & _)|_]; [contradiction|]. rewrite app_nil_r in HU. cbn [length] in HU.
      assert (H : (sumf (fun c => length (link s' c host)) (aconn s) + S (length rest)
                   = sumf (fun c => length (link s c host)) (aconn s) + length rest)%nat); [|lia].
      apply HU. intros x Hx Hne. rewrite Hl.
      destruct (decide ((x, host) = (src, host))) as [Heq|_]; [inversion Heq; congruence|].
      destruct (decide (host = host /\ x = host /\ _)) as [(_ & -> & _)|_]; [exfalso; apply (wf_host s Hwf Hx)|]. rewrite app_nil_r. reflexivity.
    + unfold others. apply (sumf_add_filter (fun c => length (link s host c)) _ (fun c => c <> src)).
      intros x Hx. rewrite Hl. destruct (decide ((host, x) = (src, host))) as [Heq|_]; [inversion Heq; congruence|].
      rewrite app_length. f_equal. destruct (decide (x <> src)) as [Hy|Hn].
      * destruct (decide (host = host /\ host = host /\ x ∈ others src (aconn s))) as [_|Hn]; [reflexivity|].
        exfalso. apply Hn. split; [reflexivity|]. split; [reflexivity|]. apply elem_of_others. auto.
      * destruct (decide (host = host /\ host = host /\ x ∈ others src (aconn s))) as [(_ & _ & Hy)|_]; [|reflexivity].
        apply elem_of_others in Hy as [Hy _]. contradiction.
Qed.

(* ADownload *)
Lemma delta_download s p s' :
  awf s -> astep s (ADownload p) = Some s' ->
  aconn s' = aconn s /\ SC s' = SC s /\ (ST s' = ST s \/ ST s' = S (ST s)) /\ S (SP s') = SP s /\
  lsum_down s' = lsum_down s /\ lsum_up s' = lsum_up s.
Proof.
  intros Hwf Hstep. apply step_download in Hstep as (o & rest & Hp0 & Hex & Hc & Hl & _ & Hp & Hq).
  assert (Hlk : forall a b, link s' a b = link s a b) by (intros; unfold link; rewrite Hl; reflexivity).
  destruct (lsum_same s s' Hc Hlk) as [H1 H2]. split; [exact Hc|].
  pose proof (psum_update credit s s' p Hwf Hc Hex Hq) as HC.
  pose proof (psum_update tok s s' p Hwf Hc Hex Hq) as HT.
  pose proof (psum_update npend s s' p Hwf Hc Hex Hq) as HP.
  rewrite Hp in HC, HT, HP. unfold ppending in Hp0. unfold download_peer, credit, npend in HC, HT, HP. rewrite Hp0 in HC, HT, HP.
  unfold SC, ST, SP, credit, npend.
  destruct (pserved s o); cbn [events tok pending length tail] in HC, HT, HP; repeat split; try assumption; try lia.
Qed.

(* AJoin *)
Lemma psum_join F s c pre s' :
  awf s -> (forall x, F (serve_store x) = F x) -> astep s (AJoin c pre) = Some s' ->
  psum F s' = (psum F s + F (APeer pre 0 0 pre []))%nat.
Proof.
  intros Hwf HF Hstep. apply step_join in Hstep as (Hch & Hcn & Hnone & Hc & _ & Hpc & Hph & Hq & Hl).
  assert (HF' : F (join_host s) = F (getp s host)).
  { unfold join_host. destruct (last (ppending s host)) as [o|]; [reflexivity|apply HF]. }
  unfold psum, allp. rewrite Hc. cbn [sumf]. rewrite sumf_app. cbn [sumf]. rewrite Hpc, Hph, HF'.
  rewrite (sumf_ext (fun p => F (getp s' p)) (fun p => F (getp s p)) (aconn s)); [lia|].
  intros x Hx. rewrite Hq; [reflexivity|congruence|]. intros ->. apply (wf_host s Hwf Hx).
Qed.

Lemma delta_join s c pre s' :
  awf s -> astep s (AJoin c pre) = Some s' ->
  aconn s' = aconn s ++ [c] /\ SC s' = SC s /\ ST s' = ST s /\ SP s' = SP s /\
  lsum_down s' = (lsum_down s + sent1 s (AJoin c pre))%nat /\ lsum_up s' = lsum_up s /\ (sent1 s (AJoin c pre) <= 1)%nat.
Proof.
  intros Hwf Hstep.
  pose proof (psum_join credit s c pre s' Hwf (fun _ => eq_refl) Hstep) as HC.
  pose proof (psum_join tok s c pre s' Hwf (fun _ => eq_refl) Hstep) as HT.
  pose proof (psum_join npend s c pre s' Hwf (fun _ => eq_refl) Hstep) as HP.
  apply step_join in Hstep as (Hch & Hcn & Hnone & Hc & _ & Hpc & Hph & Hq & Hl).
  assert (Hlc : link s host c = []) by (apply wf_link_nil; [exact Hwf|apply wf_host; exact Hwf|exact Hcn]).
  assert (Hlc' : link s c host = []) by (apply wf_link_nil; [exact Hwf|exact Hcn|apply wf_host; exact Hwf]).
  split; [exact Hc|]. unfold SC, ST, SP. unfold credit at 3 in HC. unfold npend at 3 in HP. simpl in HC, HT, HP.
  split; [lia|]. split; [lia|]. split; [lia|].
  unfold lsum_down, lsum_up. rewrite Hc, !sumf_app. cbn [sumf sent1]. rewrite !Hl.
  destruct (decide ((host, c) = (host, c))) as [_|?]; [|congruence].
  destruct (decide ((c, host) = (host, c))) as [Heq|_]; [inversion Heq; congruence|].
  rewrite Hlc, Hlc'. cbn [app length].
  rewrite (sumf_ext (fun x => length (link s' host x)) (fun x => length (link s host x)) (aconn s)).
  2:{ intros x Hx. rewrite Hl. cdec as [Heq|_]; [inversion Heq; congruence|reflexivity]. }
  rewrite (sumf_ext (fun x => length (link s' x host)) (fun x => length (link s x host)) (aconn s)).
  2:{ intros x Hx. rewrite Hl. cdec as [Heq|_]; [inversion Heq; subst; exfalso; apply (wf_host s Hwf Hx)|reflexivity]. }
  unfold snapshot. destruct (last (ppending s host)) as [o|]; [|destruct (pstore s host)]; simpl; repeat split; lia.
Qed.

(* what a join costs: exactly one message (to the joiner) when the host holds a copy OR is downloading the id,
   nothing otherwise; and the message names the host itself exactly when the host is not downloading *)
Theorem join_cost s c pre s' :
  awf s -> astep s (AJoin c pre) = Some s' ->
  sent1 s (AJoin c pre) = (if decide (pstore s host <> None \/ ppending s host <> []) then 1 else 0)%nat /\
  length (link s' host c) = sent1 s (AJoin c pre) /\
  (forall o, o ∈ link s' host c -> if decide (ppending s host = []) then o = host else last (ppending s host) = Some o).
Proof.
  intros Hwf Hstep. apply step_join in Hstep as (_ & Hcn & _ & _ & _ & _ & _ & _ & Hl).
  assert (Hlc : link s host c = []) by (apply wf_link_nil; [exact Hwf|apply wf_host; exact Hwf|exact Hcn]).
  rewrite Hl. destruct (decide ((host, c) = (host, c))) as [_|?]; [|congruence]. rewrite Hlc. cbn [app sent1].
  unfold snapshot. destruct (last (ppending s host)) as [o|] eqn:Hlast.
  - assert (Hne : ppending s host <> []) by (intros E; rewrite E in Hlast; discriminate).
    split; [destruct (decide _) as [_|Hn]; [reflexivity|exfalso; apply Hn; right; exact Hne]|]. split; [reflexivity|].
    intros o' Ho. apply elem_of_list_singleton in Ho. subst o'. destruct (decide _) as [E|_]; [contradiction|reflexivity].
  - apply last_None in Hlast. destruct (pstore s host) as [v|] eqn:Hst.
    + split; [destruct (decide _) as [_|Hn]; [reflexivity|exfalso; apply Hn; left; discriminate]|]. split; [reflexivity|].
      intros o' Ho. apply elem_of_list_singleton in Ho. subst o'. destruct (decide _) as [_|Hn]; [reflexivity|contradiction].
    + split; [destruct (decide _) as [[Hy|Hy]|_]; [congruence|contradiction|reflexivity]|]. split; [reflexivity|].
      intros o' Ho. inversion Ho.
Qed.

(* the three potentials *)
Definition Phi (M : nat) (s : astate) : nat := (SC s * M + lsum_up s * (M - 1))%nat.          (* messages still to come *)
Definition Psi (s : astate) : nat := (SP s + lsum_down s + lsum_up s)%nat.                    (* downloads still to come *)
Definition mu (s : astate) : nat :=                                                            (* steps still to come *)
  let N := length (aconn s) in
  (SC s * (3 * N + 2) + ST s + 2 * SP s + 3 * lsum_down s + (3 * N + 1) * lsum_up s)%nat.

Definition cost (M : nat) (e : aevent) : nat :=
  match e with APublish _ _ => M | AJoin _ _ => 1%nat | _ => 0%nat end.
Definition dl1 (e : aevent) : nat := match e with ADownload _ => 1%nat | _ => 0%nat end.

(* an event that changes the state *)
Definition eff1 (s : astate) (e : aevent) : nat :=
  match e with
  | AReact p | AReact1 p => match pevents s p with O => 0%nat | S _ => 1%nat end
  | ADeliver _ _ | ADownload _ => 1%nat
  | _ => 0%nat
  end.
Fixpoint effective (s : astate) (tr : list aevent) : nat :=
  match tr with
  | [] => 0%nat
  | e :: tr => match astep s e with Some s' => (eff1 s e + effective s' tr)%nat | None => 0%nat end
  end.

Lemma others_length_lt w l : w ∈ l -> (length (others w l) < length l)%nat.
Proof. intros Hin. unfold others. eapply filter_length_lt; [exact Hin|]. intros H. apply H. reflexivity. Qed.

Lemma counts_step1 M s e s' :
  single e -> awf s -> Basic s -> astep s e = Some s' -> (length (aconn s') <= M)%nat ->
  (sent1 s e + Phi M s' <= Phi M s + cost M e)%nat /\
  (dl1 e + Psi s' <= Psi s + sent1 s e)%nat /\
  (plain e -> aconn s' = aconn s /\ (eff1 s e + mu s' <= mu s)%nat).
Proof.
  intros He Hwf HB Hstep HM. destruct e as [p v|p|p|src dst|p|c pre]; [|contradiction| | | |].
  - destruct (delta_publish s p v s' Hwf HB Hstep) as (Hc & HC & HT & HP & HD & HU).
    unfold Phi, Psi. rewrite HC, HP, HD, HU. cbn [sent1 cost dl1 plain]. split; [lia|]. split; [lia|]. intros [].
  - destruct (delta_react1 s p s' Hwf HB Hstep) as (Hc & HP & Hcases). rewrite Hc in HM.
    unfold Phi, Psi, mu. rewrite Hc, HP. cbn [sent1 cost dl1 eff1]. fold (originates s p).
    destruct Hcases as [(He0 & Ho & HC & HT & HD & HU)|[(He0 & Ho & HC & HT & HD & HU)|(He0 & Ho & HC & HT & Hph)]]; rewrite Ho.
    + rewrite HC, HT, HD, HU, He0. split; [lia|]. split; [lia|]. intros _. split; [reflexivity|lia].
    + rewrite HC, HD, HU. destruct (pevents s p); [congruence|]. split; [lia|]. split; [lia|]. intros _. split; [reflexivity|lia].
    + destruct (pevents s p); [congruence|]. unfold dsts_of.
      destruct Hph as [(-> & HD & HU)|(Hph & Hin & HD & HU)]; rewrite HD, HU, HT.
      * change (host =? host)%N with true. cbv iota. split; [nia|]. split; [lia|]. intros _. split; [reflexivity|nia].
      * destruct (p =? host)%N eqn:E; [apply N.eqb_eq in E; contradiction|]. cbn [length].
        assert (length (aconn s) >= 1)%nat by (destruct (aconn s); [inversion Hin|simpl; lia]).
        split; [nia|]. split; [lia|]. intros _. split; [reflexivity|nia].
  - destruct (delta_deliver s src dst s' Hwf Hstep) as (Hc & HC & HT & HP & Hcases). rewrite Hc in HM.
    unfold Phi, Psi, mu. rewrite Hc, HC, HT, HP. cbn [cost dl1 eff1].
    destruct Hcases as [(-> & Hin & HU & HD & Hs)|(Hdh & HU & HD & Hs)]; rewrite Hs.
    + pose proof (others_length_lt src (aconn s) Hin). rewrite HD. split; [nia|]. split; [lia|]. intros _. split; [reflexivity|nia].
    + rewrite HU. split; [lia|]. split; [lia|]. intros _. split; [reflexivity|nia].
  - destruct (delta_download s p s' Hwf Hstep) as (Hc & HC & HT & HP & HD & HU).
    unfold Phi, Psi, mu. rewrite Hc, HC, HD, HU. cbn [sent1 cost dl1 eff1]. split; [lia|]. split; [lia|]. intros _. split; [reflexivity|lia].
  - destruct (delta_join s c pre s' Hwf Hstep) as (Hc & HC & HT & HP & HD & HU & Hs).
    unfold Phi, Psi. rewrite HC, HP, HD, HU. cbn [cost dl1 plain]. split; [lia|]. split; [lia|]. intros [].
Qed.

Lemma counts_react M p k : forall s s',
  awf s -> Basic s -> (length (aconn s) <= M)%nat -> areact_n k s p = Some s' ->
  awf s' /\ Basic s' /\ aconn s' = aconn s /\
  (sent_react k s p + Phi M s' <= Phi M s)%nat /\ (Psi s' <= Psi s + sent_react k s p)%nat /\
  (mu s' <= mu s)%nat /\ (k <> 0%nat -> pevents s p <> 0%nat -> mu s' < mu s)%nat.
Proof.
  induction k as [|k IH]; intros s s' Hwf HB HM Hrun; cbn [areact_n sent_react] in *.
  - inversion Hrun; subst. split; [exact Hwf|]. split; [exact HB|]. split; [reflexivity|]. split; [lia|]. split; [lia|]. split; [lia|]. intros H0. congruence.
  - destruct (areact1 s p) as [s1|] eqn:H1; [|discriminate].
    assert (Hs1 : astep s (AReact1 p) = Some s1) by exact H1.
    pose proof (step_wf _ _ _ Hwf Hs1) as Hwf1. pose proof (basic_step1 s (AReact1 p) s1 I Hwf HB I Hs1) as HB1.
    assert (Hc1 : aconn s1 = aconn s) by (apply step_react1 in Hs1 as (_ & Hc & _); [exact Hc|apply wf_nodup; exact Hwf]).
    destruct (counts_step1 M s (AReact1 p) s1 I Hwf HB Hs1) as (Ha & Hb & Hcd); [rewrite Hc1; exact HM|].
    destruct (Hcd I) as [_ Hd]. cbn [cost dl1 eff1] in *.
    destruct (IH s1 s' Hwf1 HB1) as (Hwf' & HB' & Hc' & Ha' & Hb' & Hd' & _); [rewrite Hc1; exact HM|exact Hrun|].
    split; [exact Hwf'|]. split; [exact HB'|]. split; [congruence|]. split; [lia|]. split; [lia|]. split; [lia|].
    intros _ He. destruct (pevents s p); [congruence|]. lia.
Qed.

Lemma total_downloads_cons s e tr :
  total_downloads s (e :: tr) = match astep s e with Some s' => (dl1 e + total_downloads s' tr)%nat | None => 0%nat end.
Proof. reflexivity. Qed.

Lemma counts_run M tr : forall s s',
  awf s -> Basic s -> (length (aconn s) + length (joins tr) <= M)%nat -> arun s tr = Some s' ->
  (total_sent s tr + Phi M s' <= Phi M s + length (published tr) * M + length (joins tr))%nat /\
  (total_downloads s tr + Psi s' <= Psi s + total_sent s tr)%nat.
Proof.
  induction tr as [|e tr IH]; intros s s' Hwf HB HM Hrun.
  - simpl in Hrun. inversion Hrun; subst. simpl. lia.
  - cbn [arun] in Hrun. rewrite total_downloads_cons. cbn [total_sent]. destruct (astep s e) as [s1|] eqn:Hstep; [|discriminate].
    pose proof (step_wf _ _ _ Hwf Hstep) as Hwf1.
    assert (HB1 : Basic s1) by (eapply (step_lift Basic (fun _ => True)); [exact basic_step1|auto|exact Hwf|exact HB|exact I|exact Hstep]).
    rewrite joins_cons in HM. rewrite published_cons, joins_cons.
    assert (H1 : (length (aconn s1) + length (joins tr) <= M)%nat /\
                 (sent_by s e + Phi M s1 <= Phi M s + cost M e)%nat /\ (dl1 e + Psi s1 <= Psi s + sent_by s e)%nat).
    { assert (Hc : match e with AJoin _ _ => True | _ => aconn s1 = aconn s end).
      { destruct e as [p v|p|p|src dst|p|c pre]; [| | | | |exact I].
        - apply step_publish in Hstep as (_ & Hc & _). exact Hc.
        - simpl in Hstep. destruct (ap s !! p) as [x|]; [|discriminate].
          apply (counts_react M p (events x) s s1 Hwf HB); [lia|exact Hstep].
        - apply step_react1 in Hstep as (_ & Hc & _); [exact Hc|apply wf_nodup; exact Hwf].
        - apply step_deliver in Hstep as (o & rest & _ & _ & Hc & _); [exact Hc|apply wf_nodup; exact Hwf].
        - apply step_download in Hstep as (o & rest & _ & _ & Hc & _). exact Hc. }
      destruct e as [p v|p|p|src dst|p|c pre]; cbn beta iota in HM.
      - destruct (counts_step1 M s (APublish p v) s1 I Hwf HB Hstep) as (Ha & Hb & _); [rewrite Hc; lia|].
        split; [rewrite Hc; lia|]. split; [exact Ha|exact Hb].
      - rewrite Hc. split; [lia|]. cbn [sent_by]. pose proof Hstep as Hstep'. simpl in Hstep'. unfold pevents.
        destruct (ap s !! p) as [x|] eqn:Hx; [|discriminate]. rewrite (getp_exists _ _ _ Hx).
        destruct (counts_react M p (events x) s s1 Hwf HB) as (_ & _ & _ & Ha & Hb & _); [lia|exact Hstep'|].
        cbn [cost dl1]. lia.
      - destruct (counts_step1 M s (AReact1 p) s1 I Hwf HB Hstep) as (Ha & Hb & _); [rewrite Hc; lia|].
        split; [rewrite Hc; lia|]. split; [exact Ha|exact Hb].
      - destruct (counts_step1 M s (ADeliver src dst) s1 I Hwf HB Hstep) as (Ha & Hb & _); [rewrite Hc; lia|].
        split; [rewrite Hc; lia|]. split; [exact Ha|exact Hb].
      - destruct (counts_step1 M s (ADownload p) s1 I Hwf HB Hstep) as (Ha & Hb & _); [rewrite Hc; lia|].
        split; [rewrite Hc; lia|]. split; [exact Ha|exact Hb].
      - assert (Hcj : aconn s1 = aconn s ++ [c]) by (apply step_join in Hstep as (_ & _ & _ & Hcj & _); exact Hcj).
        assert (Hlen : length (aconn s1) = S (length (aconn s))) by (rewrite Hcj, app_length; simpl; lia).
        cbn [length] in HM. destruct (counts_step1 M s (AJoin c pre) s1 I Hwf HB Hstep) as (Ha & Hb & _); [lia|].
        split; [lia|]. split; [exact Ha|exact Hb]. }
    destruct H1 as (HM1 & Ha & Hb).
    destruct (IH s1 s' Hwf1 HB1 HM1 Hrun) as [Ha' Hb'].
    destruct e as [p v|p|p|src dst|p|c pre]; cbn [cost dl1 length] in *; lia.
Qed.

Lemma sumf_zero f l : (forall x, x ∈ l -> f x = 0%nat) -> sumf f l = 0%nat.
Proof. induction l as [|y l IH]; intros H; [reflexivity|]. simpl. rewrite (H y) by left. rewrite IH; [reflexivity|]. intros x Hx. apply H. right. exact Hx. Qed.

Lemma counters_quiescent s : aquiescent s -> SC s = 0%nat /\ ST s = 0%nat /\ SP s = 0%nat /\ lsum_down s = 0%nat /\ lsum_up s = 0%nat.
Proof.
  intros Hq. unfold SC, ST, SP, psum, lsum_down, lsum_up.
  repeat split; apply sumf_zero; intros x _; try (rewrite (quiescent_link s _ _ Hq); reflexivity);
    destruct (quiescent_peer s x Hq) as (H1 & H2 & H3); unfold pevents, ptok, ppending, credit, npend in *; rewrite ?H1, ?H2, ?H3; reflexivity.
Qed.

(* ---------- C09: the global traffic bound, for EVERY run (any publishers, any pace, any joins) ----------
   k publications and j joins cause at most k * (clients ever connected) + j messages (relays and
   snapshots included), and at most as many downloads as messages.  An echo would break the bound. *)
Theorem traffic_bound n tr s' :
  arun (ainit n) tr = Some s' ->
  (total_sent (ainit n) tr <= length (published tr) * (n + length (joins tr)) + length (joins tr))%nat /\
  (total_downloads (ainit n) tr <= total_sent (ainit n) tr)%nat.
Proof.
  intros Hrun.
  destruct (counts_run (n + length (joins tr)) tr (ainit n) s' (ainit_wf n) (basic_init n)) as [Ha Hb];
    [simpl; rewrite length_clients; lia|exact Hrun|].
  destruct (counters_quiescent _ (ainit_quiescent n)) as (H1 & H2 & H3 & H4 & H5).
  unfold Phi, Psi in *. rewrite H1, H3, H4, H5 in *. split; lia.
Qed.
Print Assumptions traffic_bound.

(* one publication in a quiescent state costs at most n messages (n = connected clients: 1 + (n-1) relays for
   a client, n for the host) and at most n downloads, whatever the interleaving *)
Theorem publication_cost n tr0 s p c rest s' :
  arun (ainit n) tr0 = Some s -> aquiescent s -> Forall plain rest -> arun s (APublish p c :: rest) = Some s' ->
  (total_sent s (APublish p c :: rest) <= length (aconn s))%nat /\
  (total_downloads s (APublish p c :: rest) <= length (aconn s))%nat.
Proof.
  intros Hrun0 Hq Hpl Hrun. destruct (plain_trace rest Hpl) as (Hp1 & _ & Hp3 & _).
  destruct (counts_run (length (aconn s)) (APublish p c :: rest) s s' (run_wf _ _ _ (ainit_wf n) Hrun0) (basic_invariant n tr0 s Hrun0)) as [Ha Hb];
    [rewrite joins_cons, Hp3; simpl; lia|exact Hrun|].
  destruct (counters_quiescent s Hq) as (H1 & H2 & H3 & H4 & H5).
  rewrite published_cons, joins_cons, Hp1, Hp3 in Ha. unfold Phi, Psi in *. rewrite H1, H3, H4, H5 in *. cbn [length] in Ha. split; lia.
Qed.
Print Assumptions publication_cost.

Example traffic_tight :
  total_sent (ainit 3) [APublish 1 10; AReact 1; ADeliver 1 0; ADownload 0; AReact 0; ADeliver 0 2; ADeliver 0 3;
                        ADownload 2; ADownload 3; AReact 2; AReact 3] = 3%nat /\
  total_sent (ainit 3) [APublish 0 10; AReact 0; ADeliver 0 1; ADeliver 0 2; ADeliver 0 3;
                        ADownload 1; ADownload 2; ADownload 3; AReact 1; AReact 2; AReact 3] = 3%nat /\
  total_downloads (ainit 3) [APublish 0 10; AReact 0; ADeliver 0 1; ADeliver 0 2; ADeliver 0 3;
                        ADownload 1; ADownload 2; ADownload 3; AReact 1; AReact 2; AReact 3] = 3%nat /\
  (* the global bound on the burst witness: 3 publications, 2 clients, no join: 6 messages *)
  total_sent (ainit 2) w_burst = 6%nat /\ length (published w_burst) = 3%nat /\
  (* ... and on a history with joins *)
  total_sent (ainit 1) w_host_stale = 5%nat /\ length (published w_host_stale) = 2%nat /\ length (joins w_host_stale) = 2%nat.
Proof. vm_compute. auto 10. Qed.

(* ---------- termination ------------------------------------------------------------------------------- *)

(* every sequence of plain events from a (reachable) state has at most [mu s] steps that change the state:
   the exchange started by the publications and joins so far terminates, under every scheduling *)
Theorem plain_steps_bounded tr : forall s s',
  awf s -> Basic s -> Forall plain tr -> arun s tr = Some s' -> (effective s tr + mu s' <= mu s)%nat.
Proof.
  induction tr as [|e tr IH]; intros s s' Hwf HB Hpl Hrun.
  - simpl in Hrun. inversion Hrun; subst. simpl. lia.
  - cbn [arun effective] in *. destruct (astep s e) as [s1|] eqn:Hstep; [|discriminate].
    apply Forall_cons in Hpl as [He Hpl]. pose proof (step_wf _ _ _ Hwf Hstep) as Hwf1.
    assert (HB1 : Basic s1) by (eapply (step_lift Basic (fun _ => True)); [exact basic_step1|auto|exact Hwf|exact HB|exact I|exact Hstep]).
    specialize (IH s1 s' Hwf1 HB1 Hpl Hrun).
    assert (H1 : (eff1 s e + mu s1 <= mu s)%nat); [|lia].
    destruct e as [p v|p|p|src dst|p|c pre]; try contradiction.
    + pose proof Hstep as Hstep'. simpl in Hstep'. cbn [eff1]. unfold pevents.
      destruct (ap s !! p) as [x|] eqn:Hx; [|discriminate]. rewrite (getp_exists _ _ _ Hx).
      destruct (counts_react (length (aconn s)) p (events x) s s1 Hwf HB) as (_ & _ & _ & _ & _ & Hle & Hlt); [lia|exact Hstep'|].
      destruct (events x) as [|k] eqn:Ek; [lia|].
      assert (mu s1 < mu s)%nat; [|lia]. apply Hlt; [discriminate|]. unfold pevents. rewrite (getp_exists _ _ _ Hx), Ek. discriminate.
    + assert (Hc : aconn s1 = aconn s) by (apply step_react1 in Hstep as (_ & Hc & _); [exact Hc|apply wf_nodup; exact Hwf]).
      destruct (counts_step1 (length (aconn s)) s (AReact1 p) s1 I Hwf HB Hstep) as (_ & _ & Hd); [rewrite Hc; lia|]. apply (Hd I).
    + assert (Hc : aconn s1 = aconn s) by (apply step_deliver in Hstep as (o & rest & _ & _ & Hc & _); [exact Hc|apply wf_nodup; exact Hwf]).
      destruct (counts_step1 (length (aconn s)) s (ADeliver src dst) s1 I Hwf HB Hstep) as (_ & _ & Hd); [rewrite Hc; lia|]. apply (Hd I).
    + assert (Hc : aconn s1 = aconn s) by (apply step_download in Hstep as (o & rest & _ & _ & Hc & _); exact Hc).
      destruct (counts_step1 (length (aconn s)) s (ADownload p) s1 I Hwf HB Hstep) as (_ & _ & Hd); [rewrite Hc; lia|]. apply (Hd I).
Qed.
Print Assumptions plain_steps_bounded.

Lemma not_quiescent_progress s :
  awf s -> Basic s -> ~ aquiescent s -> exists e s1, plain e /\ astep s e = Some s1 /\ eff1 s e = 1%nat.
Proof.
  intros Hwf HB Hnq. unfold aquiescent in Hnq.
  destruct (decide (map_Forall (fun _ l => l = []) (alinks s))) as [HA|HA].
  - assert (HnB : ~ map_Forall (fun _ x => apeer_idle x) (ap s)) by tauto.
    apply map_not_Forall in HnB; [|apply _]. destruct HnB as (p & x & Hx & Hni).
    destruct (events x) as [|k] eqn:Ek.
    + assert (Ht : tok x = 0%nat).
      { destruct (HB p) as (Hle & _). unfold ptok, pevents in Hle. rewrite (getp_exists _ _ _ Hx), Ek in Hle. lia. }
      destruct (pending x) as [|o rest] eqn:Ep; [exfalso; apply Hni; repeat split; assumption|].
      exists (ADownload p). destruct (astep s (ADownload p)) as [s1|] eqn:E.
      * exists s1. split; [exact I|]. split; reflexivity.
      * exfalso. simpl in E. rewrite Hx, Ep in E. destruct (pserved s o); discriminate.
    + exists (AReact1 p). destruct (astep s (AReact1 p)) as [s1|] eqn:E.
      * exists s1. split; [exact I|]. split; [reflexivity|]. cbn [eff1]. unfold pevents. rewrite (getp_exists _ _ _ Hx), Ek. reflexivity.
      * exfalso. simpl in E. unfold areact1 in E. rewrite Hx in E. destruct (react1_peer x). discriminate.
  - apply map_not_Forall in HA; [|apply _]. destruct HA as ([a b] & l & Hl & Hne).
    assert (Hlk : link s a b = l) by (unfold link, lget; rewrite Hl; reflexivity).
    destruct l as [|o rest]; [congruence|].
    assert (Hex : is_Some (ap s !! b)).
    { apply (wf_exists s b Hwf). destruct (wf_link s a b Hwf) as [[_ H]|[H _]]; [rewrite Hlk; discriminate|right; exact H|left; exact H]. }
    destruct Hex as [x Hx]. exists (ADeliver a b). destruct (astep s (ADeliver a b)) as [s1|] eqn:E.
    + exists s1. split; [exact I|]. split; reflexivity.
    + exfalso. simpl in E. rewrite Hlk, Hx in E. discriminate.
Qed.

(* ... and a quiescent state is reachable (by plain events alone) *)
Theorem quiescence_reachable s :
  awf s -> Basic s -> exists tr s', Forall plain tr /\ arun s tr = Some s' /\ aquiescent s'.
Proof.
  remember (mu s) as m eqn:Hm. revert s Hm. induction m as [m IH] using lt_wf_ind. intros s Hm Hwf HB.
  destruct (decide (aquiescent s)) as [Hq|Hnq]; [exists [], s; split; [apply Forall_nil_2|split; [reflexivity|exact Hq]]|].
  destruct (not_quiescent_progress s Hwf HB Hnq) as (e & s1 & He & Hstep & Heff).
  pose proof (plain_steps_bounded [e] s s1 Hwf HB (Forall_cons_2 _ _ _ He (Forall_nil_2 _))) as Hb.
  cbn [arun effective] in Hb. rewrite Hstep in Hb. specialize (Hb eq_refl). rewrite Heff in Hb.
  pose proof (step_wf _ _ _ Hwf Hstep) as Hwf1.
  assert (HB1 : Basic s1) by (eapply (step_lift Basic (fun _ => True)); [exact basic_step1|auto|exact Hwf|exact HB|exact I|exact Hstep]).
  destruct (IH (mu s1)) with (s := s1) as (tr & s' & Hpl & Hrun & Hq'); [lia|reflexivity|exact Hwf1|exact HB1|].
  exists (e :: tr), s'. split; [constructor; assumption|]. split; [|exact Hq']. cbn [arun]. rewrite Hstep. exact Hrun.
Qed.
Print Assumptions quiescence_reachable.

Corollary exchange_terminates n tr0 s :
  arun (ainit n) tr0 = Some s ->
  (forall tr s', Forall plain tr -> arun s tr = Some s' -> (effective s tr <= mu s)%nat) /\
  (exists tr s', Forall plain tr /\ arun s tr = Some s' /\ aquiescent s').
Proof.
  intros Hrun. pose proof (run_wf _ _ _ (ainit_wf n) Hrun) as Hwf. pose proof (basic_invariant n tr0 s Hrun) as HB. split.
  - intros tr s' Hpl Hr. pose proof (plain_steps_bounded tr s s' Hwf HB Hpl Hr). lia.
  - apply quiescence_reachable; assumption.
Qed.
Print Assumptions exchange_terminates.

Example exchange_terminates_nonvacuous :
  (* after a burst of three publications by client 1 and a join, nothing delivered yet *)
  let tr0 := [APublish 1 10; AReact 1; APublish 1 20; APublish 1 30; AReact 1; AJoin 3 None] in
  let tr := [ADeliver 1 0; ADeliver 1 0; ADeliver 1 0; ADownload 0; ADownload 0; ADownload 0; AReact 0;
             ADeliver 0 2; ADeliver 0 2; ADeliver 0 2; ADeliver 0 3; ADeliver 0 3; ADeliver 0 3;
             ADownload 2; ADownload 2; ADownload 2; ADownload 3; ADownload 3; ADownload 3; AReact 2; AReact 3; AReact1 3] in
  (fun s => (mu s, effective s tr, aquiescentb <$> arun s tr)) <$> arun (ainit 2) tr0 = Some (30%nat, 21%nat, Some true).
Proof. vm_compute. reflexivity. Qed.

(* ---------- no echo, in terms of the caches: only the publisher and (after a join) the host ever serve --- *)
Definition serve_ok (w : peer) (e : aevent) : Prop :=
  match e with APublish q _ => q = w | AJoin _ pre => pre = None | _ => True end.

Definition NoServe (w : peer) (s : astate) : Prop :=
  Covered w s /\ forall q, q <> w -> q <> host -> pserved s q = None.

Lemma serve_ok_pub_ok w e : serve_ok w e -> pub_ok w e.
Proof. destruct e; simpl; auto. Qed.

Lemma noserve_step1 w s e s' :
  single e -> awf s -> NoServe w s -> serve_ok w e -> astep s e = Some s' -> NoServe w s'.
Proof.
  intros He Hwf [HC HN] Hok Hstep. split; [eapply covered_step1; eauto; apply serve_ok_pub_ok; exact Hok|].
  pose proof (wf_nodup s Hwf) as Hnd. intros q Hqw Hqh. specialize (HN q Hqw Hqh).
  destruct e as [p v|p|p|src dst|p|c pre]; [|contradiction| | | |].
  - apply step_publish in Hstep as (_ & _ & _ & _ & Hp & Hq). simpl in Hok. subst p.
    unfold pserved. rewrite Hq by assumption. exact HN.
  - apply step_react1 in Hstep as (_ & _ & _ & Hp & Hq & _); [|exact Hnd].
    destruct (decide (q = p)) as [->|Hne]; unfold pserved; [|rewrite Hq by assumption; exact HN].
    rewrite Hp. pose proof (originates_covered s p (proj2 HC p Hqw)) as Ho. unfold originates in Ho.
    destruct (react1_cases (getp s p)) as [[E0 E]|[(k & E0 & E1 & E)|[(k & c & t & E0 & E1 & E2 & E)|(k & c & E0 & E1 & E2 & E)]]];
      rewrite E in *; cbn [fst snd] in *; try exact HN. discriminate.
  - apply step_deliver in Hstep as (o & rest & _ & _ & _ & _ & Hp & Hq & _); [|exact Hnd].
    destruct (decide (q = dst)) as [->|Hne]; unfold pserved; [rewrite Hp; exact HN|rewrite Hq by assumption; exact HN].
  - apply step_download in Hstep as (o & rest & _ & _ & _ & _ & _ & Hp & Hq).
    destruct (decide (q = p)) as [->|Hne]; unfold pserved; [|rewrite Hq by assumption; exact HN].
    rewrite Hp. unfold download_peer. destruct (pserved s o); exact HN.
  - simpl in Hok. subst pre. apply step_join in Hstep as (_ & _ & _ & _ & _ & Hpc & _ & Hq & _).
    destruct (decide (q = c)) as [->|Hne]; unfold pserved; [rewrite Hpc; reflexivity|rewrite Hq by assumption; exact HN].
Qed.

Lemma serve_ok_of w tr : only_publisher w tr -> fresh_joins tr -> Forall (serve_ok w) tr.
Proof.
  unfold only_publisher. induction tr as [|e tr IH]; intros Hp Hj; [constructor|].
  apply fresh_joins_cons in Hj as [Hj1 Hj].
  destruct e as [p v|p|p|src dst|p|c pre]; simpl in Hp; try (constructor; [exact I|apply IH; assumption]).
  - apply Forall_cons in Hp as [-> Hp]. constructor; [reflexivity|apply IH; assumption].
  - constructor; [exact Hj1|apply IH; assumption].
Qed.

(* in every run in which w alone publishes (any pace, fresh joins at any moment) no client other than w ever
   serves the id (it never treated an applied download as a local change) ... *)
Theorem only_publisher_serves n w tr s' :
  arun (ainit n) tr = Some s' -> only_publisher w tr -> fresh_joins tr ->
  forall q, q <> w -> q <> host -> pserved s' q = None.
Proof.
  intros Hrun Hop Hfj.
  assert (H : NoServe w s'); [|apply H].
  apply (run_lift (NoServe w) (serve_ok w) (noserve_step1 w) (fun _ => I) tr (ainit n) s' (ainit_wf n)); [|apply serve_ok_of; assumption|exact Hrun].
  split; [apply covered_init|]. intros q _ _. unfold pserved. rewrite ainit_getp. reflexivity.
Qed.
Print Assumptions only_publisher_serves.

(* ... and the host (when it is not the publisher) serves only for the snapshot of a join *)
Definition nojoin_ok (w : peer) (e : aevent) : Prop :=
  match e with APublish q _ => q = w | AJoin _ _ => False | _ => True end.

Lemma hostnoserve_step1 w s e s' :
  w <> host -> single e -> awf s -> (Covered w s /\ pserved s host = None) -> nojoin_ok w e -> astep s e = Some s' ->
  Covered w s' /\ pserved s' host = None.
Proof.
  intros Hwh He Hwf [HC HN] Hok Hstep. split; [eapply covered_step1; eauto; destruct e; simpl in *; auto|].
  pose proof (wf_nodup s Hwf) as Hnd.
  destruct e as [p v|p|p|src dst|p|c pre]; [|contradiction| | | |contradiction].
  - apply step_publish in Hstep as (_ & _ & _ & _ & Hp & Hq). simpl in Hok. subst p.
    unfold pserved. rewrite Hq by congruence. exact HN.
  - apply step_react1 in Hstep as (_ & _ & _ & Hp & Hq & _); [|exact Hnd].
    destruct (decide (host = p)) as [<-|Hne]; unfold pserved; [|rewrite Hq by assumption; exact HN].
    rewrite Hp. pose proof (originates_covered s host (proj2 HC host (not_eq_sym Hwh))) as Ho. unfold originates in Ho.
    destruct (react1_cases (getp s host)) as [[E0 E]|[(k & E0 & E1 & E)|[(k & c & t & E0 & E1 & E2 & E)|(k & c & E0 & E1 & E2 & E)]]];
      rewrite E in *; cbn [fst snd] in *; try exact HN. discriminate.
  - apply step_deliver in Hstep as (o & rest & _ & _ & _ & _ & Hp & Hq & _); [|exact Hnd].
    destruct (decide (host = dst)) as [<-|Hne]; unfold pserved; [rewrite Hp; exact HN|rewrite Hq by assumption; exact HN].
  - apply step_download in Hstep as (o & rest & _ & _ & _ & _ & _ & Hp & Hq).
    destruct (decide (host = p)) as [<-|Hne]; unfold pserved; [|rewrite Hq by assumption; exact HN].
    rewrite Hp. unfold download_peer. destruct (pserved s o); exact HN.
Qed.

Theorem host_serves_only_for_joins n w tr s' :
  arun (ainit n) tr = Some s' -> only_publisher w tr -> no_joins tr -> w <> host -> pserved s' host = None.
Proof.
  intros Hrun Hop Hnj Hwh.
  assert (H : Covered w s' /\ pserved s' host = None); [|apply H].
  apply (run_lift (fun s => Covered w s /\ pserved s host = None) (nojoin_ok w) (fun s e s' => hostnoserve_step1 w s e s' Hwh) (fun _ => I) tr (ainit n) s' (ainit_wf n)); [| |exact Hrun].
  - split; [apply covered_init|]. unfold pserved. rewrite ainit_getp. reflexivity.
  - clear Hrun. unfold only_publisher, no_joins in *. induction tr as [|e tr IH]; [constructor|].
    destruct e as [p v|p|p|src dst|p|c pre]; simpl in Hop, Hnj; try (constructor; [exact I|apply IH; assumption]).
    + apply Forall_cons in Hop as [-> Hop]. constructor; [reflexivity|apply IH; assumption].
    + discriminate.
Qed.
Print Assumptions host_serves_only_for_joins.

Example no_echo_nonvacuous :
  only_publisher 1 w_host_stale /\ fresh_joins w_host_stale /\
  (fun s => ((fun q => (ptok s q, pevents s q, originates s q)) <$> [0; 2; 3], pserved s <$> [0; 1; 2; 3])) <$>
    arun (ainit 1) (take 20 w_host_stale)
  = Some ([(0, 0, false); (0, 0, false); (1, 1, false)]%nat, [Some 20; Some 20; None; None]).
Proof. split; [only_pub|]. split; [unfold fresh_joins; vm_compute; repeat constructor|vm_compute; reflexivity]. Qed.

(* ================================================================================================
   Part M: materials (inline content), after the repair R1 (the token is a counter)
   ================================================================================================ *)

Lemma lastd_app d l1 l2 : lastd d (l1 ++ l2) = lastd (lastd d l1) l2.
Proof. unfold lastd. apply foldl_app. Qed.
Lemma lastd_snoc d l v : lastd d (l ++ [v]) = Some v.
Proof. rewrite lastd_app. reflexivity. Qed.

Lemma mgetp_insert m c l p x : mgetp (MState (<[p := x]> m) c l) p = x.
Proof. unfold mgetp. simpl. rewrite lookup_insert. reflexivity. Qed.
Lemma mgetp_insert_ne m c l c' l' p q x :
  q <> p -> mgetp (MState (<[p := x]> m) c l) q = mgetp (MState m c' l') q.
Proof. intros H. unfold mgetp. simpl. rewrite lookup_insert_ne by congruence. reflexivity. Qed.
Lemma mgetp_exists s p x : mp s !! p = Some x -> mgetp s p = x.
Proof. intros H. unfold mgetp. rewrite H. reflexivity. Qed.

Lemma mexists_insert (m : gmap peer mpeer) p x y q :
  m !! p = Some y -> is_Some (<[p := x]> m !! q) <-> is_Some (m !! q).
Proof.
  intros Hy. destruct (decide (q = p)) as [->|Hne].
  - rewrite lookup_insert, Hy. split; eauto.
  - rewrite lookup_insert_ne by congruence. reflexivity.
Qed.

Lemma mstep_publish s p c s' :
  mstep s (MPublish p c) = Some s' ->
  is_Some (mp s !! p) /\ mconn s' = mconn s /\ mlinks s' = mlinks s /\
  (forall q, is_Some (mp s' !! q) <-> is_Some (mp s !! q)) /\
  mgetp s' p = MPeer (Some c) (S (mpevents s p)) (mptok s p) /\
  (forall q, q <> p -> mgetp s' q = mgetp s q).
Proof.
  simpl. destruct (mp s !! p) as [x|] eqn:Hx; [|discriminate]. intros [= <-].
  unfold mpevents, mptok. rewrite (mgetp_exists _ _ _ Hx).
  split; [eauto|]. split; [reflexivity|]. split; [reflexivity|]. split; [|split].
  - intros q. simpl. eapply mexists_insert; eauto.
  - apply mgetp_insert.
  - intros q Hne. destruct s; simpl. apply mgetp_insert_ne. exact Hne.
Qed.

Lemma mreact1_cases x :
  (mevents x = 0%nat /\ mreact1_peer x = (x, None)) \/
  (exists k, mevents x = S k /\ mstore x = None /\ mreact1_peer x = (MPeer None k (mtok x), None)) \/
  (exists k c t, mevents x = S k /\ mstore x = Some c /\ mtok x = S t /\ mreact1_peer x = (MPeer (Some c) k t, None)) \/
  (exists k c, mevents x = S k /\ mstore x = Some c /\ mtok x = 0%nat /\ mreact1_peer x = (MPeer (Some c) k 0, Some c)).
Proof.
  unfold mreact1_peer. destruct (mevents x) as [|k]; [left; auto|]. right.
  destruct (mstore x) as [c|]; [|left; eauto]. right.
  destruct (mtok x) as [|t]; [right|left]; eauto 10.
Qed.

Definition mann_links (s : mstate) (p : peer) (ann : option content) (a b : peer) : list content :=
  match ann with
  | Some c => if decide (a = p /\ b ∈ mdsts_of s p) then mlink s a b ++ [c] else mlink s a b
  | None => mlink s a b
  end.

Lemma mstep_react1 s p s' :
  NoDup (mconn s) ->
  mstep s (MReact1 p) = Some s' ->
  is_Some (mp s !! p) /\ mconn s' = mconn s /\
  (forall q, is_Some (mp s' !! q) <-> is_Some (mp s !! q)) /\
  mgetp s' p = (mreact1_peer (mgetp s p)).1 /\
  (forall q, q <> p -> mgetp s' q = mgetp s q) /\
  (forall a b, mlink s' a b = mann_links s p (mreact1_peer (mgetp s p)).2 a b).
Proof.
  intros Hnd. simpl. unfold mreact1. destruct (mp s !! p) as [x|] eqn:Hx; [|discriminate].
  rewrite (mgetp_exists _ _ _ Hx). destruct (mreact1_peer x) as [x' ann] eqn:Hr. intros [= <-].
  split; [eauto|]. split; [reflexivity|]. split; [|split; [|split]].
  - intros q. simpl. eapply mexists_insert; eauto.
  - apply mgetp_insert.
  - intros q Hne. destruct s; simpl. apply mgetp_insert_ne. exact Hne.
  - intros a b. unfold mlink, mann_links. simpl. destruct ann as [c|]; [|reflexivity].
    apply lget_send_to. unfold mdsts_of. destruct (p =? host)%N; [exact Hnd|apply NoDup_singleton].
Qed.

Lemma mreact_n_run k s p : mreact_n k s p = mrun s (replicate k (MReact1 p)).
Proof. revert s. induction k as [|k IH]; intros s; simpl; [reflexivity|]. destruct (mreact1 s p); auto. Qed.

Lemma mstep_react_runs s p s' :
  mstep s (MReact p) = Some s' -> mrun s (replicate (mpevents s p) (MReact1 p)) = Some s'.
Proof.
  simpl. destruct (mp s !! p) as [x|] eqn:Hx; [|discriminate]. unfold mpevents. rewrite (mgetp_exists _ _ _ Hx).
  rewrite mreact_n_run. auto.
Qed.

Lemma mreact1s_ind (P : mstate -> Prop) p :
  (forall s s', P s -> mstep s (MReact1 p) = Some s' -> P s') ->
  forall k s s', P s -> mrun s (replicate k (MReact1 p)) = Some s' -> P s'.
Proof.
  intros Hstep. induction k as [|k IH]; intros s s' HP Hrun; simpl in Hrun.
  - inversion Hrun; subst. exact HP.
  - destruct (mreact1 s p) as [s1|] eqn:H1; [|discriminate]. eapply IH; [|exact Hrun]. eapply Hstep; eauto.
Qed.

Lemma mstep_deliver s src dst s' :
  NoDup (mconn s) ->
  mstep s (MDeliver src dst) = Some s' ->
  exists c rest, mlink s src dst = c :: rest /\ is_Some (mp s !! dst) /\ mconn s' = mconn s /\
  (forall q, is_Some (mp s' !! q) <-> is_Some (mp s !! q)) /\
  mgetp s' dst = MPeer (Some c) (S (mpevents s dst)) (S (mptok s dst)) /\
  (forall q, q <> dst -> mgetp s' q = mgetp s q) /\
  (forall a b, mlink s' a b =
     (if decide ((a, b) = (src, dst)) then rest else mlink s a b) ++
     (if decide (dst = host /\ a = host /\ b ∈ others src (mconn s)) then [c] else [])).
Proof.
  intros Hnd. simpl. destruct (mlink s src dst) as [|c rest] eqn:Hl; [discriminate|].
  destruct (mp s !! dst) as [x|] eqn:Hx; [|discriminate]. intros [= <-]. exists c, rest.
  unfold mpevents, mptok. rewrite (mgetp_exists _ _ _ Hx).
  split; [reflexivity|]. split; [eauto|]. split; [reflexivity|]. split; [|split; [|split]].
  - intros q. simpl. eapply mexists_insert; eauto.
  - apply mgetp_insert.
  - intros q Hne. destruct s; simpl. apply mgetp_insert_ne. exact Hne.
  - intros a b. unfold mlink. simpl. destruct (dst =? host)%N eqn:Hd.
    + apply N.eqb_eq in Hd. subst dst. rewrite lget_send_to by (apply NoDup_others; exact Hnd).
      rewrite lget_insert.
      destruct (decide (a = host /\ b ∈ others src (mconn s))) as [[-> Hin]|Hn].
      * destruct (decide (host = host /\ host = host /\ b ∈ others src (mconn s))) as [_|Hn]; [reflexivity|tauto].
      * destruct (decide (host = host /\ a = host /\ b ∈ others src (mconn s))) as [[_ Hy]|_]; [tauto|].
        rewrite app_nil_r. reflexivity.
    + apply N.eqb_neq in Hd. rewrite lget_insert.
      destruct (decide (dst = host /\ _)) as [[Hy _]|_]; [contradiction|]. rewrite app_nil_r. reflexivity.
Qed.

Definition msnapshot (s : mstate) : list content := match mpstore s host with Some v => [v] | None => [] end.

Lemma mstep_join s c s' :
  mstep s (MJoin c) = Some s' ->
  c <> host /\ c ∉ mconn s /\ mp s !! c = None /\ mconn s' = mconn s ++ [c] /\
  (forall q, is_Some (mp s' !! q) <-> is_Some (mp s !! q) \/ q = c) /\
  (forall q, mgetp s' q = mgetp s q) /\
  (forall a b, mlink s' a b = if decide ((a, b) = (host, c)) then mlink s host c ++ msnapshot s else mlink s a b).
Proof.
  simpl. destruct (c =? host)%N eqn:Hc; [discriminate|]. apply N.eqb_neq in Hc.
  destruct (bool_decide (c ∈ mconn s)) eqn:Hin; [discriminate|]. apply bool_decide_eq_false in Hin.
  destruct (bool_decide (is_Some (mp s !! c))) eqn:Hex; [discriminate|].
  apply bool_decide_eq_false in Hex. simpl. intros [= <-].
  assert (Hnone : mp s !! c = None) by (destruct (mp s !! c); [exfalso; eauto|reflexivity]).
  split; [exact Hc|]. split; [exact Hin|]. split; [exact Hnone|]. split; [reflexivity|]. split; [|split].
  - intros q. simpl. destruct (decide (q = c)) as [->|Hne].
    + rewrite lookup_insert. split; eauto.
    + rewrite lookup_insert_ne by congruence. split; [auto|]. intros [H|H]; [exact H|contradiction].
  - intros q. unfold mgetp. simpl. destruct (decide (q = c)) as [->|Hne].
    + rewrite lookup_insert, Hnone. reflexivity.
    + rewrite lookup_insert_ne by congruence. reflexivity.
  - intros a b. unfold mlink, msnapshot. simpl. destruct (mpstore s host) as [v|].
    + apply lget_push_link.
    + cdec as [Heq|_]; [|reflexivity]. inversion Heq; subst. rewrite app_nil_r. reflexivity.
Qed.

(* ---------- well-formedness ----------------------------------------------------------------------- *)

Lemma mwf_nodup s : mwf s -> NoDup (mconn s).
Proof. intros (H & _). exact H. Qed.
Lemma mwf_host s : mwf s -> host ∉ mconn s.
Proof. intros (_ & H & _). exact H. Qed.
Lemma mwf_exists s p : mwf s -> is_Some (mp s !! p) <-> mpeers s p.
Proof. intros (_ & _ & H & _). apply H. Qed.
Lemma mwf_link s a b : mwf s -> mlink s a b <> [] -> (a = host /\ b ∈ mconn s) \/ (b = host /\ a ∈ mconn s).
Proof. intros (_ & _ & _ & H). apply H. Qed.
Lemma mwf_link_hh s : mwf s -> mlink s host host = [].
Proof.
  intros Hwf. destruct (mlink s host host) eqn:Hl; [reflexivity|].
  destruct (mwf_link s host host Hwf) as [[_ H]|[_ H]]; [rewrite Hl; discriminate| |]; exfalso; apply (mwf_host s Hwf H).
Qed.

Lemma mstep_wf_plain1 s e s' :
  match e with MReact _ => False | _ => True end ->
  mwf s -> mstep s e = Some s' -> mwf s'.
Proof.
  intros He Hwf Hstep. pose proof Hwf as (Hnd & Hh & Hex & Hlk). destruct e as [p v|p|p|src dst|c]; [|contradiction| | |].
  - apply mstep_publish in Hstep as (_ & Hc & Hl & He' & _).
    unfold mwf, mlink, mpeers. rewrite Hc, Hl. repeat split; try assumption.
    + intros H. apply Hex, He', H. + intros H. apply He', Hex, H.
  - apply mstep_react1 in Hstep as (Hp & Hc & He' & _ & _ & Hl); [|exact Hnd].
    unfold mwf, mpeers. rewrite Hc. repeat split; try assumption.
    + intros H. apply Hex, He', H. + intros H. apply He', Hex, H.
    + intros a b. rewrite Hl. unfold mann_links. destruct (mreact1_peer (mgetp s p)).2 as [c|]; [|apply Hlk].
      destruct (decide (a = p /\ b ∈ mdsts_of s p)) as [(-> & Hin)|_]; [|apply Hlk].
      intros _. unfold mdsts_of in Hin. destruct (p =? host)%N eqn:Hph.
      * apply N.eqb_eq in Hph. left. auto.
      * apply N.eqb_neq in Hph. apply elem_of_list_singleton in Hin. right. split; [exact Hin|].
        apply Hex in Hp as [Hp|Hp]; [contradiction|exact Hp].
  - apply mstep_deliver in Hstep as (o & rest & Hl0 & Hd & Hc & He' & _ & _ & Hl); [|exact Hnd].
    unfold mwf, mpeers. rewrite Hc. repeat split; try assumption.
    + intros H. apply Hex, He', H. + intros H. apply He', Hex, H.
    + intros a b. rewrite Hl.
      destruct (decide (dst = host /\ a = host /\ b ∈ others src (mconn s))) as [(_ & -> & Hin)|_].
      * intros _. left. split; [reflexivity|]. apply elem_of_others in Hin. tauto.
      * rewrite app_nil_r. destruct (decide ((a, b) = (src, dst))) as [Heq|_]; [|apply Hlk].
        inversion Heq; subst. intros _. apply Hlk. rewrite Hl0. discriminate.
  - apply mstep_join in Hstep as (Hc0 & Hcn & Hnone & Hc & He' & _ & Hl).
    unfold mwf, mpeers. rewrite Hc. split; [|split; [|split]].
    + apply NoDup_app. split; [exact Hnd|]. split; [|apply NoDup_singleton].
      intros x Hx Hx'. apply elem_of_list_singleton in Hx'. subst. contradiction.
    + intros H. apply elem_of_app in H as [H|H]; [contradiction|]. apply elem_of_list_singleton in H. congruence.
    + intros q. rewrite He', Hex. unfold mpeers. rewrite elem_of_app, elem_of_list_singleton. tauto.
    + intros a b. rewrite Hl. rewrite elem_of_app, elem_of_app, !elem_of_list_singleton.
      destruct (decide ((a, b) = (host, c))) as [Heq|_].
      * inversion Heq; subst. intros _. left. auto.
      * intros H. apply Hlk in H. tauto.
Qed.

Lemma mstep_wf s e s' : mwf s -> mstep s e = Some s' -> mwf s'.
Proof.
  intros Hwf Hstep. destruct e as [p v|p|p|src dst|c]; try (eapply mstep_wf_plain1; [|exact Hwf|exact Hstep]; exact I).
  apply mstep_react_runs in Hstep. eapply (mreact1s_ind mwf p); [|exact Hwf|exact Hstep].
  intros s1 s2 H1 H2. eapply mstep_wf_plain1; [|exact H1|exact H2]. exact I.
Qed.

Lemma mrun_wf s tr s' : mwf s -> mrun s tr = Some s' -> mwf s'.
Proof.
  revert s. induction tr as [|e tr IH]; intros s Hwf Hrun; simpl in Hrun.
  - congruence.
  - destruct (mstep s e) as [s1|] eqn:Hs; [|discriminate]. eapply IH; [|exact Hrun]. eapply mstep_wf; eauto.
Qed.

Lemma minit_getp n p : mgetp (minit n) p = mpeer0.
Proof.
  unfold mgetp. destruct (mp (minit n) !! p) as [x|] eqn:Hx; [|reflexivity]. simpl.
  unfold minit in Hx; cbn [mp] in Hx. apply elem_of_list_to_map_2 in Hx. apply elem_of_list_fmap in Hx as (q & Heq & _). congruence.
Qed.
Lemma minit_link n a b : mlink (minit n) a b = [].
Proof. reflexivity. Qed.

Lemma minit_wf n : mwf (minit n).
Proof.
  unfold mwf. split; [apply NoDup_clients|]. split; [|split].
  - simpl. rewrite elem_of_clients. unfold host. lia.
  - intros p. unfold minit, mpeers; cbn [mp mconn].
    set (l := (fun p => (p, mpeer0)) <$> host :: clients n).
    assert (Hfst : l.*1 = host :: clients n).
    { unfold l. rewrite <- list_fmap_compose. simpl. f_equal. induction (clients n); simpl; congruence. }
    split.
    + intros [x Hx]. apply elem_of_list_to_map_2 in Hx. apply (elem_of_list_fmap_1 fst) in Hx.
      rewrite Hfst in Hx. simpl in Hx. apply elem_of_cons in Hx. exact Hx.
    + intros Hp. destruct (list_to_map l !! p) eqn:Hx; [eauto|].
      apply not_elem_of_list_to_map in Hx. rewrite Hfst in Hx. exfalso. apply Hx. apply elem_of_cons. exact Hp.
  - intros a b H. exfalso. apply H. reflexivity.
Qed.

Lemma mquiescent_link s a b : mquiescent s -> mlink s a b = [].
Proof.
  intros [H _]. unfold mlink, lget. destruct (mlinks s !! (a, b)) as [l|] eqn:Hl; [|reflexivity]. simpl. eapply H. exact Hl.
Qed.
Lemma mquiescent_peer s p : mquiescent s -> mpevents s p = 0%nat /\ mptok s p = 0%nat.
Proof.
  intros [_ H]. unfold mpevents, mptok, mgetp. destruct (mp s !! p) as [x|] eqn:Hx; simpl; [|auto].
  apply (H p x Hx).
Qed.
Lemma mquiescent_intro s :
  (forall a b, mlink s a b = []) -> (forall p, mpevents s p = 0%nat /\ mptok s p = 0%nat) -> mquiescent s.
Proof.
  intros Hl Hp. split.
  - intros [a b] l Hx. specialize (Hl a b). unfold mlink, lget in Hl. rewrite Hx in Hl. exact Hl.
  - intros p x Hx. specialize (Hp p). unfold mpevents, mptok, mgetp in Hp. rewrite Hx in Hp. exact Hp.
Qed.
Lemma minit_quiescent n : mquiescent (minit n).
Proof.
  apply mquiescent_intro; [intros; apply minit_link|]. intros p. unfold mpevents, mptok. rewrite minit_getp. auto.
Qed.

Theorem mwf_invariant n tr s' : mrun (minit n) tr = Some s' -> mwf s'.
Proof. intros Hrun. eapply mrun_wf; [apply minit_wf|exact Hrun]. Qed.

Definition msingle (e : mevent) : Prop := match e with MReact _ => False | _ => True end.

Lemma mstep_lift (P : mstate -> Prop) (ok : mevent -> Prop) :
  (forall s e s', msingle e -> mwf s -> P s -> ok e -> mstep s e = Some s' -> P s') ->
  (forall p, ok (MReact1 p)) ->
  forall s e s', mwf s -> P s -> ok e -> mstep s e = Some s' -> P s'.
Proof.
  intros H1 Hr s e s' Hwf HP Hok Hstep.
  destruct e as [p v|p|p|src dst|c]; try (eapply H1; eauto; exact I).
  apply mstep_react_runs in Hstep.
  pose (Q := fun s1 => mwf s1 /\ P s1). assert (HQ : Q s'); [|apply HQ].
  eapply (mreact1s_ind Q p); [|split; [exact Hwf|exact HP]|exact Hstep].
  intros s1 s2 [Hw1 HP1] H12. split; [eapply mstep_wf; eauto|]. exact (H1 s1 (MReact1 p) s2 I Hw1 HP1 (Hr p) H12).
Qed.

Lemma mrun_lift (P : mstate -> Prop) (ok : mevent -> Prop) :
  (forall s e s', msingle e -> mwf s -> P s -> ok e -> mstep s e = Some s' -> P s') ->
  (forall p, ok (MReact1 p)) ->
  forall tr s s', mwf s -> P s -> Forall ok tr -> mrun s tr = Some s' -> P s'.
Proof.
  intros H1 Hr. induction tr as [|e tr IH]; intros s s' Hwf HP Hok Hrun; simpl in Hrun.
  - inversion Hrun; subst. exact HP.
  - destruct (mstep s e) as [s1|] eqn:Hstep; [|discriminate]. apply Forall_cons in Hok as [He Hok].
    eapply (IH s1); [eapply mstep_wf; eauto| |exact Hok|exact Hrun].
    eapply (mstep_lift P ok); eauto.
Qed.

(* invariants of every run *)
Definition MBasic (s : mstate) : Prop :=
  forall p, (mptok s p <= mpevents s p)%nat /\ (mpevents s p <> 0%nat -> mpstore s p <> None).

Lemma mbasic_step1 s e s' : msingle e -> mwf s -> MBasic s -> True -> mstep s e = Some s' -> MBasic s'.
Proof.
  intros He Hwf HB _ Hstep. pose proof (mwf_nodup s Hwf) as Hnd.
  destruct e as [p v|p|p|src dst|c]; [|contradiction| | |]; intros q.
  - apply mstep_publish in Hstep as (_ & _ & _ & _ & Hp & Hq).
    destruct (decide (q = p)) as [->|Hne]; unfold mptok, mpevents, mpstore.
    + rewrite Hp. simpl. pose proof (HB p) as (HB1 & _). split; [lia|intros; discriminate].
    + rewrite Hq by assumption. apply HB.
  - apply mstep_react1 in Hstep as (_ & _ & _ & Hp & Hq & _); [|exact Hnd].
    destruct (decide (q = p)) as [->|Hne]; unfold mptok, mpevents, mpstore; [|rewrite Hq by assumption; apply HB].
    rewrite Hp. specialize (HB p). unfold mptok, mpevents, mpstore in HB. destruct HB as (HB1 & HB2).
    destruct (mreact1_cases (mgetp s p)) as [[E0 E]|[(k & E0 & E1 & E)|[(k & c & t & E0 & E1 & E2 & E)|(k & c & E0 & E1 & E2 & E)]]];
      rewrite E; cbn [fst]; [auto| | |].
    + exfalso. apply HB2; [rewrite E0; discriminate|exact E1].
    + simpl. split; [lia|intros; discriminate].
    + simpl. split; [lia|intros; discriminate].
  - apply mstep_deliver in Hstep as (c & rest & _ & _ & _ & _ & Hp & Hq & _); [|exact Hnd].
    destruct (decide (q = dst)) as [->|Hne]; unfold mptok, mpevents, mpstore; [|rewrite Hq by assumption; apply HB].
    rewrite Hp. simpl. pose proof (HB dst) as (HB1 & _). split; [lia|intros; discriminate].
  - apply mstep_join in Hstep as (_ & _ & _ & _ & _ & Hg & _). unfold mptok, mpevents, mpstore. rewrite Hg. apply HB.
Qed.

Lemma mall_true (tr : list mevent) : Forall (fun _ => True) tr.
Proof. induction tr; constructor; auto. Qed.

Lemma mbasic_init n : MBasic (minit n).
Proof. intros p. unfold mptok, mpevents, mpstore. rewrite minit_getp. simpl. split; [lia|congruence]. Qed.

Theorem mbasic_invariant n tr s' : mrun (minit n) tr = Some s' -> MBasic s'.
Proof.
  intros Hrun. eapply (mrun_lift MBasic (fun _ => True)); [exact mbasic_step1|auto|apply minit_wf|apply mbasic_init|apply mall_true|exact Hrun].
Qed.

(* ---------- M3: no echo ------------------------------------------------------------------------------ *)
Definition mpub_ok (w : peer) (e : mevent) : Prop := match e with MPublish q _ => q = w | _ => True end.
Definition MCovered (w : peer) (s : mstate) : Prop := MBasic s /\ forall q, q <> w -> mptok s q = mpevents s q.

Lemma mcovered_step1 w s e s' :
  msingle e -> mwf s -> MCovered w s -> mpub_ok w e -> mstep s e = Some s' -> MCovered w s'.
Proof.
  intros He Hwf [HB HC] Hok Hstep. split; [eapply mbasic_step1; eauto|]. pose proof (mwf_nodup s Hwf) as Hnd.
  destruct e as [p v|p|p|src dst|c]; [|contradiction| | |]; intros q Hqw.
  - simpl in Hok. subst p. apply mstep_publish in Hstep as (_ & _ & _ & _ & _ & Hq).
    unfold mptok, mpevents. rewrite Hq by assumption. apply HC. exact Hqw.
  - apply mstep_react1 in Hstep as (_ & _ & _ & Hp & Hq & _); [|exact Hnd].
    destruct (decide (q = p)) as [->|Hne]; unfold mptok, mpevents; [|rewrite Hq by assumption; apply HC; exact Hqw].
    rewrite Hp. specialize (HC p Hqw). unfold mptok, mpevents in HC.
    destruct (mreact1_cases (mgetp s p)) as [[E0 E]|[(k & E0 & E1 & E)|[(k & c & t & E0 & E1 & E2 & E)|(k & c & E0 & E1 & E2 & E)]]];
      rewrite E; cbn [fst]; simpl; try lia.
    exfalso. destruct (HB p) as (_ & HB2). apply HB2; [unfold mpevents; rewrite E0; discriminate|exact E1].
  - apply mstep_deliver in Hstep as (c & rest & _ & _ & _ & _ & Hp & Hq & _); [|exact Hnd].
    destruct (decide (q = dst)) as [->|Hne]; unfold mptok, mpevents; [|rewrite Hq by assumption; apply HC; exact Hqw].
    rewrite Hp. simpl. f_equal. apply HC. exact Hqw.
  - apply mstep_join in Hstep as (_ & _ & _ & _ & _ & Hg & _). unfold mptok, mpevents. rewrite Hg. apply HC. exact Hqw.
Qed.

Lemma mpub_ok_of w tr : monly_publisher w tr -> Forall (mpub_ok w) tr.
Proof.
  unfold monly_publisher. induction tr as [|e tr IH]; intros Hp; [constructor|].
  destruct e as [p v|p|p|src dst|c]; simpl in Hp; try (constructor; [exact I|apply IH; assumption]).
  apply Forall_cons in Hp as [-> Hp]. constructor; [reflexivity|apply IH; assumption].
Qed.

Lemma moriginates_covered s q : mptok s q = mpevents s q -> moriginates s q = None.
Proof.
  unfold moriginates, mptok, mpevents. intros H.
  destruct (mreact1_cases (mgetp s q)) as [[E0 E]|[(k & E0 & E1 & E)|[(k & c & t & E0 & E1 & E2 & E)|(k & c & E0 & E1 & E2 & E)]]];
    rewrite E; try reflexivity. exfalso. lia.
Qed.

(* an inline update applied from the network is never sent back: in every state of every run in which w alone
   publishes (any pace, joins at any moment), a react step of any other peer sends nothing *)
Theorem mno_echo n w tr s' :
  mrun (minit n) tr = Some s' -> monly_publisher w tr ->
  forall q, q <> w -> mptok s' q = mpevents s' q /\ moriginates s' q = None.
Proof.
  intros Hrun Hop q Hne.
  assert (HC : MCovered w s').
  { apply (mrun_lift (MCovered w) (mpub_ok w) (mcovered_step1 w) (fun _ => I) tr (minit n) s' (minit_wf n)); [|apply mpub_ok_of; exact Hop|exact Hrun].
    split; [apply mbasic_init|]. intros p _. unfold mptok, mpevents. rewrite minit_getp. reflexivity. }
  pose proof (proj2 HC q Hne) as H. split; [exact H|apply moriginates_covered; exact H].
Qed.
Print Assumptions mno_echo.

(* ---------- the publisher invariant for materials ------------------------------------------------------
   [mlatest w s q]: what q will hold once everything on its way from w has arrived (the channels are
   FIFO and the host relays in order).  It is w's store unless an event of w is unread. *)

Definition mlatest (w : peer) (s : mstate) (q : peer) : option content :=
  lastd (mpstore s q) (mlink s host q ++ mlink s w host).

Record MInv (w : peer) (s : mstate) : Prop := {
  mi_basic : MBasic s;
  mi_tok : mptok s w = 0%nat;
  mi_in : forall a, mlink s a w = [];
  mi_up : forall c, c <> w -> mlink s c host = [];
  mi_recv : forall q, q <> w -> mptok s q = mpevents s q;
  mi_latest : forall q, mpeers s q -> q <> w -> mlatest w s q = mpstore s w \/ mpevents s w <> 0%nat
}.

Definition mstore_after (w : peer) (s : mstate) (e : mevent) : option content :=
  match e with MPublish _ c => Some c | _ => mpstore s w end.

Lemma minv_ext w s s' :
  (forall q, mgetp s' q = mgetp s q) -> (forall a b, mlink s' a b = mlink s a b) -> mconn s' = mconn s ->
  MInv w s -> MInv w s'.
Proof.
  intros Hg Hl Hc HI. destruct HI as [iB iT iI iU iR iLa].
  constructor; unfold MBasic, mlatest, mpeers, mpstore, mpevents, mptok in *; intros; rewrite ?Hg, ?Hl, ?Hc in *; eauto.
Qed.

Lemma mnot_in_dsts s p : mwf s -> p ∉ mdsts_of s p.
Proof.
  intros Hwf. unfold mdsts_of. destruct (p =? host)%N eqn:E.
  - apply N.eqb_eq in E. subst. apply mwf_host, Hwf.
  - apply N.eqb_neq in E. intros H. apply elem_of_list_singleton in H. contradiction.
Qed.

Lemma mwf_link_nil s a b : mwf s -> a ∉ mconn s -> b ∉ mconn s -> mlink s a b = [].
Proof.
  intros Hwf Ha Hb. destruct (mlink s a b) eqn:Hl; [reflexivity|].
  destruct (mwf_link s a b Hwf) as [[_ H]|[_ H]]; [rewrite Hl; discriminate|contradiction|contradiction].
Qed.

Lemma mdeliver_shape w s src dst c rest :
  mwf s -> MInv w s -> mlink s src dst = c :: rest ->
  dst <> w /\
  ((src = host /\ dst ∈ mconn s /\ dst <> host) \/ (dst = host /\ src = w /\ w <> host /\ w ∈ mconn s)).
Proof.
  intros Hwf HI Hl0.
  assert (Hne0 : mlink s src dst <> []) by (rewrite Hl0; discriminate).
  assert (Hdw : dst <> w). { intros ->. rewrite (mi_in _ _ HI) in Hne0. congruence. }
  split; [exact Hdw|].
  destruct (mwf_link s src dst Hwf Hne0) as [[-> Hin]|[-> Hin]].
  - left. split; [reflexivity|]. split; [exact Hin|]. intros ->. apply (mwf_host s Hwf Hin).
  - right. split; [reflexivity|]. destruct (decide (src = w)) as [->|Hn].
    + split; [reflexivity|]. split; [|exact Hin]. intros ->. apply (mwf_host s Hwf Hin).
    + rewrite (mi_up _ _ HI src Hn) in Hne0. congruence.
Qed.

Lemma minv_step1 w s e s' :
  msingle e -> mwf s -> MInv w s -> mpub_ok w e -> mstep s e = Some s' ->
  MInv w s' /\ mpstore s' w = mstore_after w s e.
Proof.
  intros Hnb Hwf HI Hok Hstep. pose proof (mwf_nodup s Hwf) as Hnd. pose proof (mwf_link_hh s Hwf) as Hhh.
  pose proof (mbasic_step1 s e s' Hnb Hwf (mi_basic _ _ HI) I Hstep) as HB'.
  destruct e as [p v|p|p|src dst|c]; [|contradiction| | |].
  - (* MPublish *)
    simpl in Hok. subst p.
    apply mstep_publish in Hstep as (_ & Hc & Hl & Hex & Hp & Hq).
    assert (Hlk : forall a b, mlink s' a b = mlink s a b) by (intros; unfold mlink; rewrite Hl; reflexivity).
    destruct HI as [iB iT iI iU iR iLa]. split; [|unfold mpstore; rewrite Hp; reflexivity].
    constructor; unfold mpeers; intros; rewrite ?Hlk, ?Hc in *; eauto.
    + unfold mptok. rewrite Hp. exact iT.
    + unfold mpevents, mptok. rewrite Hq by assumption. apply iR. assumption.
    + right. unfold mpevents. rewrite Hp. discriminate.
  - (* MReact1 *)
    apply mstep_react1 in Hstep as (Hex & Hc & Hex' & Hp & Hq & Hl); [|exact Hnd].
    assert (Hsto : forall q, mpstore s' q = mpstore s q).
    { intros q. unfold mpstore. destruct (decide (q = p)) as [->|Hne]; [|rewrite Hq by assumption; reflexivity].
      rewrite Hp. destruct (mreact1_cases (mgetp s p)) as [[_ E]|[(k & _ & E0 & E)|[(k & c & t & _ & E0 & _ & E)|(k & c & _ & E0 & _ & E)]]];
        rewrite E; simpl; congruence. }
    split; [|apply Hsto].
    destruct (mreact1_cases (mgetp s p)) as [[E0 E]|[(k & E0 & E1 & E)|[(k & c & t & E0 & E1 & E2 & E)|(k & c & E0 & E1 & E2 & E)]]].
    + eapply minv_ext; [| |exact Hc|exact HI].
      * intros q. destruct (decide (q = p)) as [->|Hne]; [rewrite Hp, E; reflexivity|apply Hq; exact Hne].
      * intros a b. rewrite Hl, E. reflexivity.
    + exfalso. destruct (mi_basic _ _ HI p) as (_ & H2). apply H2; [unfold mpevents; rewrite E0; discriminate|exact E1].
    + (* swallowed by a token *)
      assert (Hpw : p <> w). { intros ->. pose proof (mi_tok _ _ HI) as Ht. unfold mptok in Ht. congruence. }
      rewrite E in Hp, Hl. cbn [fst snd] in Hp, Hl.
      assert (Hlk : forall a b, mlink s' a b = mlink s a b) by (intros; rewrite Hl; reflexivity).
      destruct HI as [iB iT iI iU iR iLa]. constructor; unfold mpeers, mlatest; intros; rewrite ?Hlk, ?Hc, ?Hsto in *; eauto.
      * unfold mptok. rewrite Hq by congruence. exact iT.
      * destruct (decide (q = p)) as [->|Hne].
        -- unfold mpevents, mptok. rewrite Hp. simpl. specialize (iR p Hpw). unfold mptok, mpevents in iR. lia.
        -- unfold mpevents, mptok. rewrite Hq by assumption. apply iR. assumption.
      * unfold mpevents. rewrite (Hq w) by congruence. apply iLa; assumption.
    + (* a local change: announced *)
      destruct (decide (p = w)) as [->|Hpw].
      2:{ exfalso. pose proof (mi_recv _ _ HI p Hpw) as H. unfold mpevents, mptok in *. congruence. }
      rewrite E in Hp, Hl. cbn [fst snd] in Hp, Hl. unfold mann_links in Hl.
      assert (Hsw : mpstore s w = Some c) by exact E1.
      destruct HI as [iB iT iI iU iR iLa]. constructor; unfold mpeers; intros; rewrite ?Hc in *.
      * exact HB'.
      * unfold mptok. rewrite Hp. reflexivity.
      * rewrite Hl. cdec as [[_ Hin]|_]; [exfalso; eapply mnot_in_dsts; eauto|apply iI].
      * rewrite Hl. cdec as [[Heq _]|_]; [contradiction|apply iU; assumption].
      * unfold mpevents, mptok. rewrite Hq by assumption. apply iR. assumption.
      * left. rewrite Hsto, Hsw. unfold mlatest. rewrite !Hl. unfold mdsts_of. destruct (decide (w = host)) as [->|Hwh].
        -- change (host =? host)%N with true. cbv iota.
           destruct (decide (host = host /\ host ∈ mconn s)) as [[_ Hin]|_]; [exfalso; apply (mwf_host s Hwf Hin)|].
           destruct (decide (host = host /\ q ∈ mconn s)) as [_|Hn].
           ++ rewrite Hhh, app_nil_r. apply lastd_snoc.
           ++ exfalso. apply Hn. split; [reflexivity|]. destruct H as [?|?]; [contradiction|assumption].
        -- destruct (w =? host)%N eqn:E'; [apply N.eqb_eq in E'; contradiction|].
           destruct (decide (w = w /\ host ∈ [host])) as [_|Hn]; [|exfalso; apply Hn; split; [reflexivity|apply elem_of_list_singleton; reflexivity]].
           destruct (decide (host = w /\ _)) as [[Hf _]|_]; [congruence|].
           rewrite app_assoc. apply lastd_snoc.
  - (* MDeliver *)
    apply mstep_deliver in Hstep as (c & rest & Hl0 & Hd & Hc & Hex' & Hp & Hq & Hl); [|exact Hnd].
    destruct (mdeliver_shape w s src dst c rest Hwf HI Hl0) as (Hdw & Hshape).
    assert (Hsw : mpstore s' w = mpstore s w) by (unfold mpstore; rewrite Hq by congruence; reflexivity).
    assert (Hew : mpevents s' w = mpevents s w) by (unfold mpevents; rewrite Hq by congruence; reflexivity).
    split; [|exact Hsw].
    destruct HI as [iB iT iI iU iR iLa]. constructor; unfold mpeers; intros; rewrite ?Hc in *.
    + exact HB'.
    + unfold mptok. rewrite Hq by congruence. exact iT.
    + rewrite Hl. destruct (decide ((a, w) = (src, dst))) as [Heq|_]; [inversion Heq; congruence|].
      rewrite iI. cbn [app]. cdec as [(Hdh & _ & Hin)|_]; [|reflexivity].
      apply elem_of_others in Hin as [Hn _]. destruct Hshape as [(_ & _ & ?)|(? & ? & _)]; congruence.
    + rewrite Hl. destruct (decide ((c0, host) = (src, dst))) as [Heq|_].
      * inversion Heq; subst. destruct Hshape as [(_ & _ & ?)|(_ & ? & _)]; congruence.
      * rewrite iU by assumption. cbn [app]. cdec as [(_ & _ & Hin)|_]; [|reflexivity].
        apply elem_of_others in Hin as [_ Hin]. exfalso. apply (mwf_host s Hwf Hin).
    + destruct (decide (q = dst)) as [->|Hne].
      * unfold mpevents, mptok. rewrite Hp. simpl. f_equal. apply iR. assumption.
      * unfold mpevents, mptok. rewrite Hq by assumption. apply iR. assumption.
    + rewrite Hsw, Hew.
      assert (Hsame : mlatest w s' q = mlatest w s q); [|rewrite Hsame; apply iLa; assumption].
      unfold mlatest. rewrite !Hl.
      destruct Hshape as [(-> & Hin & Hdh)|(-> & -> & Hwh & Hin)].
      * destruct (decide ((w, host) = (host, dst))) as [Heq|_]; [inversion Heq; congruence|].
        destruct (decide (dst = host /\ _)) as [[? _]|_]; [contradiction|].
        destruct (decide (dst = host /\ _)) as [[? _]|_]; [contradiction|]. rewrite !app_nil_r.
        destruct (decide (q = dst)) as [->|Hnq].
        -- destruct (decide ((host, dst) = (host, dst))) as [_|?]; [|congruence].
           unfold mpstore at 1. rewrite Hp. cbn [mstore]. rewrite Hl0. reflexivity.
        -- destruct (decide ((host, q) = (host, dst))) as [Heq|_]; [inversion Heq; congruence|].
           unfold mpstore. rewrite Hq by assumption. reflexivity.
      * destruct (decide ((w, host) = (w, host))) as [_|?]; [|congruence].
        destruct (decide (host = host /\ w = host /\ _)) as [(_ & ? & _)|_]; [contradiction|]. rewrite app_nil_r.
        destruct (decide (q = host)) as [->|Hnq].
        -- destruct (decide ((host, host) = (w, host))) as [Heq|_]; [inversion Heq; congruence|].
           destruct (decide (host = host /\ host = host /\ host ∈ others w (mconn s))) as [(_ & _ & Hin')|_].
           { apply elem_of_others in Hin' as [_ Hin']. exfalso. apply (mwf_host s Hwf Hin'). }
           rewrite app_nil_r, Hhh. unfold mpstore at 1. rewrite Hp. cbn [mstore app]. rewrite Hl0. reflexivity.
        -- destruct (decide ((host, q) = (w, host))) as [Heq|_]; [inversion Heq; congruence|].
           destruct (decide (host = host /\ host = host /\ q ∈ others w (mconn s))) as [_|Hn].
           ++ unfold mpstore. rewrite Hq by assumption. rewrite Hl0, <- app_assoc. reflexivity.
           ++ exfalso. apply Hn. split; [reflexivity|]. split; [reflexivity|]. apply elem_of_others. split; [assumption|].
              destruct H as [?|?]; [contradiction|assumption].
  - (* MJoin: a fresh client at ANY moment; it may be the future publisher *)
    apply mstep_join in Hstep as (Hch & Hcn & Hnone & Hc & Hex' & Hg & Hl).
    split; [|unfold mstore_after, mpstore; rewrite Hg; reflexivity].
    assert (Hlc0 : mlink s host c = []) by (apply mwf_link_nil; [exact Hwf|apply mwf_host; exact Hwf|exact Hcn]).
    assert (Hlc1 : mlink s c host = []) by (apply mwf_link_nil; [exact Hwf|exact Hcn|apply mwf_host; exact Hwf]).
    assert (Hc0 : mgetp s c = mpeer0) by (unfold mgetp; rewrite Hnone; reflexivity).
    destruct HI as [iB iT iI iU iR iLa]. constructor; unfold mpeers, mpstore, mpevents, mptok; intros; rewrite ?Hg in *.
    + exact HB'.
    + exact iT.
    + rewrite Hl. cdec as [Heq|_]; [|apply iI]. inversion Heq; subst a w. rewrite Hlc0. cbn [app].
      (* the joiner is the (future) publisher: nothing was ever published, the snapshot is empty *)
      destruct (iLa host (or_introl eq_refl) (not_eq_sym Hch)) as [H|H].
      * unfold mlatest in H. rewrite Hhh, Hlc1 in H. simpl in H. unfold msnapshot. rewrite H. unfold mpstore. rewrite Hc0. reflexivity.
      * exfalso. apply H. unfold mpevents. rewrite Hc0. reflexivity.
    + rewrite Hl. cdec as [Heq|_]; [inversion Heq; congruence|apply iU; assumption].
    + apply iR. assumption.
    + fold (mpstore s w). fold (mpevents s w). unfold mlatest, mpstore. rewrite Hg. fold (mpstore s q). rewrite !Hl.
      destruct (decide ((w, host) = (host, c))) as [Heq|_]; [inversion Heq; congruence|].
      destruct (decide (q = c)) as [->|Hnq].
      * destruct (decide ((host, c) = (host, c))) as [_|?]; [|congruence]. rewrite Hlc0. cbn [app].
        assert (Hsc : mpstore s c = None) by (unfold mpstore; rewrite Hc0; reflexivity). rewrite Hsc.
        destruct (decide (w = host)) as [->|Hwh].
        -- left. rewrite Hhh, app_nil_r. unfold msnapshot, mpstore. destruct (mstore (mgetp s host)); reflexivity.
        -- assert (Hh : mlatest w s host = lastd None (msnapshot s ++ mlink s w host)).
           { unfold mlatest, msnapshot. rewrite Hhh. destruct (mpstore s host); reflexivity. }
           rewrite <- Hh. apply iLa; [left; reflexivity|congruence].
      * destruct (decide ((host, q) = (host, c))) as [Heq|_]; [inversion Heq; congruence|].
        apply iLa; [|assumption]. destruct H as [H|H]; [left; exact H|]. rewrite Hc in H.
        apply elem_of_app in H as [H|H]; [right; exact H|]. apply elem_of_list_singleton in H. contradiction.
Qed.

Lemma minv_step w s e s' :
  mwf s -> MInv w s -> mpub_ok w e -> mstep s e = Some s' -> MInv w s' /\ mpstore s' w = mstore_after w s e.
Proof.
  intros Hwf HI Hok Hstep.
  destruct e as [p v|p|p|src dst|c]; try (eapply minv_step1; eauto; exact I).
  apply mstep_react_runs in Hstep.
  pose (P := fun s1 => mwf s1 /\ MInv w s1 /\ mpstore s1 w = mpstore s w).
  assert (HP : P s') ; [|destruct HP as (_ & H1 & H2); split; [exact H1|exact H2]].
  eapply (mreact1s_ind P p); [|split; [exact Hwf|split; [exact HI|reflexivity]]|exact Hstep].
  intros s1 s2 (Hw1 & HI1 & Hs1) H12. split; [eapply mstep_wf; eauto|].
  destruct (minv_step1 w s1 (MReact1 p) s2 I Hw1 HI1 I H12) as [HI2 Hs2].
  split; [exact HI2|]. rewrite Hs2. exact Hs1.
Qed.

Lemma minv_publish_quiescent p s c s' :
  mwf s -> MBasic s -> mquiescent s -> mstep s (MPublish p c) = Some s' -> MInv p s' /\ mpstore s' p = Some c.
Proof.
  intros Hwf HB Hqs Hstep. pose proof (mbasic_step1 s (MPublish p c) s' I Hwf HB I Hstep) as HB'.
  apply mstep_publish in Hstep as (_ & Hc & Hl & _ & Hp & Hq).
  assert (Hlk : forall a b, mlink s' a b = []) by (intros; unfold mlink; rewrite Hl; apply (mquiescent_link s _ _ Hqs)).
  split; [|unfold mpstore; rewrite Hp; reflexivity].
  constructor; intros; rewrite ?Hlk in *; auto.
  - unfold mptok. rewrite Hp. apply (mquiescent_peer s p Hqs).
  - unfold mptok, mpevents. rewrite Hq by assumption. destruct (mquiescent_peer s q Hqs) as (H1 & H2).
    unfold mptok, mpevents in *. congruence.
  - right. unfold mpevents. rewrite Hp. discriminate.
Qed.

Lemma mpublished_cons e tr :
  mpublished (e :: tr) = match e with MPublish _ c => c :: mpublished tr | _ => mpublished tr end.
Proof. destruct e; reflexivity. Qed.

Lemma minv_run tr : forall w s s',
  mwf s -> MInv w s -> mhandover_at_quiescence w s tr = true -> mrun s tr = Some s' ->
  exists w', mwf s' /\ MInv w' s' /\ mpstore s' w' = lastd (mpstore s w) (mpublished tr).
Proof.
  induction tr as [|e tr IH]; intros w s s' Hwf HI Hho Hrun.
  - simpl in Hrun. inversion Hrun; subst. exists w. auto.
  - cbn [mrun] in Hrun. cbn [mhandover_at_quiescence] in Hho.
    destruct (mstep s e) as [s1|] eqn:Hstep; [|discriminate].
    pose proof (mstep_wf _ _ _ Hwf Hstep) as Hwf1.
    assert (H1 : exists w1, MInv w1 s1 /\ mhandover_at_quiescence w1 s1 tr = true /\
                            lastd (mpstore s1 w1) (mpublished tr) = lastd (mpstore s w) (mpublished (e :: tr))).
    { destruct e as [p v|p|p|src dst|c].
      - apply andb_true_iff in Hho as [Hh1 Hho]. exists p. rewrite mpublished_cons, lastd_cons.
        apply orb_true_iff in Hh1 as [Hh1|Hh1].
        + apply bool_decide_eq_true in Hh1. subst p.
          destruct (minv_step w s (MPublish w v) s1 Hwf HI eq_refl Hstep) as [HI1 Hs1]. rewrite Hs1. auto.
        + apply bool_decide_eq_true in Hh1.
          destruct (minv_publish_quiescent p s v s1 Hwf (mi_basic _ _ HI) Hh1 Hstep) as [HI1 Hs1]. rewrite Hs1. auto.
      - exists w. destruct (minv_step w s (MReact p) s1 Hwf HI I Hstep) as [HI1 Hs1]. rewrite Hs1. auto.
      - exists w. destruct (minv_step w s (MReact1 p) s1 Hwf HI I Hstep) as [HI1 Hs1]. rewrite Hs1. auto.
      - exists w. destruct (minv_step w s (MDeliver src dst) s1 Hwf HI I Hstep) as [HI1 Hs1]. rewrite Hs1. auto.
      - exists w. destruct (minv_step w s (MJoin c) s1 Hwf HI I Hstep) as [HI1 Hs1]. rewrite Hs1. auto. }
    destruct H1 as (w1 & HI1 & Hho1 & Hla).
    destruct (IH w1 s1 s' Hwf1 HI1 Hho1 Hrun) as (w' & Hwf' & HI' & Hs').
    exists w'. split; [exact Hwf'|]. split; [exact HI'|]. rewrite Hs'. exact Hla.
Qed.

Lemma minv_init w n : MInv w (minit n).
Proof.
  constructor; try apply mbasic_init; unfold mlatest, mpstore, mpevents, mptok; intros; rewrite ?minit_getp, ?minit_link in *; simpl; auto.
Qed.

Lemma minv_quiescent_agree w s : MInv w s -> mquiescent s -> forall q, mpeers s q -> mpstore s q = mpstore s w.
Proof.
  intros HI Hq q Hpq. destruct (decide (q = w)) as [->|Hne]; [reflexivity|].
  destruct (mquiescent_peer s w Hq) as (Hew & _).
  destruct (mi_latest _ _ HI q Hpq Hne) as [H|H]; [|contradiction].
  unfold mlatest in H. rewrite !(mquiescent_link s _ _ Hq) in H. exact H.
Qed.

(* M06, the general form: the publisher changes only in quiescent states, the same peer publishes at ANY pace,
   fresh clients join at ANY moment (the snapshot carries the content: there is no join window) *)
Theorem M06_handover n w0 tr s' :
  mrun (minit n) tr = Some s' -> mhandover_at_quiescence w0 (minit n) tr = true -> mquiescent s' ->
  forall q, mpeers s' q -> mpstore s' q = last (mpublished tr).
Proof.
  intros Hrun Hho Hq q Hpq.
  destruct (minv_run tr w0 (minit n) s' (minit_wf n) (minv_init w0 n) Hho Hrun) as (w' & _ & HI & Hs).
  rewrite (minv_quiescent_agree w' s' HI Hq q Hpq), Hs.
  unfold mpstore at 1. rewrite minit_getp. apply lastd_None_last.
Qed.
Print Assumptions M06_handover.

Lemma mhandover_only_publisher w tr : monly_publisher w tr -> forall s, mhandover_at_quiescence w s tr = true.
Proof.
  unfold monly_publisher. induction tr as [|e tr IH]; intros Hop s; [reflexivity|]. cbn [mhandover_at_quiescence].
  destruct (mstep s e) as [s1|]; [|reflexivity].
  destruct e as [p v|p|p|src dst|c]; simpl in Hop; try (apply IH; exact Hop).
  apply Forall_cons in Hop as [-> Hop]. rewrite bool_decide_eq_true_2 by reflexivity. simpl. apply IH. exact Hop.
Qed.

Lemma mhandover_drain_separated tr : forall w s, mops_at_quiescence s tr = true -> mhandover_at_quiescence w s tr = true.
Proof.
  induction tr as [|e tr IH]; intros w s Hops; [reflexivity|]. cbn [mhandover_at_quiescence mops_at_quiescence] in *.
  destruct (mstep s e) as [s1|]; [|reflexivity]. apply andb_true_iff in Hops as [H1 Hops].
  destruct e as [p v|p|p|src dst|c]; try (apply IH; exact Hops).
  simpl in H1. rewrite H1, orb_true_r. simpl. apply IH. exact Hops.
Qed.

(* M1.  M06 at full strength: ONE publisher (host or client, present from the start or joining later) at ANY
   pace, fresh clients joining at ANY moment, every interleaving *)
Theorem M06_single_publisher n w tr s' :
  mrun (minit n) tr = Some s' -> monly_publisher w tr -> mquiescent s' ->
  forall q, mpeers s' q -> mpstore s' q = last (mpublished tr).
Proof. intros Hrun Hop. apply (M06_handover n w tr s' Hrun). apply mhandover_only_publisher. exact Hop. Qed.
Print Assumptions M06_single_publisher.

Definition M06_statement : Prop :=
  forall n p tr s',
    mrun (minit n) tr = Some s' -> monly_publisher p tr -> mquiescent s' ->
    forall q, mpeers s' q -> mpstore s' q = last (mpublished tr).
Theorem M06_holds : M06_statement.
Proof. exact M06_single_publisher. Qed.

(* M2.  Any number of publishers, drain separated *)
Theorem M06_drain_separated n tr s' :
  mrun (minit n) tr = Some s' -> mops_at_quiescence (minit n) tr = true -> mquiescent s' ->
  forall q, mpeers s' q -> mpstore s' q = last (mpublished tr).
Proof. intros Hrun Hops. apply (M06_handover n host tr s' Hrun). apply mhandover_drain_separated. exact Hops. Qed.
Print Assumptions M06_drain_separated.

(* the old S7 witness for materials ("older overwrites newer"): the host writes 20 and 30 while the clients do not
   step; each client applies both updates before its react system runs: two events, two tokens, no echo; the
   host writes 40: everybody ends with 40 *)
Definition w_material : list mevent :=
  [MPublish 0 20; MReact 0; MPublish 0 30; MReact 0;
   MDeliver 0 1; MDeliver 0 1; MDeliver 0 2; MDeliver 0 2; MReact 1; MReact 2;
   MPublish 0 40; MReact 0; MDeliver 0 1; MReact 1; MDeliver 0 2; MReact 2].

Example material_burst_converges :
  (fun s => mview s [0; 1; 2]) <$> mrun (minit 2) w_material = Some ([Some 40; Some 40; Some 40], true) /\
  monly_publisher 0 w_material /\ mops_at_quiescence (minit 2) w_material = false /\
  mtotal_sent (minit 2) w_material = 6%nat.
Proof. split; [vm_compute; reflexivity|]. split; [unfold monly_publisher; vm_compute; repeat constructor|]. split; vm_compute; reflexivity. Qed.

(* the old echo cycle: after two publications of the host applied together by both clients, the exchange now
   simply stops: nothing is sent back *)
Definition w_echo_pre : list mevent :=
  [MPublish 0 20; MReact 0; MPublish 0 30; MReact 0;
   MDeliver 0 1; MDeliver 0 1; MDeliver 0 2; MDeliver 0 2; MReact 1; MReact 2].

Example material_echo_cycle_gone :
  (fun s => (mview s [0; 1; 2], (fun p => mlink s p 0) <$> [1; 2])) <$> mrun (minit 2) w_echo_pre
    = Some (([Some 30; Some 30; Some 30], true), [[]; []]) /\
  mtotal_sent (minit 2) w_echo_pre = 4%nat.
Proof. split; vm_compute; reflexivity. Qed.

(* non-vacuity: a client publishes a burst with a join in mid-flight; then hand-over to the host *)
Example M06_nonvacuous :
  let tr := [MPublish 1 10; MReact 1; MPublish 1 20; MDeliver 1 0; MJoin 3; MReact 1; MReact 0; MDeliver 1 0; MReact 0;
             MDeliver 0 3; MDeliver 0 3; MReact 3; MDeliver 0 2; MDeliver 0 2; MReact 2;
             MPublish 0 30; MPublish 0 40; MReact 0; MDeliver 0 1; MDeliver 0 1; MDeliver 0 2; MDeliver 0 3; MDeliver 0 2; MDeliver 0 3;
             MReact 1; MReact 2; MReact 3] in
  mhandover_at_quiescence 1 (minit 2) tr = true /\ mops_at_quiescence (minit 2) tr = false /\
  monly_publisher 1 (take 15 tr) /\
  (fun s => mview s [0; 1; 2; 3]) <$> mrun (minit 2) (take 15 tr) = Some ([Some 20; Some 20; Some 20; Some 20], true) /\
  (fun s => mview s [0; 1; 2; 3]) <$> mrun (minit 2) tr = Some ([Some 40; Some 40; Some 40; Some 40], true).
Proof.
  split; [vm_compute; reflexivity|]. split; [vm_compute; reflexivity|].
  split; [unfold monly_publisher; vm_compute; repeat constructor|]. split; vm_compute; reflexivity.
Qed.

Example M06_drain_separated_nonvacuous :
  let tr := [MPublish 1 10; MReact 1; MDeliver 1 0; MDeliver 0 2; MReact 0; MReact 2;
             MJoin 3; MDeliver 0 3; MReact 3;
             MPublish 2 20; MReact 2; MDeliver 2 0; MReact 0; MDeliver 0 1; MDeliver 0 3; MReact 1; MReact 3;
             MPublish 0 30; MReact 0; MDeliver 0 1; MDeliver 0 2; MDeliver 0 3; MReact 1; MReact 2; MReact 3] in
  mops_at_quiescence (minit 2) tr = true /\
  (fun s => mview s [0; 1; 2; 3]) <$> mrun (minit 2) tr = Some ([Some 30; Some 30; Some 30; Some 30], true).
Proof. split; vm_compute; reflexivity. Qed.

(* outside the property: two publishers NOT drain separated may end quiescent and disagree *)
Theorem material_concurrent_publishers_disagree :
  exists n tr s',
    mrun (minit n) tr = Some s' /\ mquiescent s' /\ mpublished tr = [10; 20] /\
    mhandover_at_quiescence 1 (minit n) tr = false /\
    mpstore s' 0 = Some 20 /\ mpstore s' 1 = Some 20 /\ mpstore s' 2 = Some 10.
Proof.
  exists 2%nat, [MPublish 1 10; MPublish 2 20; MReact 1; MReact 2; MDeliver 1 0; MDeliver 2 0; MDeliver 0 2; MDeliver 0 1;
                 MReact 0; MReact 1; MReact 2].
  match goal with |- exists s', mrun ?s0 ?tr = _ /\ _ =>
    destruct (mrun_obs (fun s => (mquiescentb s, mpstore s 0, mpstore s 1, mpstore s 2)) s0 tr (true, Some 20, Some 20, Some 10))
      as (s' & Hrun & Hobs); [vm_compute; reflexivity|] end.
  injection Hobs as Hq H0 H1 H2. apply bool_decide_eq_true in Hq.
  exists s'. split; [exact Hrun|]. split; [exact Hq|]. split; [reflexivity|]. split; [vm_compute; reflexivity|]. auto.
Qed.

(* ---------- M4: traffic and termination for materials -------------------------------------------------- *)

Definition mallp (s : mstate) : list peer := host :: mconn s.
Definition mpsum (F : mpeer -> nat) (s : mstate) : nat := sumf (fun p => F (mgetp s p)) (mallp s).
Definition mlsum_down (s : mstate) : nat := sumf (fun c => length (mlink s host c)) (mconn s).
Definition mlsum_up (s : mstate) : nat := sumf (fun c => length (mlink s c host)) (mconn s).
Definition mcredit (x : mpeer) : nat := (mevents x - mtok x)%nat.
Definition MSC := mpsum mcredit.
Definition MST := mpsum mtok.

Lemma mallp_nodup s : mwf s -> NoDup (mallp s).
Proof. intros Hwf. apply NoDup_cons. split; [apply mwf_host; exact Hwf|apply mwf_nodup; exact Hwf]. Qed.

Lemma mpsum_update F s s' p :
  mwf s -> mconn s' = mconn s -> is_Some (mp s !! p) -> (forall q, q <> p -> mgetp s' q = mgetp s q) ->
  (mpsum F s' + F (mgetp s p) = mpsum F s + F (mgetp s' p))%nat.
Proof.
  intros Hwf Hc Hex Hq. unfold mpsum, mallp. rewrite Hc.
  apply (sumf_update (fun p => F (mgetp s p)) (fun p => F (mgetp s' p))); [apply (mallp_nodup s Hwf)| |].
  - unfold mallp. apply elem_of_cons. apply (mwf_exists s p Hwf). exact Hex.
  - intros x _ Hne. rewrite Hq by assumption. reflexivity.
Qed.

Lemma mlsum_same s s' :
  mconn s' = mconn s -> (forall a b, mlink s' a b = mlink s a b) -> mlsum_down s' = mlsum_down s /\ mlsum_up s' = mlsum_up s.
Proof. intros Hc Hl. unfold mlsum_down, mlsum_up. rewrite Hc. split; apply sumf_ext; intros; rewrite Hl; reflexivity. Qed.

Lemma mdelta_publish s p v s' :
  mwf s -> MBasic s -> mstep s (MPublish p v) = Some s' ->
  mconn s' = mconn s /\ MSC s' = S (MSC s) /\ MST s' = MST s /\ mlsum_down s' = mlsum_down s /\ mlsum_up s' = mlsum_up s.
Proof.
  intros Hwf HB Hstep. apply mstep_publish in Hstep as (Hex & Hc & Hl & _ & Hp & Hq).
  assert (Hlk : forall a b, mlink s' a b = mlink s a b) by (intros; unfold mlink; rewrite Hl; reflexivity).
  destruct (mlsum_same s s' Hc Hlk) as [H1 H2]. split; [exact Hc|].
  pose proof (mpsum_update mcredit s s' p Hwf Hc Hex Hq) as HC.
  pose proof (mpsum_update mtok s s' p Hwf Hc Hex Hq) as HT.
  rewrite Hp in HC, HT. unfold mcredit in HC, HT. cbn [mevents mtok] in HC, HT.
  destruct (HB p) as (Hle & _). unfold MSC, MST, mcredit, mptok, mpevents in *. repeat split; try assumption; lia.
Qed.

Lemma mdelta_react1 s p s' :
  mwf s -> MBasic s -> mstep s (MReact1 p) = Some s' ->
  mconn s' = mconn s /\
  ((mpevents s p = 0%nat /\ moriginates s p = None /\ MSC s' = MSC s /\ MST s' = MST s /\ mlsum_down s' = mlsum_down s /\ mlsum_up s' = mlsum_up s) \/
   (mpevents s p <> 0%nat /\ moriginates s p = None /\ MSC s' = MSC s /\ S (MST s') = MST s /\ mlsum_down s' = mlsum_down s /\ mlsum_up s' = mlsum_up s) \/
   (mpevents s p <> 0%nat /\ moriginates s p <> None /\ S (MSC s') = MSC s /\ MST s' = MST s /\
    ((p = host /\ mlsum_down s' = (mlsum_down s + length (mconn s))%nat /\ mlsum_up s' = mlsum_up s) \/
     (p <> host /\ p ∈ mconn s /\ mlsum_down s' = mlsum_down s /\ mlsum_up s' = S (mlsum_up s))))).
Proof.
  intros Hwf HB Hstep. pose proof (mwf_nodup s Hwf) as Hnd.
  apply mstep_react1 in Hstep as (Hex & Hc & _ & Hp & Hq & Hl); [|exact Hnd]. split; [exact Hc|].
  pose proof (mpsum_update mcredit s s' p Hwf Hc Hex Hq) as HC.
  pose proof (mpsum_update mtok s s' p Hwf Hc Hex Hq) as HT.
  rewrite Hp in HC, HT. unfold moriginates, mpevents.
  destruct (mreact1_cases (mgetp s p)) as [[E0 E]|[(k & E0 & E1 & E)|[(k & c & t & E0 & E1 & E2 & E)|(k & c & E0 & E1 & E2 & E)]]];
    rewrite E in *; cbn [fst snd] in *; unfold mcredit in HC, HT; cbn [mevents mtok] in HC, HT; unfold mann_links in Hl.
  - destruct (mlsum_same s s' Hc Hl) as [H1 H2]. unfold MSC, MST, mcredit. left. repeat split; try assumption; lia.
  - exfalso. destruct (HB p) as (_ & H2). apply H2; [unfold mpevents; rewrite E0; discriminate|exact E1].
  - destruct (mlsum_same s s' Hc Hl) as [H1 H2]. unfold MSC, MST, mcredit. right. left.
    rewrite E0, E2 in *. repeat split; try assumption; try lia.
  - unfold MSC, MST, mcredit. right. right. rewrite E0, E2 in *.
    split; [lia|]. split; [discriminate|]. split; [lia|]. split; [lia|].
    unfold mlsum_down, mlsum_up. rewrite Hc. destruct (decide (p = host)) as [->|Hph].
    + left. split; [reflexivity|]. split.
      * rewrite (sumf_add_const (fun c => length (mlink s host c)) _ (mconn s) 1); [lia|].
        intros x Hx. rewrite Hl. unfold mdsts_of. change (host =? host)%N with true. cbv iota.
        destruct (decide (host = host /\ x ∈ mconn s)) as [_|Hn]; [rewrite app_length; reflexivity|tauto].
      * apply sumf_ext. intros x Hx. rewrite Hl. cdec as [[-> _]|_]; [exfalso; apply (mwf_host s Hwf Hx)|reflexivity].
    + right. split; [exact Hph|].
      assert (Hin : p ∈ mconn s). { apply (mwf_exists s p Hwf) in Hex as [?|?]; [contradiction|assumption]. }
      split; [exact Hin|]. split.
      * apply sumf_ext. intros x Hx. rewrite Hl. cdec as [[Heq _]|_]; [congruence|reflexivity].
      * pose proof (sumf_update (fun c => length (mlink s c host)) (fun c => length (mlink s' c host)) (mconn s) p Hnd Hin) as HU.
        cbv beta in HU. rewrite (Hl p host) in HU. unfold mdsts_of in HU. destruct (p =? host)%N eqn:E'; [apply N.eqb_eq in E'; contradiction|].
        destruct (decide (p = p /\ host ∈ [host])) as [_|Hn]; [|exfalso; apply Hn; split; [reflexivity|apply elem_of_list_singleton; reflexivity]].
        rewrite app_length in HU. simpl in HU.
        assert (H : (sumf (fun c => length (mlink s' c host)) (mconn s) + length (mlink s p host)
                     = sumf (fun c => length (mlink s c host)) (mconn s) + (length (mlink s p host) + 1))%nat); [|lia].
        apply HU. intros x Hx Hne. rewrite Hl. cdec as [[Heq _]|_]; [contradiction|reflexivity].
Qed.

Lemma mdelta_deliver s src dst s' :
  mwf s -> MBasic s -> mstep s (MDeliver src dst) = Some s' ->
  mconn s' = mconn s /\ MSC s' = MSC s /\ MST s' = S (MST s) /\
  ((dst = host /\ src ∈ mconn s /\ S (mlsum_up s') = mlsum_up s /\
    mlsum_down s' = (mlsum_down s + length (others src (mconn s)))%nat /\ msent1 s (MDeliver src dst) = length (others src (mconn s))) \/
   (dst <> host /\ mlsum_up s' = mlsum_up s /\ S (mlsum_down s') = mlsum_down s /\ msent1 s (MDeliver src dst) = 0%nat)).
Proof.
  intros Hwf HB Hstep. pose proof (mwf_nodup s Hwf) as Hnd.
  apply mstep_deliver in Hstep as (o & rest & Hl0 & Hex & Hc & _ & Hp & Hq & Hl); [|exact Hnd]. split; [exact Hc|].
  pose proof (mpsum_update mcredit s s' dst Hwf Hc Hex Hq) as HC.
  pose proof (mpsum_update mtok s s' dst Hwf Hc Hex Hq) as HT.
  rewrite Hp in HC, HT. unfold mcredit in HC, HT. cbn [mevents mtok] in HC, HT.
  destruct (HB dst) as (Hle & _). unfold MSC, MST, mcredit, mptok, mpevents in *. split; [lia|]. split; [lia|].
  assert (Hne0 : mlink s src dst <> []) by (rewrite Hl0; discriminate).
  unfold mlsum_down, mlsum_up. rewrite Hc. cbn [msent1]. rewrite Hl0.
  destruct (mwf_link s src dst Hwf Hne0) as [[-> Hin]|[-> Hin]].
  - assert (Hdh : dst <> host) by (intros ->; apply (mwf_host s Hwf Hin)).
    right. split; [exact Hdh|]. destruct (dst =? host)%N eqn:E; [apply N.eqb_eq in E; contradiction|].
    split; [|split; [|reflexivity]].
    + apply sumf_ext. intros x Hx. rewrite Hl.
      destruct (decide ((x, host) = (host, dst))) as [Heq|_]; [inversion Heq; congruence|].
      destruct (decide (dst = host /\ _)) as [[? _]|_]; [contradiction|]. rewrite app_nil_r. reflexivity.
    + pose proof (sumf_update (fun c => length (mlink s host c)) (fun c => length (mlink s' host c)) (mconn s) dst Hnd Hin) as HU.
      cbv beta in HU. rewrite (Hl host dst), Hl0 in HU.
      destruct (decide ((host, dst) = (host, dst))) as [_|?]; [|congruence].
      destruct (decide (dst = host /\ _)) as [[? _]|_]; [contradiction|]. rewrite app_nil_r in HU. cbn [length] in HU.
      assert (H : (sumf (fun c => length (mlink s' host c)) (mconn s) + S (length rest)
                   = sumf (fun c => length (mlink s host c)) (mconn s) + length rest)%nat); [|lia].
      apply HU. intros x Hx Hne. rewrite Hl.
      destruct (decide ((host, x) = (host, dst))) as [Heq|_]; [inversion Heq; congruence|].
      destruct (decide (dst = host /\ _)) as [[? _]|_]; [contradiction|]. rewrite app_nil_r. reflexivity.
  - assert (Hsh : src <> host) by (intros ->; apply (mwf_host s Hwf Hin)).
    left. split; [reflexivity|]. split; [exact Hin|]. change (host =? host)%N with true. cbv iota.
    split; [|split; [|reflexivity]].
    + pose proof (sumf_update (fun c => length (mlink s c host)) (fun c => length (mlink s' c host)) (mconn s) src Hnd Hin) as HU.
      cbv beta in HU. rewrite (Hl src host), Hl0 in HU.
      destruct (decide ((src, host) = (src, host))) as [_|?]; [|congruence].
      destruct (decide (host = host /\ src = host /\ _)) as [(_ & ? & _)|_]; [contradiction|]. rewrite app_nil_r in HU. cbn [length] in HU.
      assert (H : (sumf (fun c => length (mlink s' c host)) (mconn s) + S (length rest)
                   = sumf (fun c => length (mlink s c host)) (mconn s) + length rest)%nat); [|lia].
      apply HU. intros x Hx Hne. rewrite Hl.
      destruct (decide ((x, host) = (src, host))) as [Heq|_]; [inversion Heq; congruence|].
      destruct (decide (host = host /\ x = host /\ _)) as [(_ & -> & _)|_]; [exfalso; apply (mwf_host s Hwf Hx)|]. rewrite app_nil_r. reflexivity.
    + unfold others. apply (sumf_add_filter (fun c => length (mlink s host c)) _ (fun c => c <> src)).
      intros x Hx. rewrite Hl. destruct (decide ((host, x) = (src, host))) as [Heq|_]; [inversion Heq; congruence|].
      rewrite app_length. f_equal. destruct (decide (x <> src)) as [Hy|Hn].
      * destruct (decide (host = host /\ host = host /\ x ∈ others src (mconn s))) as [_|Hn]; [reflexivity|].
        exfalso. apply Hn. split; [reflexivity|]. split; [reflexivity|]. apply elem_of_others. auto.
      * destruct (decide (host = host /\ host = host /\ x ∈ others src (mconn s))) as [(_ & _ & Hy)|_]; [|reflexivity].
        apply elem_of_others in Hy as [Hy _]. contradiction.
Qed.

Lemma mdelta_join s c s' :
  mwf s -> mstep s (MJoin c) = Some s' ->
  mconn s' = mconn s ++ [c] /\ MSC s' = MSC s /\ MST s' = MST s /\
  mlsum_down s' = (mlsum_down s + msent1 s (MJoin c))%nat /\ mlsum_up s' = mlsum_up s /\ (msent1 s (MJoin c) <= 1)%nat.
Proof.
  intros Hwf Hstep. apply mstep_join in Hstep as (Hch & Hcn & Hnone & Hc & _ & Hg & Hl).
  assert (Hlc : mlink s host c = []) by (apply mwf_link_nil; [exact Hwf|apply mwf_host; exact Hwf|exact Hcn]).
  assert (Hlc' : mlink s c host = []) by (apply mwf_link_nil; [exact Hwf|exact Hcn|apply mwf_host; exact Hwf]).
  assert (Hc0 : mgetp s c = mpeer0) by (unfold mgetp; rewrite Hnone; reflexivity).
  split; [exact Hc|].
  assert (HF : forall F, F mpeer0 = 0%nat -> mpsum F s' = mpsum F s).
  { intros F HF. unfold mpsum, mallp. rewrite Hc. cbn [sumf]. rewrite sumf_app. cbn [sumf]. rewrite !Hg, Hc0, HF.
    rewrite (sumf_ext (fun p => F (mgetp s' p)) (fun p => F (mgetp s p)) (mconn s)); [lia|]. intros x _. rewrite Hg. reflexivity. }
  split; [apply HF; reflexivity|]. split; [apply HF; reflexivity|].
  unfold mlsum_down, mlsum_up. rewrite Hc, !sumf_app. cbn [sumf msent1]. rewrite !Hl.
  destruct (decide ((host, c) = (host, c))) as [_|?]; [|congruence].
  destruct (decide ((c, host) = (host, c))) as [Heq|_]; [inversion Heq; congruence|].
  rewrite Hlc, Hlc'. cbn [app length].
  rewrite (sumf_ext (fun x => length (mlink s' host x)) (fun x => length (mlink s host x)) (mconn s)).
  2:{ intros x Hx. rewrite Hl. cdec as [Heq|_]; [inversion Heq; congruence|reflexivity]. }
  rewrite (sumf_ext (fun x => length (mlink s' x host)) (fun x => length (mlink s x host)) (mconn s)).
  2:{ intros x Hx. rewrite Hl. cdec as [Heq|_]; [inversion Heq; subst; exfalso; apply (mwf_host s Hwf Hx)|reflexivity]. }
  unfold msnapshot. destruct (mpstore s host); simpl; repeat split; lia.
Qed.

Definition MPhi (M : nat) (s : mstate) : nat := (MSC s * M + mlsum_up s * (M - 1))%nat.
Definition mmu (s : mstate) : nat :=
  let N := length (mconn s) in (MSC s * (2 * N + 1) + MST s + 2 * mlsum_down s + 2 * N * mlsum_up s)%nat.
Definition mcost (M : nat) (e : mevent) : nat := match e with MPublish _ _ => M | MJoin _ => 1%nat | _ => 0%nat end.
Definition meff1 (s : mstate) (e : mevent) : nat :=
  match e with
  | MReact p | MReact1 p => match mpevents s p with O => 0%nat | S _ => 1%nat end
  | MDeliver _ _ => 1%nat
  | _ => 0%nat
  end.
Fixpoint meffective (s : mstate) (tr : list mevent) : nat :=
  match tr with
  | [] => 0%nat
  | e :: tr => match mstep s e with Some s' => (meff1 s e + meffective s' tr)%nat | None => 0%nat end
  end.

Lemma mcounts_step1 M s e s' :
  msingle e -> mwf s -> MBasic s -> mstep s e = Some s' -> (length (mconn s') <= M)%nat ->
  (msent1 s e + MPhi M s' <= MPhi M s + mcost M e)%nat /\
  (mplain e -> mconn s' = mconn s /\ (meff1 s e + mmu s' <= mmu s)%nat).
Proof.
  intros He Hwf HB Hstep HM. destruct e as [p v|p|p|src dst|c]; [|contradiction| | |].
  - destruct (mdelta_publish s p v s' Hwf HB Hstep) as (Hc & HC & HT & HD & HU).
    unfold MPhi. rewrite HC, HU. cbn [msent1 mcost mplain]. split; [lia|]. intros [].
  - destruct (mdelta_react1 s p s' Hwf HB Hstep) as (Hc & Hcases). rewrite Hc in HM.
    unfold MPhi, mmu. rewrite Hc. cbn [msent1 mcost meff1].
    destruct Hcases as [(He0 & Ho & HC & HT & HD & HU)|[(He0 & Ho & HC & HT & HD & HU)|(He0 & Ho & HC & HT & Hph)]].
    + rewrite Ho, HC, HT, HD, HU, He0. split; [lia|]. intros _. split; [reflexivity|lia].
    + rewrite Ho, HC, HD, HU. destruct (mpevents s p); [congruence|]. split; [lia|]. intros _. split; [reflexivity|lia].
    + destruct (moriginates s p) as [c|]; [|congruence]. destruct (mpevents s p); [congruence|]. unfold mdsts_of.
      destruct Hph as [(-> & HD & HU)|(Hph & Hin & HD & HU)]; rewrite HD, HU, HT.
      * change (host =? host)%N with true. cbv iota. split; [nia|]. intros _. split; [reflexivity|nia].
      * destruct (p =? host)%N eqn:E; [apply N.eqb_eq in E; contradiction|]. cbn [length].
        assert (length (mconn s) >= 1)%nat by (destruct (mconn s); [inversion Hin|simpl; lia]).
        split; [nia|]. intros _. split; [reflexivity|nia].
  - destruct (mdelta_deliver s src dst s' Hwf HB Hstep) as (Hc & HC & HT & Hcases). rewrite Hc in HM.
    unfold MPhi, mmu. rewrite Hc, HC, HT. cbn [mcost meff1].
    destruct Hcases as [(-> & Hin & HU & HD & Hs)|(Hdh & HU & HD & Hs)]; rewrite Hs.
    + pose proof (others_length_lt src (mconn s) Hin). rewrite HD. split; [nia|]. intros _. split; [reflexivity|nia].
    + rewrite HU. split; [lia|]. intros _. split; [reflexivity|nia].
  - destruct (mdelta_join s c s' Hwf Hstep) as (Hc & HC & HT & HD & HU & Hs).
    unfold MPhi. rewrite HC, HU. cbn [mcost mplain]. split; [lia|]. intros [].
Qed.

Lemma mcounts_react M p k : forall s s',
  mwf s -> MBasic s -> (length (mconn s) <= M)%nat -> mreact_n k s p = Some s' ->
  mwf s' /\ MBasic s' /\ mconn s' = mconn s /\
  (msent_react k s p + MPhi M s' <= MPhi M s)%nat /\
  (mmu s' <= mmu s)%nat /\ (k <> 0%nat -> mpevents s p <> 0%nat -> mmu s' < mmu s)%nat.
Proof.
  induction k as [|k IH]; intros s s' Hwf HB HM Hrun; cbn [mreact_n msent_react] in *.
  - inversion Hrun; subst. split; [exact Hwf|]. split; [exact HB|]. split; [reflexivity|]. split; [lia|]. split; [lia|]. intros H0. congruence.
  - destruct (mreact1 s p) as [s1|] eqn:H1; [|discriminate].
    assert (Hs1 : mstep s (MReact1 p) = Some s1) by exact H1.
    pose proof (mstep_wf _ _ _ Hwf Hs1) as Hwf1. pose proof (mbasic_step1 s (MReact1 p) s1 I Hwf HB I Hs1) as HB1.
    assert (Hc1 : mconn s1 = mconn s) by (apply mstep_react1 in Hs1 as (_ & Hc & _); [exact Hc|apply mwf_nodup; exact Hwf]).
    destruct (mcounts_step1 M s (MReact1 p) s1 I Hwf HB Hs1) as (Ha & Hcd); [rewrite Hc1; exact HM|].
    destruct (Hcd I) as [_ Hd]. cbn [mcost meff1] in *.
    destruct (IH s1 s' Hwf1 HB1) as (Hwf' & HB' & Hc' & Ha' & Hd' & _); [rewrite Hc1; exact HM|exact Hrun|].
    split; [exact Hwf'|]. split; [exact HB'|]. split; [congruence|]. split; [lia|]. split; [lia|].
    intros _ He. destruct (mpevents s p); [congruence|]. lia.
Qed.

Lemma mjoins_cons e tr : mjoins (e :: tr) = match e with MJoin c => c :: mjoins tr | _ => mjoins tr end.
Proof. destruct e; reflexivity. Qed.

Lemma mbasic_step s e s' : mwf s -> MBasic s -> mstep s e = Some s' -> MBasic s'.
Proof. intros Hwf HB Hstep. eapply (mstep_lift MBasic (fun _ => True)); [exact mbasic_step1|auto|exact Hwf|exact HB|exact I|exact Hstep]. Qed.

Lemma mcounts_run M tr : forall s s',
  mwf s -> MBasic s -> (length (mconn s) + length (mjoins tr) <= M)%nat -> mrun s tr = Some s' ->
  (mtotal_sent s tr + MPhi M s' <= MPhi M s + length (mpublished tr) * M + length (mjoins tr))%nat.
Proof.
  induction tr as [|e tr IH]; intros s s' Hwf HB HM Hrun.
  - simpl in Hrun. inversion Hrun; subst. simpl. lia.
  - cbn [mrun] in Hrun. cbn [mtotal_sent]. destruct (mstep s e) as [s1|] eqn:Hstep; [|discriminate].
    pose proof (mstep_wf _ _ _ Hwf Hstep) as Hwf1. pose proof (mbasic_step s e s1 Hwf HB Hstep) as HB1.
    rewrite mjoins_cons in HM. rewrite mpublished_cons, mjoins_cons.
    assert (H1 : (length (mconn s1) + length (mjoins tr) <= M)%nat /\ (msent_by s e + MPhi M s1 <= MPhi M s + mcost M e)%nat).
    { destruct e as [p v|p|p|src dst|c]; cbn beta iota in HM.
      - assert (Hc : mconn s1 = mconn s) by (apply mstep_publish in Hstep as (_ & Hc & _); exact Hc).
        destruct (mcounts_step1 M s (MPublish p v) s1 I Hwf HB Hstep) as (Ha & _); [rewrite Hc; lia|]. split; [rewrite Hc; lia|exact Ha].
      - cbn [msent_by]. pose proof Hstep as Hstep'. simpl in Hstep'. unfold mpevents.
        destruct (mp s !! p) as [x|] eqn:Hx; [|discriminate]. rewrite (mgetp_exists _ _ _ Hx).
        destruct (mcounts_react M p (mevents x) s s1 Hwf HB) as (_ & _ & Hc & Ha & _); [lia|exact Hstep'|].
        split; [rewrite Hc; lia|]. cbn [mcost]. lia.
      - assert (Hc : mconn s1 = mconn s) by (apply mstep_react1 in Hstep as (_ & Hc & _); [exact Hc|apply mwf_nodup; exact Hwf]).
        destruct (mcounts_step1 M s (MReact1 p) s1 I Hwf HB Hstep) as (Ha & _); [rewrite Hc; lia|]. split; [rewrite Hc; lia|exact Ha].
      - assert (Hc : mconn s1 = mconn s) by (apply mstep_deliver in Hstep as (o & rest & _ & _ & Hc & _); [exact Hc|apply mwf_nodup; exact Hwf]).
        destruct (mcounts_step1 M s (MDeliver src dst) s1 I Hwf HB Hstep) as (Ha & _); [rewrite Hc; lia|]. split; [rewrite Hc; lia|exact Ha].
      - assert (Hcj : mconn s1 = mconn s ++ [c]) by (apply mstep_join in Hstep as (_ & _ & _ & Hcj & _); exact Hcj).
        assert (Hlen : length (mconn s1) = S (length (mconn s))) by (rewrite Hcj, app_length; simpl; lia).
        cbn [length] in HM. destruct (mcounts_step1 M s (MJoin c) s1 I Hwf HB Hstep) as (Ha & _); [lia|]. split; [lia|exact Ha]. }
    destruct H1 as (HM1 & Ha). pose proof (IH s1 s' Hwf1 HB1 HM1 Hrun) as Ha'.
    destruct e as [p v|p|p|src dst|c]; cbn [mcost length] in *; lia.
Qed.

Lemma mcounters_quiescent s : mquiescent s -> MSC s = 0%nat /\ MST s = 0%nat /\ mlsum_down s = 0%nat /\ mlsum_up s = 0%nat.
Proof.
  intros Hq. unfold MSC, MST, mpsum, mlsum_down, mlsum_up.
  repeat split; apply sumf_zero; intros x _; try (rewrite (mquiescent_link s _ _ Hq); reflexivity);
    destruct (mquiescent_peer s x Hq) as (H1 & H2); unfold mpevents, mptok, mcredit in *; rewrite ?H1, ?H2; reflexivity.
Qed.

(* the global traffic bound for materials, for EVERY run: the old unbounded echo is gone *)
Theorem mtraffic_bound n tr s' :
  mrun (minit n) tr = Some s' ->
  (mtotal_sent (minit n) tr <= length (mpublished tr) * (n + length (mjoins tr)) + length (mjoins tr))%nat.
Proof.
  intros Hrun.
  pose proof (mcounts_run (n + length (mjoins tr)) tr (minit n) s' (minit_wf n) (mbasic_init n)) as Ha.
  destruct (mcounters_quiescent _ (minit_quiescent n)) as (H1 & H2 & H3 & H4).
  unfold MPhi in Ha. rewrite H1, H4 in Ha. simpl mconn in Ha. rewrite length_clients in Ha. specialize (Ha ltac:(lia) Hrun). lia.
Qed.
Print Assumptions mtraffic_bound.

Lemma mplain_trace rest : Forall mplain rest -> mpublished rest = [] /\ mjoins rest = [].
Proof. induction 1 as [|e rest He _ (IH1 & IH2)]; [auto|]. destruct e; simpl in He; try contradiction; auto. Qed.

(* one publication in a quiescent state costs at most n messages *)
Theorem mpublication_cost n tr0 s p c rest s' :
  mrun (minit n) tr0 = Some s -> mquiescent s -> Forall mplain rest -> mrun s (MPublish p c :: rest) = Some s' ->
  (mtotal_sent s (MPublish p c :: rest) <= length (mconn s))%nat.
Proof.
  intros Hrun0 Hq Hpl Hrun. destruct (mplain_trace rest Hpl) as (Hp1 & Hp3).
  pose proof (mcounts_run (length (mconn s)) (MPublish p c :: rest) s s' (mrun_wf _ _ _ (minit_wf n) Hrun0) (mbasic_invariant n tr0 s Hrun0)) as Ha.
  rewrite mjoins_cons, mpublished_cons, Hp1, Hp3 in Ha.
  destruct (mcounters_quiescent s Hq) as (H1 & H2 & H3 & H4). unfold MPhi in Ha. rewrite H1, H4 in Ha. cbn [length] in Ha.
  specialize (Ha ltac:(lia) Hrun). lia.
Qed.
Print Assumptions mpublication_cost.

(* unconditional termination of the exchange *)
Theorem mplain_steps_bounded tr : forall s s',
  mwf s -> MBasic s -> Forall mplain tr -> mrun s tr = Some s' -> (meffective s tr + mmu s' <= mmu s)%nat.
Proof.
  induction tr as [|e tr IH]; intros s s' Hwf HB Hpl Hrun.
  - simpl in Hrun. inversion Hrun; subst. simpl. lia.
  - cbn [mrun meffective] in *. destruct (mstep s e) as [s1|] eqn:Hstep; [|discriminate].
    apply Forall_cons in Hpl as [He Hpl]. pose proof (mstep_wf _ _ _ Hwf Hstep) as Hwf1.
    pose proof (mbasic_step s e s1 Hwf HB Hstep) as HB1. specialize (IH s1 s' Hwf1 HB1 Hpl Hrun).
    assert (H1 : (meff1 s e + mmu s1 <= mmu s)%nat); [|lia].
    destruct e as [p v|p|p|src dst|c]; try contradiction.
    + pose proof Hstep as Hstep'. simpl in Hstep'. cbn [meff1]. unfold mpevents.
      destruct (mp s !! p) as [x|] eqn:Hx; [|discriminate]. rewrite (mgetp_exists _ _ _ Hx).
      destruct (mcounts_react (length (mconn s)) p (mevents x) s s1 Hwf HB) as (_ & _ & _ & _ & Hle & Hlt); [lia|exact Hstep'|].
      destruct (mevents x) as [|k] eqn:Ek; [lia|].
      assert (mmu s1 < mmu s)%nat; [|lia]. apply Hlt; [discriminate|]. unfold mpevents. rewrite (mgetp_exists _ _ _ Hx), Ek. discriminate.
    + assert (Hc : mconn s1 = mconn s) by (apply mstep_react1 in Hstep as (_ & Hc & _); [exact Hc|apply mwf_nodup; exact Hwf]).
      destruct (mcounts_step1 (length (mconn s)) s (MReact1 p) s1 I Hwf HB Hstep) as (_ & Hd); [rewrite Hc; lia|]. apply (Hd I).
    + assert (Hc : mconn s1 = mconn s) by (apply mstep_deliver in Hstep as (o & rest & _ & _ & Hc & _); [exact Hc|apply mwf_nodup; exact Hwf]).
      destruct (mcounts_step1 (length (mconn s)) s (MDeliver src dst) s1 I Hwf HB Hstep) as (_ & Hd); [rewrite Hc; lia|]. apply (Hd I).
Qed.
Print Assumptions mplain_steps_bounded.

Lemma mnot_quiescent_progress s :
  mwf s -> MBasic s -> ~ mquiescent s -> exists e s1, mplain e /\ mstep s e = Some s1 /\ meff1 s e = 1%nat.
Proof.
  intros Hwf HB Hnq. unfold mquiescent in Hnq.
  destruct (decide (map_Forall (fun _ l => l = []) (mlinks s))) as [HA|HA].
  - assert (HnB : ~ map_Forall (fun _ x => mpeer_idle x) (mp s)) by tauto.
    apply map_not_Forall in HnB; [|apply _]. destruct HnB as (p & x & Hx & Hni).
    destruct (mevents x) as [|k] eqn:Ek.
    + exfalso. apply Hni. split; [exact Ek|]. destruct (HB p) as (Hle & _). unfold mptok, mpevents in Hle.
      rewrite (mgetp_exists _ _ _ Hx), Ek in Hle. lia.
    + exists (MReact1 p). destruct (mstep s (MReact1 p)) as [s1|] eqn:E.
      * exists s1. split; [exact I|]. split; [reflexivity|]. cbn [meff1]. unfold mpevents. rewrite (mgetp_exists _ _ _ Hx), Ek. reflexivity.
      * exfalso. simpl in E. unfold mreact1 in E. rewrite Hx in E. destruct (mreact1_peer x). discriminate.
  - apply map_not_Forall in HA; [|apply _]. destruct HA as ([a b] & l & Hl & Hne).
    assert (Hlk : mlink s a b = l) by (unfold mlink, lget; rewrite Hl; reflexivity).
    destruct l as [|o rest]; [congruence|].
    assert (Hex : is_Some (mp s !! b)).
    { apply (mwf_exists s b Hwf). destruct (mwf_link s a b Hwf) as [[_ H]|[H _]]; [rewrite Hlk; discriminate|right; exact H|left; exact H]. }
    destruct Hex as [x Hx]. exists (MDeliver a b). destruct (mstep s (MDeliver a b)) as [s1|] eqn:E.
    + exists s1. split; [exact I|]. split; reflexivity.
    + exfalso. simpl in E. rewrite Hlk, Hx in E. discriminate.
Qed.

Theorem mquiescence_reachable s :
  mwf s -> MBasic s -> exists tr s', Forall mplain tr /\ mrun s tr = Some s' /\ mquiescent s'.
Proof.
  remember (mmu s) as m eqn:Hm. revert s Hm. induction m as [m IH] using lt_wf_ind. intros s Hm Hwf HB.
  destruct (decide (mquiescent s)) as [Hq|Hnq]; [exists [], s; split; [apply Forall_nil_2|split; [reflexivity|exact Hq]]|].
  destruct (mnot_quiescent_progress s Hwf HB Hnq) as (e & s1 & He & Hstep & Heff).
  pose proof (mplain_steps_bounded [e] s s1 Hwf HB (Forall_cons_2 _ _ _ He (Forall_nil_2 _))) as Hb.
  cbn [mrun meffective] in Hb. rewrite Hstep in Hb. specialize (Hb eq_refl). rewrite Heff in Hb.
  pose proof (mstep_wf _ _ _ Hwf Hstep) as Hwf1. pose proof (mbasic_step s e s1 Hwf HB Hstep) as HB1.
  destruct (IH (mmu s1)) with (s := s1) as (tr & s' & Hpl & Hrun & Hq'); [lia|reflexivity|exact Hwf1|exact HB1|].
  exists (e :: tr), s'. split; [constructor; assumption|]. split; [|exact Hq']. cbn [mrun]. rewrite Hstep. exact Hrun.
Qed.
Print Assumptions mquiescence_reachable.

Corollary mexchange_terminates n tr0 s :
  mrun (minit n) tr0 = Some s ->
  (forall tr s', Forall mplain tr -> mrun s tr = Some s' -> (meffective s tr <= mmu s)%nat) /\
  (exists tr s', Forall mplain tr /\ mrun s tr = Some s' /\ mquiescent s').
Proof.
  intros Hrun. pose proof (mrun_wf _ _ _ (minit_wf n) Hrun) as Hwf. pose proof (mbasic_invariant n tr0 s Hrun) as HB. split.
  - intros tr s' Hpl Hr. pose proof (mplain_steps_bounded tr s s' Hwf HB Hpl Hr). lia.
  - apply mquiescence_reachable; assumption.
Qed.
Print Assumptions mexchange_terminates.

Example mtraffic_nonvacuous :
  mtotal_sent (minit 2) w_material = 6%nat /\ length (mpublished w_material) = 3%nat /\
  (fun s => (mmu s, meffective s [MDeliver 0 1; MDeliver 0 1; MDeliver 0 2; MDeliver 0 2; MReact 1; MReact 2]))
    <$> mrun (minit 2) (take 4 w_echo_pre) = Some (8%nat, 6%nat).
Proof. vm_compute. auto. Qed.

(* ================================================================================================
   Summary: the literal properties, and the assumptions of everything above
   ================================================================================================ *)

Lemma no_joins_ok s tr : no_joins tr -> joins_ok s tr.
Proof.
  unfold no_joins, joins_ok, fresh_joins, known_join_window. intros Hnj. split; [rewrite Hnj; constructor|].
  revert s. induction tr as [|e tr IH]; intros s; [reflexivity|]. cbn [scan]. rewrite joins_cons in Hnj.
  destruct e as [p v|p|p|src dst|p|c pre]; try discriminate; cbn [bad_join_window orb];
    match goal with |- context [astep ?s0 ?e0] => destruct (astep s0 e0) end; try reflexivity; apply IH; exact Hnj.
Qed.

(* The literal property C06: while one peer alone publishes the id (bursts and overwrites included), every
   quiescent state shows the last published content on every peer.  REFUTED before the repairs (S7, S12). *)
Definition C06_statement : Prop :=
  forall n p tr s',
    arun (ainit n) tr = Some s' -> only_publisher p tr -> no_joins tr -> aquiescent s' ->
    forall q, peers s' q -> pstore s' q = last (published tr).

Theorem C06_holds : C06_statement.
Proof.
  intros n p tr s' Hrun Hop Hnj. apply (C06_single_publisher_any_join n p tr s' Hrun Hop).
  unfold fresh_joins. rewrite Hnj. constructor.
Qed.
Print Assumptions C06_holds.

Example host_serves_only_for_joins_nonvacuous :
  only_publisher 1 ex_client_publishes /\ no_joins ex_client_publishes /\
  (fun s => pserved s <$> [0; 1; 2]) <$> arun (ainit 2) ex_client_publishes = Some [None; Some 10; None].
Proof. split; [only_pub|]. split; [reflexivity|vm_compute; reflexivity]. Qed.

Example mno_echo_nonvacuous :
  monly_publisher 0 w_echo_pre /\
  (fun s => (fun q => (mptok s q, mpevents s q, moriginates s q)) <$> [1; 2]) <$> mrun (minit 2) (take 8 w_echo_pre)
  = Some [(2, 2, None); (2, 2, None)]%nat.
Proof. split; [unfold monly_publisher; vm_compute; repeat constructor|vm_compute; reflexivity]. Qed.

Example awf_invariant_nonvacuous : exists s', arun (ainit 1) w_host_stale = Some s' /\ length (aconn s') = 3%nat.
Proof. destruct (arun_obs (fun s => length (aconn s)) (ainit 1) w_host_stale 3%nat) as (s' & H1 & H2); [vm_compute; reflexivity|]. exists s'. split; [exact H1|exact H2]. Qed.

Print Assumptions C06_any_join_holds.
Print Assumptions join_cost.
Print Assumptions join_preloaded_private_refuted.
Print Assumptions concurrent_publishers_disagree.
Print Assumptions concurrent_publishers_lose_update.
Print Assumptions material_concurrent_publishers_disagree.
Print Assumptions M06_holds.
Print Assumptions basic_invariant.
Print Assumptions mbasic_invariant.
Print Assumptions mwf_invariant.
